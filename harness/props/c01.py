"""C01 — Request is a coherent, state-free view of the WSGI environ.

Three parts (see design_notes/C01.md):

* correspondence: coq/Model/C01_EnvView.v (environ + heap of live GetDict / CacheControl views +
  per-wrapper charset memory) is run on generated operation histories and compared, step by step,
  with the real webob.Request: the whole environ (cache tuples included), the value read through
  the long-lived wrapper A and the value read through a brand-new Request over the stripped
  environ.  The string-level parsers (parse_qsl_text / urlencode, parse_cookie / _mutate_header's
  regex edit, CacheControl.parse / serialize_cache_control) are Section variables of the model; the
  correspondence instantiates them with tables recorded from the real functions.
* oracle: the statement itself on the real implementation — after every step of a history of
  writes (request attributes, headers mapping, GET / cookies / cache_control views fresh or held,
  raw environ edits, body replacement, through two long-lived wrappers) EVERY public getter of the
  long-lived wrapper must equal the same getter of a brand-new Request over a copy of the environ
  stripped of webob's cache keys; every write must land under the standard CGI key and nowhere
  else.
* replay(ctx, path) re-runs the oracle on a stored history.
"""
import datetime
import io
import itertools
import json

from harness import fw
from harness.fw import Err, catch, cstr, cval, clist, cpair, copt

PROP = "C01"
CACHE_KEYS = ("webob._parsed_query_vars", "webob._parsed_post_vars", "webob._parsed_cookies",
              "webob._cache_control", "webob._body_file")


# =========================================================================== implementation side
class Stream:
    """A non-seekable input stream (like a socket file): read/readline only."""

    def __init__(self, data, pos=0):
        self.data = data
        self.pos = pos

    def read(self, n=-1):
        if n is None or n < 0:
            n = len(self.data) - self.pos
        r = self.data[self.pos:self.pos + n]
        self.pos += len(r)
        return r

    def readline(self, n=-1):
        i = self.data.find(b"\n", self.pos)
        end = len(self.data) if i < 0 else i + 1
        if n is not None and n >= 0:
            end = min(end, self.pos + n)
        r = self.data[self.pos:end]
        self.pos = end
        return r

    def clone(self):
        return Stream(self.data, self.pos)


def clone_input(f):
    """An independent copy of a body object (same content, same position)."""
    if isinstance(f, Stream):
        return f.clone()
    if isinstance(f, io.BytesIO):
        c = io.BytesIO(f.getvalue())
        c.seek(f.tell())
        return c
    if hasattr(f, "seek") and hasattr(f, "tell") and hasattr(f, "read"):     # a temporary file made by copy_body
        try:
            pos = f.tell()
            f.seek(0)
            c = io.BytesIO(f.read())
            f.seek(pos)
            c.seek(pos)
            return c
        except Exception:  # noqa
            return f
    return f


_CLASSES = {}


def wrapper_class(name):
    """The configurations of the wrapper itself: webob.Request, BaseRequest (no ad-hoc attribute mixin), and a subclass
    overriding the class-level knob request_body_tempfile_limit (bodies of more than 8 bytes go to a temporary file)."""
    if not _CLASSES:
        from webob import Request
        from webob.request import BaseRequest

        class SmallTemp(Request):
            request_body_tempfile_limit = 8

        _CLASSES.update({"Request": Request, "BaseRequest": BaseRequest, "SmallTemp": SmallTemp})
    return _CLASSES[name]


def fresh_request(env, cls=None):
    """A brand-new Request (of the wrapper's class) over a copy of the environ stripped of webob's cache keys; the body
    object is cloned so that reading it through the new wrapper cannot disturb the original."""
    e = {k: v for k, v in env.items() if k not in CACHE_KEYS}
    if "wsgi.input" in e:
        e["wsgi.input"] = clone_input(e["wsgi.input"])
    return (cls or wrapper_class("Request"))(e)


def decode_value(spec):
    """JSON-able value specification -> Python value handed to a setter."""
    if isinstance(spec, dict):
        if "bytes" in spec:
            return bytes.fromhex(spec["bytes"])
        if "dt" in spec:
            return datetime.datetime(*spec["dt"])
        if "tuple" in spec:
            return tuple(decode_value(x) for x in spec["tuple"])
        if "dict" in spec:
            return {k: decode_value(v) for k, v in spec["dict"]}
        if "stream" in spec:
            return Stream(bytes.fromhex(spec["stream"]))
        if "bytesio" in spec:
            return io.BytesIO(bytes.fromhex(spec["bytesio"]))
        if "cc" in spec:
            from webob.cachecontrol import CacheControl
            return CacheControl({k: decode_value(v) for k, v in spec["cc"]}, type="request")
        if "true" in spec:
            return True
        if "obj" in spec:
            return make_object(spec["obj"])
        if "pairs" in spec:
            return [(k, decode_value(v)) for k, v in spec["pairs"]]
        if "multidict" in spec:
            from webob.multidict import MultiDict
            return MultiDict([(k, decode_value(v)) for k, v in spec["multidict"]])
        if "iter" in spec:
            return iter([(k, decode_value(v)) for k, v in spec["iter"]])
        raise ValueError(spec)
    if isinstance(spec, list):
        return [decode_value(x) for x in spec]
    return spec


def make_object(name):
    """Typed objects that setters accept besides text."""
    import webob.acceptparse as ap
    from webob.byterange import Range
    from webob.cachecontrol import CacheControl
    from webob.etag import ETagMatcher, IfRange
    if name == "range":
        return Range(0, 5)
    if name == "accept":
        return ap.create_accept_header("text/html;q=0.5, a/b")
    if name == "accept_none":
        return ap.AcceptNoHeader()
    if name == "accept_invalid":
        return ap.AcceptInvalidHeader(", ,")
    if name == "accept_language":
        return ap.create_accept_language_header("en, fr;q=0.3")
    if name == "etag":
        return ETagMatcher(["a", "b"])
    if name == "ifrange":
        return IfRange.parse('"a"')
    if name == "noetag":            # the three "empty but not None" values a typed If-Range / Range setter accepts
        from webob.etag import NoETag
        return NoETag
    if name == "ifrange_empty":     # what request.if_range returns when there is no If-Range header: IfRange(<ETag *>), str() == ""
        from webob.request import BaseRequest
        return BaseRequest({"REQUEST_METHOD": "GET"}).if_range
    if name == "etag_empty":
        return ETagMatcher([])
    if name == "timedelta":
        return datetime.timedelta(seconds=60)
    if name == "date":
        return datetime.date(2001, 2, 3)
    if name == "timetuple":
        return (1994, 11, 6, 8, 49, 37, 6, 310, 0)
    if name == "float":
        return 784111777.5
    if name == "bytearray":
        return bytearray(b"abc")
    if name == "cc_response":
        return CacheControl({"max-age": 3, "public": None}, type="response")
    if name == "object":
        return object()
    raise ValueError(name)


def canon(v, depth=0):
    """Canonical, comparable form of anything a getter returns (no ids, no addresses)."""
    from webob.multidict import MultiDict, NoVars, NestedMultiDict
    from webob.cachecontrol import CacheControl
    from webob.cookies import RequestCookies
    from webob.headers import EnvironHeaders
    if v is None or isinstance(v, (bool, int, str, bytes)):
        return v
    if isinstance(v, Err):
        return v
    if isinstance(v, float):
        return round(v, 6)
    if isinstance(v, NoVars):
        return ["NoVars", str(v.reason)]
    if isinstance(v, MultiDict):
        return [type(v).__name__, [[canon(k), canon(x, depth + 1)] for k, x in v.items()]]
    if isinstance(v, (RequestCookies, EnvironHeaders)):
        return [type(v).__name__, [[k, canon(x, depth + 1)] for k, x in v.items()]]
    if isinstance(v, CacheControl):
        return ["CacheControl", v.type, sorted([k, canon(x)] for k, x in v.properties.items()), str(v)]
    if isinstance(v, (datetime.datetime, datetime.date)):
        return ["dt", v.isoformat()]
    if isinstance(v, dict):
        return ["dict", [[canon(k), canon(x, depth + 1)] for k, x in v.items()]]
    if isinstance(v, tuple) and hasattr(v, "_fields"):
        return [type(v).__name__] + [canon(x, depth + 1) for x in v]
    if isinstance(v, (list, tuple)):
        return [type(v).__name__] + [canon(x, depth + 1) for x in v]
    if isinstance(v, io.BytesIO):
        return ["BytesIO", v.getvalue()]
    if isinstance(v, Stream):
        return ["Stream", v.data[v.pos:]]
    mod = type(v).__module__ or ""
    if mod.startswith("webob"):
        name = type(v).__name__
        if mod == "webob.acceptparse":
            return [name, canon(getattr(v, "header_value", None)), canon(getattr(v, "parsed", None), depth + 1)]
        if mod == "webob.etag":
            return [name, str(v), canon(getattr(v, "etags", None), depth + 1), canon(getattr(v, "etag", None), depth + 1),
                    canon(getattr(v, "date", None), depth + 1)]
        if mod == "webob.byterange":
            return [name, str(v)]
        if mod == "webob.request" and hasattr(v, "environ"):
            return [name, catch(lambda: v.method), catch(lambda: v.url)]
        return [name, str(v)]
    if hasattr(v, "read"):
        return ["file", type(v).__name__]
    return ["obj", type(v).__name__]


def _peek_file(f):
    """Type and (for in-memory files) full content, without consuming anything."""
    if isinstance(f, io.BytesIO):
        return ["BytesIO", f.getvalue()]
    if isinstance(f, Stream):
        return ["Stream", f.data[f.pos:]]
    if hasattr(f, "seek") and hasattr(f, "tell") and hasattr(f, "read"):
        # where the body is kept (memory or temporary file) is a storage decision of the wrapper's class: compare content
        try:
            pos = f.tell()
            f.seek(0)
            data = f.read()
            f.seek(pos)
            if isinstance(data, bytes):
                return ["BytesIO", data]
        except Exception:  # noqa  (sys.stderr, closed files)
            pass
    return ["file", type(f).__name__]


PLAIN_GETTERS = [
    "method", "scheme", "http_version", "content_length", "content_type", "query_string", "server_name", "server_port",
    "script_name", "path_info", "uscript_name", "upath_info", "url_encoding", "remote_user", "remote_host", "remote_addr",
    "client_addr", "host", "host_port", "host_url", "domain", "application_url", "path_url", "path", "path_qs", "url",
    "is_xhr", "is_body_seekable", "is_body_readable", "urlargs",
    "accept", "accept_charset", "accept_encoding", "accept_language", "authorization", "cache_control",
    "if_match", "if_none_match", "date", "if_modified_since", "if_unmodified_since", "if_range", "max_forwards", "pragma",
    "range", "referer", "referrer", "user_agent", "GET", "cookies", "headers",
]
# getters whose value also depends on the (sticky) request charset or which touch the body / environ when read
BODY_GETTERS = ["body", "POST", "params", "body_file_seekable", "urlvars"]
CHARSET_GETTERS = ["charset", "text", "json_body", "json", "as_text"]


def getter_fn(name):
    if name == "as_bytes":
        return lambda r: r.as_bytes()
    if name == "as_text":
        return lambda r: r.as_text()
    if name == "as_bytes_skip":
        return lambda r: r.as_bytes(skip_body=True)
    if name == "path_info_peek":
        return lambda r: r.path_info_peek()
    if name == "relative_url":
        return lambda r: [r.relative_url("a/b?x=1"), r.relative_url("/c", True), r.relative_url("d", to_application=True)]
    if name == "body_file_seekable":
        return lambda r: _peek_file(r.body_file_seekable)
    if name == "body_file_raw":
        return lambda r: _peek_file(r.body_file_raw)
    if name == "body_file":
        return lambda r: _peek_file(r.body_file)
    if name == "headers.detail":
        return lambda r: [len(r.headers), sorted(r.headers.keys()), ["Content-Type" in r.headers, "cookie" in r.headers,
                                                                   r.headers.get("HOST"), r.headers.get("x-foo", "dflt")]]
    if name == "cookies.detail":
        return lambda r: [len(r.cookies), sorted(r.cookies.keys()), r.cookies.get("a"), "b" in r.cookies,
                          catch(lambda: r.cookies["sid"])]
    if name == "GET.detail":
        return lambda r: [len(r.GET), r.GET.getall("a"), r.GET.get("b"), "a" in r.GET, sorted(r.GET.mixed().items(), key=str),
                          catch(lambda: r.GET.getone("a"))]
    if name == "cache_control.detail":
        return lambda r: [r.cache_control.max_age, r.cache_control.no_cache, r.cache_control.no_store,
                          r.cache_control.max_stale, r.cache_control.min_fresh, r.cache_control.only_if_cached,
                          r.cache_control.no_transform]
    if name == "adhoc":
        return lambda r: [getattr(r, "foo", "<missing>"), getattr(r, "bar", "<missing>")]
    if name == "copy_get":
        return lambda r: (lambda c: [c.method, c.url, c.content_type, c.body, c.headers.get("Cookie")])(r.copy_get())
    if name == "copy":
        return lambda r: (lambda c: [c.method, c.url, c.content_type, c.body, sorted(c.headers.items())])(r.copy())
    if name == "decode":
        # (decode() may hand back a new Request that SHARES a non-seekable input stream with the original: reading that
        #  body would consume the original's stream, which is the stream's state, not the Request's)
        return lambda r: (lambda c: [c.method, c.url, c.content_type, c.body if c.is_body_seekable else None])(r.decode())
    if name == "repr":
        return lambda r: repr(r).split(" at 0x")[0] + " " + repr(r).split(" ", 3)[-1]
    return lambda r: getattr(r, name)


EXTRA_GETTERS = ["as_bytes", "as_bytes_skip", "path_info_peek", "relative_url", "body_file_raw", "body_file",
                 "headers.detail", "cookies.detail", "GET.detail", "cache_control.detail", "adhoc", "copy_get", "copy",
                 "decode", "repr"]
ALL_GETTERS = PLAIN_GETTERS + BODY_GETTERS + CHARSET_GETTERS + EXTRA_GETTERS
# getters that decode the body or the message with request.charset: compared with a fresh wrapper that has been told
# the long-lived wrapper's charset (the documented per-object memory)
USES_CHARSET = set(CHARSET_GETTERS) | {"POST", "params", "decode"}


def read(req, name):
    fn = getter_fn(name)
    return catch(lambda: canon(fn(req)))      # views are lazy: canonicalising may raise as well


# --------------------------------------------------------------------------- histories on the real implementation
class Side:
    """One environ, two long-lived wrappers over it, and the views handed out so far."""

    def __init__(self, env, wrappers, prime):
        self.env = env
        self.w = wrappers
        self.gets = []      # held GetDict handles
        self.ccs = []       # held CacheControl handles
        self.jars = []      # held RequestCookies handles
        self.hdrs = []      # held EnvironHeaders handles
        # the documented per-object memory: the charset is fixed at first use -> use it now
        self.sticky = [catch(lambda: r.charset) for r in self.w] if prime else [None, None]


class World:
    """The environ a history starts from, plus every COPY of an environ made on the way (copy(), copy_get(),
    Request(dict(environ))): each is a Side; operations go to the current one."""

    def __init__(self, envspec, prime=True):
        env = make_environ(envspec)
        names = envspec.get("classes") or ["Request", "Request"]
        self.prime = prime
        self.sides = [Side(env, [wrapper_class(n)(env) for n in names], prime)]
        self.cur = 0

    env = property(lambda self: self.sides[self.cur].env)
    w = property(lambda self: self.sides[self.cur].w)
    gets = property(lambda self: self.sides[self.cur].gets)
    ccs = property(lambda self: self.sides[self.cur].ccs)
    jars = property(lambda self: self.sides[self.cur].jars)
    hdrs = property(lambda self: self.sides[self.cur].hdrs)
    sticky = property(lambda self: self.sides[self.cur].sticky)


def make_environ(spec):
    """spec: {"kind": "blank"|"server", "path":..., "set": [[key, value]...], "body": hex|None, "seekable": bool}"""
    from webob import Request
    import sys
    kind = spec.get("kind", "blank")
    if kind == "blank":
        kw = {k: decode_value(v) for k, v in spec.get("blank_kw", {}).items()}
        env = Request.blank(spec.get("path", "/"), **kw).environ
    else:
        # what a WSGI server (wsgiref-style) hands to the application
        env = {
            "REQUEST_METHOD": spec.get("method", "GET"), "SCRIPT_NAME": "", "PATH_INFO": "/", "QUERY_STRING": "",
            "CONTENT_TYPE": "text/plain", "CONTENT_LENGTH": "", "SERVER_NAME": "srv.example", "SERVER_PORT": "8080",
            "SERVER_PROTOCOL": "HTTP/1.1", "REMOTE_ADDR": "10.0.0.9", "REMOTE_HOST": "client.example",
            "GATEWAY_INTERFACE": "CGI/1.1", "SERVER_SOFTWARE": "WSGIServer/0.2",
            "HTTP_HOST": "srv.example:8080", "HTTP_USER_AGENT": "ua/1.0", "HTTP_ACCEPT": "*/*",
            "wsgi.version": (1, 0), "wsgi.url_scheme": "http", "wsgi.input": Stream(b""), "wsgi.errors": sys.stderr,
            "wsgi.multithread": True, "wsgi.multiprocess": False, "wsgi.run_once": False,
        }
        p = spec.get("path", "/")
        if "?" in p:
            p, env["QUERY_STRING"] = p.split("?", 1)
        env["PATH_INFO"] = p
    for k, v in spec.get("set", []):
        env[k] = v
    if spec.get("body") is not None:
        data = bytes.fromhex(spec["body"])
        if spec.get("seekable", kind == "blank"):
            env["wsgi.input"] = io.BytesIO(data)
            env["webob.is_body_seekable"] = True
        else:
            env["wsgi.input"] = Stream(data)
            env.pop("webob.is_body_seekable", None)
        if spec.get("clen", True):
            env["CONTENT_LENGTH"] = str(len(data))
        else:
            env.pop("CONTENT_LENGTH", None)
            env["wsgi.input_terminated"] = True
    return env


def same_object(d, key, default):
    """A caller that passes as default the very object stored under the key (the same literal, an interned '' or
    1-character string): when an equal value is stored, hand in that object itself, so that the case does not depend
    on which strings CPython happens to share (a history replayed from JSON behaves like the generated one)."""
    for v in catch(d.getall, key) if hasattr(d, "getall") else []:
        if isinstance(v, str) and v == default:
            return v
    return default


def md_apply(d, m):
    """A MultiDict mutation m = [name, args...] on the view d."""
    m = [m[0]] + [decode_value(x) for x in m[1:]]
    t = m[0]
    if t == "set":
        return catch(d.__setitem__, m[1], m[2])
    if t == "add":
        return catch(d.add, m[1], m[2])
    if t == "del":
        return catch(d.__delitem__, m[1])
    if t == "pop":
        return catch(d.pop, m[1]) if len(m) < 3 else catch(d.pop, m[1], same_object(d, m[1], m[2]))
    if t == "popitem":
        r = catch(d.popitem)
        return list(r) if isinstance(r, tuple) else r
    if t == "setdefault":
        return catch(d.setdefault, m[1], same_object(d, m[1], m[2]))
    if t == "update":
        return catch(d.update, [tuple(p) for p in m[1]])
    if t == "extend":
        return catch(d.extend, [tuple(p) for p in m[1]])
    if t == "clear":
        return catch(d.clear)
    # the alternative accepted argument types / optional arguments
    if t == "setdefault_none":
        return catch(d.setdefault, m[1])
    if t == "update_dict":
        return catch(d.update, {a: b for a, b in m[1]})
    if t == "update_md":
        from webob.multidict import MultiDict
        return catch(d.update, MultiDict([tuple(p) for p in m[1]]))
    if t == "update_kw":
        return catch(lambda: d.update(**{a: b for a, b in m[1]}))
    if t == "extend_dict":
        return catch(d.extend, {a: b for a, b in m[1]})
    if t == "extend_md":
        from webob.multidict import MultiDict
        return catch(d.extend, MultiDict([tuple(p) for p in m[1]]))
    if t == "extend_iter":
        return catch(d.extend, iter([tuple(p) for p in m[1]]))
    if t == "extend_kw":
        return catch(lambda: d.extend(**{a: b for a, b in m[1]}))
    raise ValueError(m)


BULK_MD = ("update", "extend", "update_dict", "update_md", "update_kw", "extend_dict", "extend_md", "extend_iter", "extend_kw")


def cc_apply(cc, m):
    """A CacheControl mutation m = ["set", attr, value] | ["del", attr] | ["prop_set", key, value] | ["prop_del", key]
    | ["prop_clear"] | ["prop_update", [[k, v]...]] | ["prop_pop", key]."""
    t = m[0]
    if t == "set":
        return catch(setattr, cc, m[1], decode_value(m[2]))
    if t == "del":
        return catch(delattr, cc, m[1])
    p = cc.properties
    if t == "prop_set":
        return catch(p.__setitem__, m[1], decode_value(m[2]))
    if t == "prop_del":
        return catch(p.__delitem__, m[1])
    if t == "prop_clear":
        return catch(p.clear)
    if t == "prop_update":
        return catch(p.update, {k: decode_value(v) for k, v in m[1]})
    if t == "prop_pop":
        return catch(p.pop, m[1], None)
    if t == "prop_setdefault":
        return catch(p.setdefault, m[1], decode_value(m[2]))
    if t == "prop_ior":       # cc.properties |= {...}
        import operator
        r = catch(operator.ior, p, {k: decode_value(v) for k, v in m[1]})
        return r if isinstance(r, Err) else None
    if t == "prop_popitem":
        r = catch(p.popitem)
        return r if isinstance(r, Err) else None
    raise ValueError(m)


def pick(lst, i):
    return lst[i % len(lst)] if lst else None


def apply_op(W, op, rec=None):
    """Apply one operation of a history to the world; returns the canonical return value / exception.
    `rec` (correspondence only) is told about the views an operation goes through."""
    t = op[0]
    req = W.w[op[1] % 2] if len(op) > 1 and isinstance(op[1], int) and t not in ("env_set", "env_del") else W.w[0]
    env = W.env
    if t == "setattr":        # ["setattr", w, name, value]
        return canon(catch(setattr, req, op[2], decode_value(op[3])))
    if t == "delattr":
        return canon(catch(delattr, req, op[2]))
    if t == "env_set":        # raw edit of an underlying key
        env[op[1]] = decode_value(op[2])
        return None
    if t == "env_del":
        env.pop(op[1], None)
        return None
    if t == "hdr":            # ["hdr", w, how, mutation...]  how: "fresh" | held index
        how = op[2]
        if how == "fresh" or not W.hdrs:
            h = req.headers
        else:
            h = pick(W.hdrs, how)
        m = [op[3][0]] + [decode_value(x) for x in op[3][1:]]
        k = m[0]
        if k == "set":
            return canon(catch(h.__setitem__, m[1], m[2]))
        if k == "del":
            return canon(catch(h.__delitem__, m[1]))
        if k == "pop":
            return canon(catch(h.pop, m[1], None))
        if k == "update":
            return canon(catch(h.update, {a: b for a, b in m[1]}))
        if k == "setdefault":
            return canon(catch(h.setdefault, m[1], m[2]))
        if k == "clear":
            return canon(catch(h.clear))
        if k == "assign":     # req.headers = {...}
            return canon(catch(setattr, req, "headers", {a: b for a, b in m[1]}))
        if k == "update_pairs":
            return canon(catch(h.update, [tuple(x) for x in m[1]]))
        if k == "update_md":
            from webob.multidict import MultiDict
            return canon(catch(h.update, MultiDict([tuple(x) for x in m[1]])))
        if k == "pop_nodefault":
            return canon(catch(h.pop, m[1]))
        if k == "setdefault_none":
            return canon(catch(h.setdefault, m[1]))
        if k == "assign_pairs":
            return canon(catch(setattr, req, "headers", [tuple(x) for x in m[1]]))
        if k == "assign_headers":     # the headers view of another request
            other = wrapper_class("Request")({"HTTP_" + a.upper().replace("-", "_"): b for a, b in m[1]})
            return canon(catch(setattr, req, "headers", other.headers))
        raise ValueError(op)
    if t == "hold":           # ["hold", w, what]: keep a handle to a view for later use
        what = op[2]
        r = catch(getattr, req, {"GET": "GET", "cc": "cache_control", "cookies": "cookies", "headers": "headers"}[what])
        if not isinstance(r, Err):
            {"GET": W.gets, "cc": W.ccs, "cookies": W.jars, "headers": W.hdrs}[what].append(r)
        return None
    if t == "GET":            # ["GET", w, how, mutation]
        d = catch(lambda: req.GET) if op[2] == "fresh" or not W.gets else pick(W.gets, op[2])
        if isinstance(d, Err):
            return canon(d)
        if rec and hasattr(rec, "before_get"):
            rec.before_get(d)
        r = canon(md_apply(d, op[3]))
        if rec:
            rec.after_get(d)
        return r
    if t == "cookies":        # ["cookies", w, how, mutation]
        j = req.cookies if op[2] == "fresh" or not W.jars else pick(W.jars, op[2])
        m = [op[3][0]] + [decode_value(x) for x in op[3][1:]]
        if rec:
            rec.before_cookie(env, m)
        if m[0] == "set":
            return canon(catch(j.__setitem__, m[1], m[2]))
        if m[0] == "del":
            return canon(catch(j.__delitem__, m[1]))
        if m[0] == "clear":
            return canon(catch(j.clear))
        if m[0] == "pop":
            return canon(catch(j.pop, m[1], None))
        if m[0] == "update":
            return canon(catch(j.update, {a: b for a, b in m[1]}))
        if m[0] == "assign":
            return canon(catch(setattr, req, "cookies", {a: b for a, b in m[1]}))
        if m[0] == "pop_nodefault":
            return canon(catch(j.pop, m[1]))
        if m[0] == "setdefault":
            return canon(catch(j.setdefault, m[1], m[2]))
        if m[0] == "update_pairs":
            return canon(catch(j.update, [tuple(x) for x in m[1]]))
        if m[0] == "assign_pairs":
            return canon(catch(setattr, req, "cookies", [tuple(x) for x in m[1]]))
        raise ValueError(op)
    if t == "cc":             # ["cc", w, how, mutation]
        c = catch(lambda: req.cache_control) if op[2] == "fresh" or not W.ccs else pick(W.ccs, op[2])
        if isinstance(c, Err):
            return canon(c)
        if rec:
            rec.before_cc(c, op[3])
        return canon(cc_apply(c, op[3]))
    if t == "call":           # ["call", w, method, args]
        return canon(catch(getattr(req, op[2]), *[decode_value(a) for a in op[3]]))
    if t == "read":           # ["read", w, getter]: a plain read (primes caches / uses the body)
        if isinstance(op[2], list):
            model_read(req, op[2])
        else:
            read(req, op[2])
        return None
    if t == "callkw":         # ["callkw", w, method, args, [[name, value]...]]: the same methods with keyword arguments
        return canon(catch(lambda: getattr(req, op[2])(*[decode_value(a) for a in op[3]],
                                                       **{k: decode_value(v) for k, v in op[4]})))
    if t == "construct":      # ["construct", w, class, [[name, value]...]]: a new long-lived wrapper, written through
        cls = wrapper_class(op[2])          # the constructor's keywords; it replaces wrapper w
        r = catch(lambda: cls(env, **{k: decode_value(v) for k, v in op[3]}))
        if isinstance(r, Err):
            return canon(r)
        W.w[op[1] % 2] = r
        W.sticky[op[1] % 2] = catch(lambda: r.charset)
        return None
    if t == "selfassign":     # ["selfassign", w, attr, shape]: req.attr = <what req.attr just gave, in some shape>
        attr, shape = op[2], op[3]
        image = selfassign_image(req, attr)      # (first: reading the body may replace the input object)
        cur = catch(getattr, req, attr)
        if isinstance(cur, Err):
            return None
        if rec is not None and hasattr(rec, "selfassign"):
            rec.selfassign = (attr, image)
        val = catch(lambda: {"view": lambda: cur, "items": lambda: cur.items(), "gen": lambda: ((k, v) for k, v in cur.items()),
                             "dict": lambda: dict(cur), "list": lambda: list(cur.items())}[shape]())
        if isinstance(val, Err):      # the view cannot be read (outside-domain environ): nothing to assign
            return None
        return canon(catch(setattr, req, attr, val))
    if t == "fork":           # ["fork", w, how]: a further live wrapper over a COPY of the environ; the history goes on there
        how = op[2]
        r2 = catch({"copy": lambda: req.copy(), "copy_get": lambda: req.copy_get(), "dict": lambda: type(req)(dict(env)),
                    "envcopy": lambda: type(req)(env.copy())}[how])
        if isinstance(r2, Err):
            return canon(r2)
        W.sides.append(Side(r2.environ, [r2, type(r2)(r2.environ)], W.prime))
        W.cur = len(W.sides) - 1
        return None
    if t == "side":           # ["side", i]: go on with the wrappers of environ number i
        W.cur = op[1] % len(W.sides)
        return None
    if t == "knob":           # ["knob", w, name, value]: a class-level knob set on the instance after construction
        return canon(catch(setattr, req, op[2], decode_value(op[3])))
    if t == "adhoc":          # ["adhoc", w, name, value]
        from webob.request import AdhocAttrMixin
        if not isinstance(req, AdhocAttrMixin):
            return None       # BaseRequest: a plain Python attribute of the object, not a request attribute
        return canon(catch(setattr, req, op[2], decode_value(op[3])))
    if t == "urlvars":        # ["urlvars", w, key, value]: mutate the dict handed out by req.urlvars
        return canon(catch(lambda: req.urlvars.__setitem__(op[2], op[3])))
    raise ValueError(op)


# --------------------------------------------------------------------------- the oracle
def env_snapshot(env):
    """Comparable image of the non-cache part of the environ (objects by identity + in-memory content)."""
    out = {}
    for k, v in env.items():
        if k in CACHE_KEYS:
            continue
        if isinstance(v, (str, int, bool, tuple)) or v is None:
            out[k] = ("v", repr(v))
        elif isinstance(v, dict):
            out[k] = ("d", repr(sorted(v.items(), key=repr)))
        else:
            out[k] = ("o", id(v)) + tuple(_peek_file(v))
    return out


def expected_charset(content_type):
    """BaseRequest.charset's computation (request.py:131-136) from its two string functions, without the memo."""
    from webob.request import detect_charset, _is_utf8
    cs = detect_charset(content_type)
    return "UTF-8" if _is_utf8(cs) else cs


SELF_ASSIGNABLE = {"headers": ["view", "items", "gen", "dict", "list"], "cookies": ["view", "items", "gen", "dict"],
                   "cache_control": ["view"], "urlvars": ["view", "dict"], "urlargs": ["view"],
                   # (not body_file: its setter is documented to reset CONTENT_LENGTH, so a body cut short by CONTENT_LENGTH grows)
                   "body_file_raw": ["view"], "body": ["view"], "query_string": ["view"], "content_type": ["view"],
                   # (not the typed attributes accept*, if_match, if_none_match, if_range, range, dates, authorization: whether
                   #  serialize(parse(text)) reads back the same for ANY header text is the round trip of C03 / C11 / C12)
                   "host": ["view"], "script_name": ["view"],
                   "path_info": ["view"], "method": ["view"], "content_length": ["view"], "user_agent": ["view"],
                   "is_body_readable": ["view"], "is_body_seekable": ["view"], "charset": ["view"], "text": ["view"]}


def selfassign_image(req, attr):
    """What must survive req.attr = req.attr: the attribute as read back (containers by content, the body by its bytes)."""
    if attr in ("headers", "cookies", "urlvars"):
        return catch(lambda: sorted([canon(k), canon(v)] for k, v in getattr(req, attr).items()))
    if attr in ("body_file", "body_file_raw", "body", "text"):
        return catch(lambda: req.body)
    if attr == "cache_control":
        return catch(lambda: sorted([k, canon(v)] for k, v in req.cache_control.properties.items()))
    return read(req, attr)


class LastView:
    """Remembers the view an operation went through (for the write-lands checks)."""

    def __init__(self):
        self.get = self.cookie = self.cc = self.items = self.selfassign = None

    def before_get(self, d):
        self.items = [[canon(a), canon(b)] for a, b in d.items()]

    def after_get(self, d):
        self.get = d

    def before_cookie(self, env, m):
        self.cookie = env.get("HTTP_COOKIE") or ""

    def before_cc(self, c, m):
        self.cc = (c, dict(c.properties))


def text_part(env):
    """The CGI / WSGI text of an environ: what a write through the wrappers of ANOTHER environ must never touch
    (nested mutable objects -- the body object, ad-hoc attribute and routing dicts -- are shared by a shallow copy)."""
    return {k: v for k, v in env.items() if k not in CACHE_KEYS and (isinstance(v, (str, int, bool, tuple)) or v is None)}


def post_cache_valid(env):
    c = env.get("webob._parsed_post_vars")
    return c is not None and c[1] is env.get("wsgi.input")


def compare_all(W, step, op, getters, rng=None):
    """The statement: every getter read through the long-lived wrappers equals the same getter of a brand-new
    Request over the stripped environ.  Returns (key, message) of the first difference or None."""
    env = W.env
    order = list(getters)
    if rng is not None:
        rng.shuffle(order)
    for wi, A in enumerate(W.w):
        for g in order:
            F = fresh_request(env, type(A))
            if g in USES_CHARSET or g == "charset":
                cs = catch(lambda: A.charset)
                fcs = catch(lambda: F.charset)
                if g == "charset":
                    want = catch(expected_charset, env.get("CONTENT_TYPE", ""))
                    if fcs != want:
                        return ("charset:new-request-not-from-environ",
                                "step %d %r: a brand-new Request reports charset %r but CONTENT_TYPE=%r says %r"
                                % (step, op, fcs, env.get("CONTENT_TYPE"), want))
                    if cs != W.sticky[wi] and cs != fcs:
                        return ("charset:neither-sticky-nor-current",
                                "step %d %r: wrapper %d reports charset %r, fixed at first use as %r, current environ says %r"
                                % (step, op, wi, cs, W.sticky[wi], fcs))
                    continue
                if not isinstance(cs, Err):
                    F._charset = cs      # the documented per-object memory, handed to the new wrapper
            if g in ("POST", "params") and post_cache_valid(env):
                # documented: parsed form data is cached per body object -> the cached parse is what is reported
                cached = env["webob._parsed_post_vars"][0]
                before = canon(cached)
                a = read(A, g)
                if g == "POST" and a != before:
                    return ("POST:cached-parse-not-returned", "step %d %r: POST differs from the parse cached for this body object"
                            % (step, op))
                continue
            pre = dict(env)
            a = read(A, g)
            f = read(F, g)
            if a != f and g in nonstr_dependents(env):
                continue      # outside the statement: a CGI key holds something that is not a native string
            if a != f:
                return (classify(g, op, a, f, pre, env),
                        "step %d %r: request.%s through long-lived wrapper %d = %r but a brand-new Request over the same "
                        "environ reports %r" % (step, op, g, wi, a, f))
    return None


# getters that parse a CGI key; when that key holds a non-string (None, int, bytes: not a WSGI environ any more) the
# long-lived wrapper and a brand-new Request may fail differently -- every OTHER getter must still agree
PARSES = {
    "HTTP_COOKIE": {"cookies", "cookies.detail"},
}


def nonstr_dependents(env):
    out = set()
    for k, gs in PARSES.items():
        v = env.get(k, "")
        if not isinstance(v, str):
            out |= gs
    return out


def classify(g, op, a, f, env=None, live_env=None):
    base = g.split(".")[0]
    if base in ("cache_control",):
        c = (env or {}).get("webob._cache_control")
        if c and c[1] is not None:
            from webob.cachecontrol import UpdateDict
            props = c[1].properties
            owner = getattr(getattr(props, "updated", None), "__self__", None)
            if live_env is not None and getattr(owner, "environ", None) is not None and owner.environ is not live_env:
                # the cached object writes back to another environ (the one this environ was copied from)
                return "copy:cache_control-bound-to-other-environ"
            if not isinstance(props, UpdateDict) or props.updated is None:
                # the cached object does not write back: it is the one handed to the setter
                return "cache_control:assigned-object-not-live"
            if c[0] == env.get("HTTP_CACHE_CONTROL", "") and str(c[1]) != c[0]:
                # cached under this header text, modified since, and the text has come back by another route
                return "cache_control:stale-after-view-update"
        return "stale:cache_control"
    if base in ("GET", "params", "POST"):
        c = (env or {}).get("webob._parsed_query_vars")
        if c and base != "POST":
            def text(t):
                try:
                    t.encode("utf8")
                    return isinstance(t, str)
                except Exception:  # noqa
                    return False
            if any(not text(k) or not text(v) for k, v in c[0].items()):
                return "GET:refused-value-stays-in-view"      # an item that could not be written to QUERY_STRING
        return "stale:" + base
    if base == "cookies":
        return "stale:cookies"
    if base in ("body", "text", "json", "json_body", "body_file_seekable", "body_file_raw", "body_file", "copy", "decode",
                "as_bytes", "as_text", "POST", "params"):
        bf = (env or {}).get("webob._body_file")
        try:
            if bf is not None and bf[1] is env.get("wsgi.input") and str(bf[0].raw.maxlen) != str(env.get("CONTENT_LENGTH")):
                # the memoised LimitedLengthFile was made for an earlier CONTENT_LENGTH (the body is C10's subject)
                return "body:memoised-body_file-ignores-content-length-change"
        except Exception:  # noqa
            pass
    if base in ("body", "text", "json", "json_body", "body_file_seekable", "body_file_raw", "body_file"):
        return "stale:body"
    return "incoherent:" + base


# attribute -> standard CGI/WSGI key it must be stored under, and how the stored text relates to the value
ATTR_KEY = {
    "method": "REQUEST_METHOD", "scheme": "wsgi.url_scheme", "http_version": "SERVER_PROTOCOL",
    "content_length": "CONTENT_LENGTH", "content_type": "CONTENT_TYPE", "query_string": "QUERY_STRING",
    "server_name": "SERVER_NAME", "server_port": "SERVER_PORT", "script_name": "SCRIPT_NAME", "path_info": "PATH_INFO",
    "uscript_name": "SCRIPT_NAME", "upath_info": "PATH_INFO", "remote_user": "REMOTE_USER", "remote_host": "REMOTE_HOST",
    "remote_addr": "REMOTE_ADDR", "host": "HTTP_HOST", "user_agent": "HTTP_USER_AGENT", "referer": "HTTP_REFERER",
    "referrer": "HTTP_REFERER", "pragma": "HTTP_PRAGMA", "accept": "HTTP_ACCEPT", "accept_charset": "HTTP_ACCEPT_CHARSET",
    "accept_encoding": "HTTP_ACCEPT_ENCODING", "accept_language": "HTTP_ACCEPT_LANGUAGE",
    "authorization": "HTTP_AUTHORIZATION", "cache_control": "HTTP_CACHE_CONTROL", "if_match": "HTTP_IF_MATCH",
    "if_none_match": "HTTP_IF_NONE_MATCH", "date": "HTTP_DATE", "if_modified_since": "HTTP_IF_MODIFIED_SINCE",
    "if_unmodified_since": "HTTP_IF_UNMODIFIED_SINCE", "if_range": "HTTP_IF_RANGE", "max_forwards": "HTTP_MAX_FORWARDS",
    "range": "HTTP_RANGE", "cookies": "HTTP_COOKIE", "url_encoding": "webob.url_encoding",
    "is_body_seekable": "webob.is_body_seekable", "is_body_readable": "wsgi.input_terminated",
    "body_file_raw": "wsgi.input",
}
# attributes whose setter stores the given text unchanged
VERBATIM = {"method", "scheme", "http_version", "query_string", "server_name", "remote_user", "remote_host", "remote_addr",
            "host", "user_agent", "referer", "referrer", "pragma", "url_encoding"}
BODY_KEYS = {"CONTENT_LENGTH", "wsgi.input", "webob.is_body_seekable", "wsgi.input_terminated"}


def header_key(name):
    """The CGI key of a header name, written independently of webob: RFC 3875 section 4.1.18."""
    if not isinstance(name, str):
        return "<not a header name>"
    u = name.upper().replace("-", "_")
    if u in ("CONTENT_TYPE", "CONTENT_LENGTH") and "_" not in name:
        return u
    return "HTTP_" + u


def header_like_keys(env):
    """The environ keys that stand for request headers (RFC 3875 4.1.18, plus the two meta-variables)."""
    return [k for k in env if isinstance(k, str) and (k in ("CONTENT_TYPE", "CONTENT_LENGTH") or (k.startswith("HTTP_") and len(k) > 5))]


def expected_names(env):
    """The names request.headers must list, written from the key: the two meta-variables, the two keys that would
    collide with them (HTTP_CONTENT_TYPE is the header spelled Content_Type), else the title-cased rest of HTTP_*."""
    special = {"CONTENT_TYPE": "Content-Type", "CONTENT_LENGTH": "Content-Length", "HTTP_CONTENT_TYPE": "Content_Type",
               "HTTP_CONTENT_LENGTH": "Content_Length"}
    return [special[k] if k in special else k[5:].replace("_", "-").title() for k in header_like_keys(env)]


_MISSING = object()


def headers_laws(req, env, step, op, who):
    """The enumeration laws of the headers mapping, on the current state (deletions are tried on copies)."""
    h = catch(lambda: req.headers)
    names = catch(lambda: list(h.keys()))
    if isinstance(h, Err) or isinstance(names, Err) or not all(isinstance(n, str) for n in names):
        return None
    where = "step %d %r, %s: " % (step, op, who)
    # (case-insensitively in the sense the mapping itself uses, str.upper: the Kelvin sign U+212A lower-cases to "k" but
    #  is its own upper case, so "K-\u212a" and "k-k" are two headers for EnvironHeaders; header names are ASCII tokens)
    lows = [n.upper() for n in names]
    if len(set(lows)) != len(lows):
        return ("headers:name-listed-twice", where + "request.headers lists %r for environ keys %r" % (names, header_like_keys(env)))
    if catch(len, h) != len(names) or catch(lambda: list(iter(h))) != names:
        return ("headers:len-or-iteration-differs-from-keys", where + "len=%r iter=%r keys=%r" % (catch(len, h), catch(lambda: list(iter(h))), names))
    if names != expected_names(env):
        return ("headers:listing-differs-from-environ", where + "request.headers lists %r, the environ keys %r stand for %r"
                % (names, header_like_keys(env), expected_names(env)))
    items = catch(lambda: list(h.items()))
    for n in names:
        k = header_key(n)
        v = catch(h.__getitem__, n)
        if catch(h.__contains__, n) is not True or k not in env or v is not env[k]:
            return ("headers:listed-name-reads-another-key", where + "%r is listed, but headers[%r] = %r, %r in headers = %r, "
                    "environ[%r] = %r" % (n, n, v, n, catch(h.__contains__, n), k, env.get(k, "<absent>")))
    if isinstance(items, Err) or [n for n, _ in items] != names or any(v is not env[header_key(n)] for n, v in items) \
            or catch(lambda: dict(h)) != {n: env[header_key(n)] for n in names}:
        return ("headers:items-disagree-with-reads", where + "items() = %r, per-name reads %r"
                % (items, [[n, env[header_key(n)]] for n in names]))
    for n in names[:12]:
        e2 = dict(env)
        r = catch(type(req)(e2).headers.__delitem__, n)
        changed = {k for k in set(env) | set(e2) if e2.get(k, _MISSING) is not env.get(k, _MISSING)}
        if isinstance(r, Err) or changed != {header_key(n)}:
            return ("headers:delete-of-listed-name-hits-another-key", where + "del headers[%r] -> %r, environ keys changed: %r "
                    "(expected %r)" % (n, r, sorted(changed), header_key(n)))
    e2 = dict(env)
    r = catch(type(req)(e2).headers.clear)
    if isinstance(r, Err) or header_like_keys(e2):
        return ("headers:clear-leaves-headers", where + "headers.clear() -> %r leaves %r in the environ (was %r)"
                % (r, header_like_keys(e2), header_like_keys(env)))
    return None


def allowed_keys(op):
    """Non-cache environ keys an operation may change (None = not a checked write)."""
    t = op[0]
    if t == "setattr" or t == "delattr" or t == "selfassign":
        n = op[2]
        if n in ("body", "text", "json", "json_body", "body_file") or (t == "selfassign" and n == "body_file_raw"):
            return set(BODY_KEYS)      # (a self-assignment first reads the body, which may make it seekable)
        if n == "headers":
            return None
        if n in ATTR_KEY:
            return {ATTR_KEY[n]}
        return None
    if t == "hdr":
        m = op[3]
        if m[0] in ("set", "del", "pop", "setdefault", "pop_nodefault", "setdefault_none"):
            return {header_key(m[1])}
        if m[0] in ("update", "update_pairs", "update_md"):
            return {header_key(a) for a, _ in m[1]}
        return None
    if t == "construct":
        keys = set()
        for n, _ in op[3]:
            if n in ("body", "text", "json", "json_body", "body_file"):
                keys |= BODY_KEYS
            elif n in ATTR_KEY:
                keys.add(ATTR_KEY[n])
            else:
                return None
        return keys
    if t == "knob":
        return set()          # a storage knob of the wrapper: nothing in the environ
    if t == "GET":
        return {"QUERY_STRING"}
    if t == "cookies":
        return {"HTTP_COOKIE"}
    if t == "cc":
        return {"HTTP_CACHE_CONTROL"}
    # plain reads are not checked here: reading cache_control re-serialises HTTP_CACHE_CONTROL in canonical form
    # (CacheControl.parse arms the update callback before it fills the dict), reading the body sets CONTENT_LENGTH
    return None


def check_view_write(W, step, op, ret, last):
    """A successful write through a GET / cookies / cache_control view is in the environ: a brand-new Request sees it."""
    env = W.env
    t = op[0]
    if t == "selfassign" and last is not None and last.selfassign is not None and not isinstance(ret, Err):
        attr, was = last.selfassign
        req = W.w[op[1] % 2]
        now = selfassign_image(req, attr)
        told = selfassign_image(fresh_request(env, type(req)), attr) if attr != "charset" else now
        if not isinstance(was, Err) and (now != was or told != was):
            return ("self-assignment:%s-not-kept" % attr, "step %d %r: request.%s was %r; after assigning it to itself the wrapper "
                    "reads %r and a brand-new Request %r" % (step, op, attr, was, now, told))
    if isinstance(ret, Err) and t == "GET" and last is not None and last.get is not None and last.items is not None:
        # a refused write must not stay in the view either
        now = [[canon(a), canon(b)] for a, b in last.get.items()]
        told = catch(lambda: [[a, b] for a, b in fresh_request(env).GET.items()])
        if op[3][0] not in BULK_MD and now != last.items and now != told:
            return ("GET:refused-value-stays-in-view", "step %d %r raised %s, yet the view changed from %r to %r while "
                    "QUERY_STRING=%r" % (step, op, ret.name, last.items, now, env.get("QUERY_STRING")))
    if isinstance(ret, Err) or last is None:
        return None
    if t == "GET" and last.get is not None:
        want = [[a, b] for a, b in last.get.items()]
        got = catch(lambda: [[a, b] for a, b in fresh_request(env).GET.items()])
        if got != want:
            return ("write-lands:GET-not-written-back", "step %d %r: the view holds %r but a brand-new Request reads %r from "
                    "QUERY_STRING=%r" % (step, op, want, got, env.get("QUERY_STRING")))
    if t == "cookies" and last.cookie is not None and op[3][0] in ("set", "del"):
        from webob.cookies import parse_cookie
        name = op[3][1]
        jar = catch(lambda: dict(fresh_request(env).cookies.items()))
        if isinstance(jar, Err):
            return None
        if op[3][0] == "set" and name not in jar:
            return ("write-lands:cookie-not-written", "step %d %r: a brand-new Request does not see the cookie in HTTP_COOKIE=%r"
                    % (step, op, env.get("HTTP_COOKIE")))
        if op[3][0] == "del":
            names = catch(lambda: [k for k, _ in parse_cookie(last.cookie)])
            if not isinstance(names, Err) and names.count(name.encode("latin-1", "replace")) == 1 and name in jar:
                return ("write-lands:cookie-not-removed", "step %d %r: deleted without error, but HTTP_COOKIE=%r still carries it"
                        % (step, op, env.get("HTTP_COOKIE")))
    if t == "cc" and last.cc is not None:
        c, before = last.cc
        after = dict(c.properties)
        if after != before:
            # (what must be in the environ is the text the view serialises to; whether that text reads back as the same
            #  typed value is C12's round trip)
            got = env.get("HTTP_CACHE_CONTROL")
            if got != catch(str, c):
                from webob.cachecontrol import UpdateDict
                live = isinstance(c.properties, UpdateDict) and c.properties.updated is not None
                return (("cache_control:ior-on-properties-not-written-back" if op[3][0] == "prop_ior"
                         else "write-lands:cache_control-not-written") if live else "cache_control:assigned-object-not-live",
                        "step %d %r: the CacheControl view holds %r but a brand-new Request reads %r from "
                        "HTTP_CACHE_CONTROL=%r" % (step, op, sorted(after.items(), key=str), got, env.get("HTTP_CACHE_CONTROL")))
    return None


def check_write(W, step, op, before, ret):
    """Every write through the Request lands under the standard key, and nowhere else."""
    env = W.env
    after = env_snapshot(env)
    allowed = allowed_keys(op)
    if allowed is not None:
        changed = {k for k in set(before) | set(after) if before.get(k) != after.get(k)}
        extra = changed - allowed
        if extra:
            return ("write-lands:other-key-changed", "step %d %r changed environ keys %r; only %r may change"
                    % (step, op, sorted(extra), sorted(allowed)))
    t = op[0]
    if isinstance(ret, Err):
        single = (t in ("setattr", "delattr") and op[2] not in ("cookies", "headers")) \
            or (t == "hdr" and op[3][0] in ("set", "del", "pop", "setdefault", "pop_nodefault", "setdefault_none")) \
            or (t == "GET" and op[3][0] not in BULK_MD + ("set",)) or (t == "cookies" and op[3][0] in ("set", "del", "pop_nodefault"))
        # (GET[k] = v is delete-then-append in MultiDict.__setitem__: a refused value has already removed the old ones)
        if single:
            changed = {k for k in set(before) | set(after) if before.get(k) != after.get(k)}
            if changed:
                return ("refused-write:environ-changed", "step %d %r raised %s but changed environ keys %r"
                        % (step, op, ret.name, sorted(changed)))
        return None
    if t == "construct":
        for n, spec in op[3]:
            v = decode_value(spec)
            if n in VERBATIM and isinstance(v, str) and env.get(ATTR_KEY[n]) != v:
                return ("write-lands:constructor-keyword-not-stored", "step %d %r: environ[%r] = %r"
                        % (step, op, ATTR_KEY[n], env.get(ATTR_KEY[n])))
    if t == "setattr" and op[2] in ATTR_KEY:
        n, v, key = op[2], decode_value(op[3]), ATTR_KEY[op[2]]
        typed_ok = isinstance(v, str) or not isinstance(v, (bytes, bytearray, bool, int, float, list)) \
            or (type(v) is int and n in ("content_length", "max_forwards", "server_port", "date", "if_modified_since",
                                         "if_unmodified_since", "if_range")) \
            or (type(v) is float and n in ("date", "if_modified_since", "if_unmodified_since")) \
            or (type(v) is list and n in ("accept", "accept_charset", "accept_encoding", "accept_language", "range",
                                          "authorization"))
        if type(v) is object or n in VERBATIM and not isinstance(v, str):
            typed_ok = False
        if is_empty_typed(n, op[3]):
            # converter.fset: serialize(v) is None -> the underlying setter removes the key
            if key in env:
                return ("write-lands:empty-value-not-removed", "step %d %r: the value has no header text, yet %s holds %r"
                        % (step, op, key, env[key]))
        elif isinstance(v, str) and v == "" and n in EMPTY_TEXT_STORED:
            if env.get(key) != "":
                return ("write-lands:empty-text-not-stored", "step %d %r: environ[%r] = %r" % (step, op, key, env.get(key)))
        elif v is None and n not in ("scheme", "http_version", "server_name", "server_port", "path_info", "upath_info",
                                   "cache_control", "body_file_raw", "is_body_readable",
                                   "cookies", "host", "urlvars", "urlargs"):
            if key in env:
                return ("write-lands:none-not-removed" + (":etag-attribute" if n in ("if_match", "if_none_match") else ""),
                        "step %d %r: %s still holds %r" % (step, op, key, env[key]))
        elif isinstance(v, str) and n in VERBATIM:
            if env.get(key) != v:
                return ("write-lands:not-stored", "step %d %r: environ[%r] = %r" % (step, op, key, env.get(key)))
        elif isinstance(v, int) and not isinstance(v, bool) and n in ("content_length", "max_forwards", "server_port"):
            if env.get(key) != str(v):
                return ("write-lands:not-stored", "step %d %r: environ[%r] = %r" % (step, op, key, env.get(key)))
        elif v is not None and typed_ok and n not in ("cookies", "is_body_seekable", "is_body_readable", "body_file_raw"):
            # (typed setters may serialise an empty value to "header absent")
            if key in env and not isinstance(env[key], str):
                return ("write-lands:not-stored", "step %d %r: environ[%r] = %r is not header text"
                        % (step, op, key, env.get(key)))
    if t == "delattr" and op[2] in ATTR_KEY and op[2] not in ("body_file_raw",):
        key = ATTR_KEY[op[2]]
        if key in env and op[2] not in ("body", "text", "json", "json_body", "body_file"):
            return ("write-lands:del-not-removed", "step %d %r: %s still holds %r" % (step, op, key, env[key]))
    if t == "hdr" and op[3][0] in ("clear", "assign", "assign_pairs", "assign_headers"):
        want = set() if op[3][0] == "clear" else {header_key(a) for a, _ in op[3][1]}
        if op[3][0] == "assign_headers":     # (the other request's environ is built with every name under HTTP_*)
            want = {k for k in ("HTTP_" + a.upper().replace("-", "_") for a, _ in op[3][1]) if len(k) > 5}
        want.discard("HTTP_")      # (the empty header name: stored under "HTTP_", which stands for no header)
        got = set(header_like_keys(env))
        if got != want:
            return ("write-lands:headers-left-after-replacing", "step %d %r: the environ still/only carries header keys %r, the new "
                    "mapping stands for %r" % (step, op, sorted(got), sorted(want)))
    if t == "hdr":
        m = op[3]
        m = [m[0]] + [decode_value(x) for x in m[1:]]
        if m[0] == "set" and isinstance(m[2], (str, int, float, bytes, type(None))) and env.get(header_key(m[1])) != m[2]:
            return ("write-lands:header-not-stored", "step %d %r: environ[%r] = %r" % (step, op, header_key(m[1]),
                                                                                      env.get(header_key(m[1]))))
        if m[0] in ("del", "pop") and header_key(m[1]) in env:
            return ("write-lands:header-not-removed", "step %d %r: environ[%r] still present" % (step, op, header_key(m[1])))
        if m[0] == "update":
            for a, b in dict(m[1]).items():
                if env.get(header_key(a)) != b and not any(header_key(x) == header_key(a) and x != a for x, _ in m[1]):
                    return ("write-lands:header-not-stored", "step %d %r: environ[%r] = %r" % (step, op, header_key(a),
                                                                                              env.get(header_key(a))))
    return None


# how webob's request setters, views and methods refuse an argument (anything else escaping from a write is a crash)
REFUSALS = {"KeyError", "IndexError", "TypeError", "ValueError", "AttributeError", "UnicodeEncodeError", "UnicodeDecodeError",
            "LookupError", "DeprecationWarning", "AssertionError", "DisconnectionError", "OverflowError"}


def run_history(envspec, ops, getters=None, lazy_seed=None):
    """Execute a history on the real implementation, checking the statement after every step.
    Returns None or (key, message)."""
    import random
    from webob import Request
    # an unrelated Request object uses its charset first: nothing of it may show through any other Request
    Request({"CONTENT_TYPE": "text/plain; charset=x-c01-other"}).charset
    W = World(envspec)
    getters = getters or ALL_GETTERS
    final_only = lazy_seed == "final"      # nothing is read between the steps: caches are primed by the operations only
    rng = random.Random(lazy_seed) if lazy_seed is not None and not final_only else None
    bad = None if final_only else compare_all(W, -1, "initial", getters, rng)
    if bad:
        return bad
    for i, op in enumerate(ops):
        before = env_snapshot(W.env)
        others = [(sd, text_part(sd.env)) for sd in W.sides]
        origin = W.sides[W.cur]
        last = LastView()
        ret = apply_op(W, op, last)
        for sd, was in others:
            if sd is origin and op[0] != "fork":
                continue          # the environ this operation writes to
            now = text_part(sd.env)
            changed = {k for k in set(was) | set(now) if was.get(k) != now.get(k)}
            if op[0] == "fork" and sd is origin:
                changed -= BODY_KEYS        # copy() makes the original's body seekable first (documented)
            if changed:
                k = sorted(changed)[0]
                return ("copy:cache_control-bound-to-other-environ" if k == "HTTP_CACHE_CONTROL" else "copy:other-environ-changed:" + k,
                        "step %d %r changed %r in ANOTHER environ (the one it was copied from / a copy of it): %r -> %r"
                        % (i, op, sorted(changed), was.get(k), now.get(k)))
        if isinstance(ret, Err) and ret.name not in REFUSALS:
            return ("refusal:unexpected-exception", "step %d %r raised %s (refusals seen from webob's setters and views: %s)"
                    % (i, op, ret.name, ", ".join(sorted(REFUSALS))))
        bad = check_write(W, i, op, before, ret) or check_view_write(W, i, op, ret, last)
        if bad:
            return bad
        if final_only and i < len(ops) - 1:
            continue
        for j, sd in enumerate(W.sides):   # the enumeration laws of the headers mapping, long-lived and brand-new wrapper
            bad = headers_laws(sd.w[0], sd.env, i, op, "long-lived wrapper, environ #%d" % j) \
                or headers_laws(fresh_request(sd.env, type(sd.w[0])), sd.env, i, op, "brand-new Request, environ #%d" % j)
            if bad:
                return bad
        keep = W.cur
        for j in range(len(W.sides)):      # coherence for the wrappers of every environ
            W.cur = j
            if rng is not None and i < len(ops) - 1:
                # lazy mode: only a few getters are read between steps, so caches are primed in varying combinations
                sub = rng.sample(getters, min(len(getters), 4))
                bad = compare_all(W, i, op, sub, rng)
            else:
                bad = compare_all(W, i, op, getters, rng)
            if bad:
                W.cur = keep
                return (bad[0], bad[1] + (" [environ #%d of %d]" % (j, len(W.sides)) if len(W.sides) > 1 else ""))
        W.cur = keep
    return None


# --------------------------------------------------------------------------- generators
QS_POOL = ["", "a=1", "a=1&b=2", "a=1&a=2&b=x+y", "b=%C3%A9&a=", "a", "=", "a=1;b=2", "x=%ff", "a=%zz", "&&a=1&", "a=1&b=2&c=3"]
COOKIE_POOL = ["", "a=1", "a=1; b=2", "sid=abc; a=\"q v\"; b=2", "a=1; a=2", "bad cookie; a=3", "b=2;a=1", "a=%41; Path=/",
               "a=caf\xc3\xa9"]
CC_POOL = ["", "max-age=5", "no-cache", "max-age=5, no-cache", "no-cache, max-age=5", "max-stale", "max-stale=7, no-store",
           "only-if-cached", "max-age=abc", "MAX-AGE=5", "max-age=\"5\"", "private, max-age=0", "no-cache=\"x, y\"", ", ,",
           "min-fresh=3"]
CT_POOL = ["", "text/plain", "text/html; charset=utf-8", "text/html; charset=latin-1", "application/x-www-form-urlencoded",
           "application/x-www-form-urlencoded; charset=UTF8", "multipart/form-data; boundary=xx", "application/json",
           "text/plain; charset=\"iso-8859-1\"; x=1", ";charset=ascii", "text/plain;"]
HOST_POOL = ["example.com", "example.com:8080", "example.com:80", "[::1]", "[::1]:443", "", "a:b:c", "h\xf4te.example"]
ACCEPT_POOL = ["", "*/*", "text/html, application/json;q=0.5", "text/html;q=abc", "text/*;q=0", "a/b;q=0.5;ext=1", ", ,"]
ACCEPT_CHARSET_POOL = ["", "utf-8", "iso-8859-1;q=0.5, *;q=0.1", "bad charset"]
ACCEPT_ENC_POOL = ["", "gzip", "gzip;q=0, identity", "*;q=0", "gzip;q=2"]
ACCEPT_LANG_POOL = ["", "en", "en-US, fr;q=0.5", "*", "en_US"]
ETAG_POOL = ["", "*", "\"a\"", "\"a\", \"b\"", "W/\"a\"", "a", "\"a\",\"b\"", "\"a", "W/\"a\", \"b\""]
DATE_POOL = ["", "Sun, 06 Nov 1994 08:49:37 GMT", "Sunday, 06-Nov-94 08:49:37 GMT", "garbage", "Sun, 06 Nov 1994",
             "Thu, 01 Jan 1970 00:00:00 GMT"]
IF_RANGE_POOL = ["", "\"a\"", "W/\"a\"", "Sun, 06 Nov 1994 08:49:37 GMT", "garbage"]
RANGE_POOL = ["", "bytes=0-4", "bytes=5-", "bytes=-3", "bytes=0-0,2-3", "items=1-2", "bytes=9-1", "bytes=abc"]
INT_POOL = ["", "0", "5", "10", "007", " 5 ", "abc", "-1", "5.0", "99999999999999999999"]
AUTH_POOL = ["", "Basic QWxhZGRpbjpvcGVu", "Digest username=\"u\", realm=\"r\"", "Bearer tok", "Basic", "Digest x"]
TEXT_POOL = ["", "x", "Mozilla/5.0 (X11)", "caf\xe9", "a, b", " sp ", "XMLHttpRequest", "1.2.3.4, 5.6.7.8", "1.2.3.4"]
PATH_POOL = ["", "/", "/a", "/a/b", "//a//b/", "/caf\xc3\xa9", "/a b", "/%41", "a", "/\xff"]
METHOD_POOL = ["GET", "POST", "PUT", "HEAD", "get", ""]
SCHEME_POOL = ["http", "https", "ws", ""]
PORT_POOL = ["80", "443", "8080", "", "abc"]
PROTO_POOL = ["HTTP/1.0", "HTTP/1.1", ""]
ENC_POOL = ["UTF-8", "latin-1", "utf-8", "ascii", "cp1251"]
BODY_POOL = [b"", b"a=1&b=2", b"hello", b"{\"k\": [1, 2]}", b"caf\xc3\xa9", b"\xff\xfe", b"a=%C3%A9&a=2",
             b"--xx\r\nContent-Disposition: form-data; name=\"f\"\r\n\r\nv\r\n--xx--", b"x" * 70]

# the underlying keys of the getters, with the values a raw edit may store
ENV_KEYS = {
    "QUERY_STRING": QS_POOL, "HTTP_COOKIE": COOKIE_POOL, "HTTP_CACHE_CONTROL": CC_POOL, "CONTENT_TYPE": CT_POOL,
    "CONTENT_LENGTH": INT_POOL, "HTTP_HOST": HOST_POOL, "HTTP_ACCEPT": ACCEPT_POOL, "HTTP_ACCEPT_CHARSET": ACCEPT_CHARSET_POOL,
    "HTTP_ACCEPT_ENCODING": ACCEPT_ENC_POOL, "HTTP_ACCEPT_LANGUAGE": ACCEPT_LANG_POOL, "HTTP_IF_MATCH": ETAG_POOL,
    "HTTP_IF_NONE_MATCH": ETAG_POOL, "HTTP_DATE": DATE_POOL, "HTTP_IF_MODIFIED_SINCE": DATE_POOL,
    "HTTP_IF_UNMODIFIED_SINCE": DATE_POOL, "HTTP_IF_RANGE": IF_RANGE_POOL, "HTTP_RANGE": RANGE_POOL,
    "HTTP_MAX_FORWARDS": INT_POOL, "HTTP_AUTHORIZATION": AUTH_POOL, "HTTP_PRAGMA": TEXT_POOL, "HTTP_REFERER": TEXT_POOL,
    "HTTP_USER_AGENT": TEXT_POOL, "HTTP_X_FORWARDED_FOR": TEXT_POOL, "HTTP_X_REQUESTED_WITH": TEXT_POOL,
    "HTTP_X_FOO": TEXT_POOL, "HTTP_CONTENT_TYPE": CT_POOL, "HTTP_CONTENT_LENGTH": INT_POOL,
    "PATH_INFO": PATH_POOL, "SCRIPT_NAME": PATH_POOL, "REQUEST_METHOD": METHOD_POOL, "SERVER_NAME": HOST_POOL,
    "SERVER_PORT": PORT_POOL, "SERVER_PROTOCOL": PROTO_POOL, "wsgi.url_scheme": SCHEME_POOL, "REMOTE_ADDR": TEXT_POOL,
    "REMOTE_USER": TEXT_POOL, "REMOTE_HOST": TEXT_POOL, "webob.url_encoding": ENC_POOL,
}
REQUIRED_KEYS = {"PATH_INFO", "SERVER_NAME", "SERVER_PORT", "SERVER_PROTOCOL", "wsgi.url_scheme", "REQUEST_METHOD",
                 "SCRIPT_NAME"}

HEADER_NAMES = ["Cookie", "cookie", "COOKIE", "Cache-Control", "cache-control", "Content-Type", "content-type",
                "CONTENT-TYPE", "Content-Length", "Host", "host", "X-Foo", "x-foo", "X-FOO", "x_foo", "Accept", "accept",
                "If-None-Match", "if-none-match", "Range", "User-Agent", "Content_Type", "If-Modified-Since",
                "X-Requested-With", "X-Forwarded-For", "Authorization", "Accept-Language", "Content_Length",
                "content_length", "CONTENT_TYPE", "content_type"]
HEADER_POOL = {"COOKIE": COOKIE_POOL, "CACHE-CONTROL": CC_POOL, "CONTENT-TYPE": CT_POOL, "CONTENT_TYPE": CT_POOL,
               "CONTENT-LENGTH": INT_POOL, "HOST": HOST_POOL, "ACCEPT": ACCEPT_POOL, "IF-NONE-MATCH": ETAG_POOL,
               "RANGE": RANGE_POOL, "IF-MODIFIED-SINCE": DATE_POOL, "AUTHORIZATION": AUTH_POOL,
               "ACCEPT-LANGUAGE": ACCEPT_LANG_POOL}

# request attributes and the values handed to their setters
DT = [{"dt": [1994, 11, 6, 8, 49, 37]}, {"dt": [2030, 1, 1, 0, 0, 0]}, {"dt": [1970, 1, 1, 0, 0, 0]}]
ATTR_VALUES = {
    "method": METHOD_POOL[:5], "scheme": SCHEME_POOL[:3], "http_version": PROTO_POOL[:2], "query_string": QS_POOL + [None],
    "server_name": HOST_POOL[:3], "server_port": [80, 443, 8080, "81"], "script_name": PATH_POOL[:6] + ["/€", None],
    "path_info": PATH_POOL[:6] + ["/€"], "uscript_name": ["/s"], "upath_info": ["/p/q"],
    "remote_user": TEXT_POOL[:3] + [None], "remote_host": TEXT_POOL[:2] + [None], "remote_addr": ["1.2.3.4", None],
    "url_encoding": ENC_POOL[:4] + [None], "content_length": [0, 3, 5, 100, None, "7"],
    "content_type": CT_POOL + [None], "host": HOST_POOL[:5],
    "user_agent": TEXT_POOL[:4] + [None], "referer": TEXT_POOL[:3] + [None], "referrer": ["http://r/"], "pragma": ["no-cache", None],
    "accept": ACCEPT_POOL + [None, ["text/html", ["a/b", 0.5, ""]], {"dict": [["a/b", 0.5]]}],
    "accept_charset": ACCEPT_CHARSET_POOL + [None], "accept_encoding": ACCEPT_ENC_POOL + [None],
    "accept_language": ACCEPT_LANG_POOL + [None, ["en", "fr"]],
    "authorization": AUTH_POOL + [None, {"tuple": ["Digest", {"dict": [["realm", "r"]]}]}, {"tuple": ["Basic", "xyz"]}],
    "if_match": ETAG_POOL + [None], "if_none_match": ETAG_POOL + [None],
    "date": DT + [None, "garbage", 784111777], "if_modified_since": DT + [None, DATE_POOL[1]], "if_unmodified_since": DT + [None],
    "if_range": IF_RANGE_POOL + DT + [None], "max_forwards": [0, 5, None, "3"],
    "range": RANGE_POOL + [None, {"tuple": [0, 5]}, {"tuple": [3, None]}],
    "cache_control": CC_POOL + [None, {"dict": [["max-age", 7]]}, {"dict": [["no-cache", None], ["max-stale", 3]]},
                                {"cc": [["max-age", 9]]}, {"cc": []}],
    "cookies": [{"dict": []}, {"dict": [["a", "1"]]}, {"dict": [["a", "x y"], ["b", "caf\xe9"]]}, {"dict": [["bad name", "1"]]}],
    "charset": ["utf-8", "UTF8", "latin-1"],
    "is_body_seekable": [{"true": 1}, False, None], "is_body_readable": [{"true": 1}, False],
    "urlvars": [{"dict": [["id", "7"]]}, {"dict": []}], "urlargs": [{"tuple": ["x", "y"]}, {"tuple": []}],
    "body": [{"bytes": b.hex()} for b in BODY_POOL] + [None],
    "text": ["", "hello", "caf\xe9", "€ uro"], "json": [{"dict": [["k", [1, 2]]]}, [1, "x"], "s", None],
    "json_body": [{"dict": [["z", "\xe9"]]}],
    "body_file": [{"stream": b.hex()} for b in BODY_POOL[:6]] + [{"bytesio": b.hex()} for b in BODY_POOL[:6]],
    "body_file_raw": [{"stream": BODY_POOL[2].hex()}, {"bytesio": BODY_POOL[1].hex()}],
}
# "empty but not None": values whose serializer (descriptors.serialize_range / serialize_if_range) answers None, which
# converter.fset hands on to the environ_getter setter = the header key is REMOVED (found by running the unchanged code:
# every other typed setter stores "" for "", i.e. the header stays present with empty text)
EMPTY_TYPED = {
    "range": ["", {"tuple": []}, [], {"obj": "noetag"}],
    "if_range": ["", {"obj": "noetag"}, {"obj": "ifrange_empty"}, {"obj": "etag_empty"}],
}
NONEMPTY_WIRE = {"range": ["bytes=0-4", "bytes=5-", "items=1-2", "bytes=abc"],
                 "if_range": ["\"a\"", "W/\"a\"", "Sun, 06 Nov 1994 08:49:37 GMT", "garbage"]}
# typed attributes whose setter stores "" as "" (header present, empty text)
EMPTY_TEXT_STORED = {"authorization", "if_match", "if_none_match", "accept", "accept_charset", "accept_encoding",
                     "accept_language", "cache_control", "max_forwards", "content_length"}
for _n, _l in EMPTY_TYPED.items():
    ATTR_VALUES[_n] = ATTR_VALUES[_n] + [v for v in _l if v not in ATTR_VALUES[_n]]


def is_empty_typed(n, spec):
    return n in EMPTY_TYPED and spec in EMPTY_TYPED[n]


DELETABLE = ["method", "content_length", "remote_user", "remote_host", "remote_addr", "query_string", "script_name",
             "uscript_name", "content_type", "host", "body", "body_file", "text", "json", "json_body", "accept",
             "accept_charset", "accept_encoding", "accept_language", "authorization", "cache_control", "if_match",
             "if_none_match", "date", "if_modified_since", "if_unmodified_since", "if_range", "max_forwards", "pragma", "range",
             "referer", "referrer", "user_agent", "url_encoding", "urlvars", "urlargs", "is_body_seekable"]

GET_KEYS = ["a", "b", "c", "\xe9", "k v", ""]
GET_VALS = ["1", "2", "", "x y", "€", "a&b=c", "%41", "caf\xe9"]
COOKIE_NAMES = ["a", "b", "sid", "bad name", "\xe9", "c"]
COOKIE_VALS = ["1", "x y", "", "caf\xe9", "a;b", "\"q\"", "€", "v,w"]
CC_ATTRS = {"max_age": [0, 5, 60, None, -1, {"true": 1}], "no_cache": [{"true": 1}, None, "*", "field"],
            "no_store": [{"true": 1}, False], "max_stale": [{"true": 1}, 3, None, "*"], "min_fresh": [4, None],
            "only_if_cached": [{"true": 1}, False], "no_transform": [{"true": 1}, False],
            "public": [{"true": 1}], "s_maxage": [3], "private": [{"true": 1}]}


def rand_md(rng):
    t = rng.choice(["set", "set", "add", "add", "del", "pop", "popitem", "setdefault", "update", "extend", "clear"])
    k, v = rng.choice(GET_KEYS), rng.choice(GET_VALS)
    if t in ("set", "add", "setdefault"):
        return [t, k, v]
    if t == "del":
        return [t, k]
    if t == "pop":
        r = rng.random()
        # without default / default that may equal the stored value ('' and 1-character values included) / other default
        return [t, k] if r < 0.35 else ([t, k, v] if r < 0.8 else [t, k, "dflt"])
    if t in ("update", "extend"):
        return [t, [[rng.choice(GET_KEYS), rng.choice(GET_VALS)] for _ in range(rng.randrange(3))]]
    return [t]


GET_INITS = ["", "a=1", "a=1&flag=&b=22", "flag=", "a=1&a=2&b=x"]


def get_mutators():
    """Every GetDict mutator with its optional arguments, in shapes that do and do not change the dict."""
    return [
        ["set", "a", "1"], ["set", "a", "9"], ["set", "z", ""],
        ["add", "a", "1"], ["add", "flag", ""],
        ["del", "a"], ["del", "z"],
        ["pop", "a"], ["pop", "z"],
        ["pop", "a", "1"], ["pop", "flag", ""], ["pop", "b", "22"],      # default is the stored value
        ["pop", "a", "x"], ["pop", "b", ""],                              # present, another default
        ["pop", "z", ""], ["pop", "z", "d"],                              # missing key, default returned
        ["popitem"],
        ["setdefault", "a", "1"], ["setdefault", "a", "7"], ["setdefault", "flag", ""],    # present
        ["setdefault", "z", "1"], ["setdefault", "z", ""],                                   # absent
        ["update", []], ["update", [["a", "1"]]], ["update", [["z", ""], ["a", "3"]]],
        ["extend", []], ["extend", [["a", "1"]]],
        ["clear"],
    ]


def get_matrix(inits=None):
    """(envspec, ops) for every mutator x initial query string x handle kind (fresh / held and current / held and
    stale); the old text is put back afterwards by a raw edit, so a cache key that was not refreshed shows."""
    out = []
    for qs in inits or GET_INITS:
        spec = {"kind": "blank", "path": "/p?" + qs if qs else "/p", "set": []}
        for m in get_mutators():
            out.append((spec, [["GET", 0, "fresh", m], ["env_set", "QUERY_STRING", qs]]))
            out.append((spec, [["hold", 1, "GET"], ["GET", 0, 0, m], ["env_set", "QUERY_STRING", qs]]))
            out.append((spec, [["hold", 0, "GET"], ["env_set", "QUERY_STRING", "q=0"], ["read", 1, "GET"], ["GET", 1, 0, m],
                               ["env_set", "QUERY_STRING", "q=0"]]))
    return out


def get_mutator_coverage(jobs):
    """For each mutator kind: was it run in a state where it changes the dict, and in one where it does not?"""
    from webob.multidict import GetDict
    from webob.util import parse_qsl_text
    cov = {}
    for spec, ops in jobs:
        qs = spec["path"].split("?", 1)[1] if "?" in spec["path"] else ""
        for op in ops:
            if op[0] == "GET":
                d = GetDict(list(parse_qsl_text(qs)), {})
                before = list(d.items())
                md_apply(d, op[3])
                c = cov.setdefault(op[3][0], {"changes": 0, "leaves": 0})
                c["changes" if list(d.items()) != before else "leaves"] += 1
    return cov


def rand_cc(rng):
    r = rng.random()
    if r < 0.65:
        a = rng.choice(sorted(CC_ATTRS))
        return ["set", a, rng.choice(CC_ATTRS[a])]
    if r < 0.85:
        return ["del", rng.choice(sorted(CC_ATTRS))]
    t = rng.choice(["prop_set", "prop_del", "prop_clear", "prop_update", "prop_pop", "prop_setdefault", "prop_ior", "prop_ior",
                    "prop_popitem"])
    k = rng.choice(["max-age", "no-cache", "x-ext", "no-store"])
    v = rng.choice([None, 5, 9, "tok"])
    if t in ("prop_set", "prop_setdefault"):
        return [t, k, v]
    if t in ("prop_del", "prop_pop"):
        return [t, k]
    if t in ("prop_update", "prop_ior"):
        return [t, [[k, v]]]
    return [t]


def rand_how(rng):
    return "fresh" if rng.random() < 0.55 else rng.randrange(3)


def rand_header_value(rng, name):
    pool = HEADER_POOL.get(name.upper(), TEXT_POOL)
    return rng.choice(pool)


def rand_op(rng, focus=None):
    """One operation; `focus` biases towards a family (None = everything)."""
    fam = focus or rng.choice(["attr", "attr", "attr", "del", "env", "env", "env", "hdr", "hdr", "GET", "GET", "cookies",
                               "cookies", "cc", "cc", "hold", "body", "call", "read", "misc", "knob", "shape", "shape", "fork", "selfassign"])
    if fam == "knob":
        return rand_knob_op(rng)
    if fam == "shape":
        return rand_shape_op(rng)
    if fam == "outside":
        return rand_outside_op(rng) if rng.random() < 0.6 else rand_op(rng, None)
    if fam == "selfassign":
        a = rng.choice(sorted(SELF_ASSIGNABLE))
        return ["selfassign", rng.randrange(2), a, rng.choice(SELF_ASSIGNABLE[a])]
    if fam == "fork":
        if rng.random() < 0.55:
            return ["fork", rng.randrange(2), rng.choice(["copy", "copy_get", "dict", "envcopy"])]
        return ["side", rng.randrange(3)]
    w = rng.randrange(2)
    if fam == "attr":
        if rng.random() < 0.2:      # the "empty but not None" class of typed write (rand_history puts the header there first)
            n = rng.choice(sorted(EMPTY_TYPED))
            return ["setattr", w, n, rng.choice(EMPTY_TYPED[n])]
        n = rng.choice(sorted(ATTR_VALUES))
        return ["setattr", w, n, rng.choice(ATTR_VALUES[n])]
    if fam == "body":
        n = rng.choice(["body", "body", "text", "json", "body_file", "body_file", "content_length", "content_type", "method"])
        return ["setattr", w, n, rng.choice(ATTR_VALUES[n])]
    if fam == "del":
        return ["delattr", w, rng.choice(DELETABLE)]
    if fam == "env":
        k = rng.choice(sorted(ENV_KEYS))
        if rng.random() < (0.08 if k in REQUIRED_KEYS else 0.25):
            return ["env_del", k]
        return ["env_set", k, rng.choice(ENV_KEYS[k])]
    if fam == "hdr":
        n = rng.choice(HEADER_NAMES)
        t = rng.choice(["set", "set", "set", "del", "pop", "update", "setdefault", "clear", "assign"])
        if t == "set" or t == "setdefault":
            m = [t, n, rand_header_value(rng, n)]
        elif t in ("del", "pop"):
            m = [t, n]
        elif t in ("update", "assign"):
            names = [rng.choice(HEADER_NAMES) for _ in range(rng.randrange(3))]
            m = [t, [[x, rand_header_value(rng, x)] for x in names]]
            if t == "assign" and rng.random() < 0.7:
                m[1] += [["Host", "example.com"]]
        else:
            m = [t]
        return ["hdr", w, rand_how(rng), m]
    if fam == "GET":
        return ["GET", w, rand_how(rng), rand_md(rng)]
    if fam == "cookies":
        t = rng.choice(["set", "set", "set", "del", "del", "clear", "pop", "update", "assign"])
        n, v = rng.choice(COOKIE_NAMES), rng.choice(COOKIE_VALS)
        if t == "set":
            m = [t, n, v]
        elif t in ("del", "pop"):
            m = [t, n]
        elif t in ("update", "assign"):
            m = [t, [[rng.choice(COOKIE_NAMES[:3]), rng.choice(COOKIE_VALS)] for _ in range(rng.randrange(3))]]
        else:
            m = [t]
        return ["cookies", w, rand_how(rng), m]
    if fam == "cc":
        if rng.random() < 0.25:
            return ["setattr", w, "cache_control", rng.choice(ATTR_VALUES["cache_control"])]
        return ["cc", w, rand_how(rng), rand_cc(rng)]
    if fam == "hold":
        return ["hold", w, rng.choice(["GET", "cc", "cookies", "headers"])]
    if fam == "call":
        c = rng.choice([["path_info_pop", []], ["path_info_pop", ["[a-z]+$"]], ["remove_conditional_headers", []],
                        ["make_body_seekable", []], ["copy_body", []], ["remove_conditional_headers", [False, True, False, True]]])
        return ["call", w] + c
    if fam == "read":
        return ["read", w, rng.choice(ALL_GETTERS)]
    if fam == "misc":
        if rng.random() < 0.5:
            return ["adhoc", w, rng.choice(["foo", "bar"]), rng.choice([1, "x", None])]
        return ["urlvars", w, rng.choice(["id", "name"]), rng.choice(["1", "z"])]
    raise ValueError(fam)


HEADER_NAMES_WIDE = ["X-\xdcn\xef", "stra\xdfe", "STRASSE", "\ufb01-x", "FI-X", "\u0131d", "ID", "K-\u212a", "k-k", "", "x y", "X:Y"]
FLAG_KEYS = {"wsgi.input_terminated": [True, False], "webob.is_body_readable": [True, False],
             "webob.is_body_seekable": [True, False], "paste.urlvars": [{"dict": [["id", "1"]]}],
             "wsgiorg.routing_args": [{"tuple": [{"tuple": ["x"]}, {"dict": [["k", "v"]]}]}, {"tuple": [{"tuple": []}, {"dict": []}]}],
             "webob.adhoc_attrs": [{"dict": [["foo", "from-environ"]]}]}
CLASS_NAMES = ["Request", "Request", "BaseRequest", "SmallTemp"]
BLANK_KW = [
    {"base_url": "https://host.example:8443/app"}, {"base_url": "http://h.example"},
    {"headers": {"dict": [["X-Foo", "1"], ["content-TYPE", "text/html; charset=latin-1"], ["Cookie", "a=1; b=2"]]}},
    {"POST": {"dict": [["f", "v"], ["g", "caf\xe9"]]}}, {"POST": {"bytes": b"a=1&b=2".hex()}}, {"POST": "x=1"},
    {"environ": {"dict": [["HTTP_CACHE_CONTROL", "no-cache"], ["REMOTE_USER", "u"]]}},
    {"method": "PUT", "content_type": "application/json", "body": {"bytes": b"{}".hex()}},
    {"POST": {"dict": [["up", {"tuple": ["n.txt", {"bytes": b"data".hex()}]}]]}},
]
CONSTRUCT_KW = [[["method", "PUT"]], [["content_type", "text/html; charset=latin-1"]], [["query_string", "k=v"]],
                [["host", "c.example:81"]], [["body", {"bytes": b"from-kw".hex()}], ["method", "POST"]],
                [["charset", "utf-8"]], [["charset", "latin-1"]], [["accept", "text/html"]], [["cookies", {"dict": [["k", "1"]]}]],
                [["headers", {"dict": [["X-Foo", "kw"], ["Host", "k.example"]]}]], [["user_agent", "kw/1"], ["pragma", None]],
                [["nonsense", 1]], [["POST", {"dict": []}]], [["cache_control", "no-store"]], []]


def rand_knob_op(rng):
    """Configuration after construction: environ flags, the wrapper's class knobs, a new wrapper built with keywords,
    the same methods called with keyword arguments."""
    w = rng.randrange(2)
    r = rng.random()
    if r < 0.35:
        k = rng.choice(sorted(FLAG_KEYS))
        return ["env_del", k] if rng.random() < 0.25 else ["env_set", k, rng.choice(FLAG_KEYS[k])]
    if r < 0.5:
        return ["knob", w, "request_body_tempfile_limit", rng.choice([0, 4, 10240])]
    if r < 0.8:
        return ["construct", w, rng.choice(CLASS_NAMES), rng.choice(CONSTRUCT_KW)]
    return ["callkw", w] + rng.choice([
        ["remove_conditional_headers", [], [["remove_encoding", False]]],
        ["remove_conditional_headers", [], [["remove_range", False], ["remove_match", {"true": 1}]]],
        ["path_info_pop", [], [["pattern", "[a-z]+"]]], ["relative_url", ["x"], [["to_application", {"true": 1}]]],
        ["as_bytes", [], [["skip_body", 3]]], ["decode", [], [["charset", "latin-1"], ["errors", "replace"]]],
        ["encset", ["HTTP_X_ENC", "caf\xe9"], [["encattr", "url_encoding"]]],
    ])


def rand_shape_op(rng):
    """The alternative argument types and optional arguments of the view and setter APIs."""
    w = rng.randrange(2)
    fam = rng.choice(["hdr", "hdr", "GET", "GET", "GET", "cookies", "attr", "attr"])
    pairs = lambda ks, vs: [[rng.choice(ks), rng.choice(vs)] for _ in range(rng.randrange(3))]  # noqa
    if fam == "hdr":
        names = HEADER_NAMES + HEADER_NAMES_WIDE
        t = rng.choice(["update_pairs", "update_md", "pop_nodefault", "setdefault_none", "assign_pairs", "assign_headers",
                        "set", "update"])
        n = rng.choice(names)
        if t in ("pop_nodefault", "setdefault_none"):
            m = [t, n]
        elif t == "set":
            m = [t, n, rng.choice(TEXT_POOL + ["\u20ac", "a\r\nb"])]
        else:
            m = [t, [[x, rand_header_value(rng, x)] for x in [rng.choice(names) for _ in range(rng.randrange(4))]]]
        return ["hdr", w, rand_how(rng), m]
    if fam == "GET":
        t = rng.choice(["update_dict", "update_md", "update_kw", "extend_dict", "extend_md", "extend_iter", "extend_kw", "pop"])
        if t == "pop":
            return ["GET", w, rand_how(rng), ["pop", rng.choice(GET_KEYS), None]]
        ks = ["a", "b", "c"] if t.endswith("_kw") else GET_KEYS
        return ["GET", w, rand_how(rng), [t, pairs(ks, GET_VALS)]]
    if fam == "cookies":
        t = rng.choice(["pop_nodefault", "setdefault", "update_pairs", "assign_pairs"])
        n, v = rng.choice(COOKIE_NAMES), rng.choice(COOKIE_VALS)
        m = [t, n] if t == "pop_nodefault" else ([t, n, v] if t == "setdefault" else [t, pairs(COOKIE_NAMES[:3], COOKIE_VALS)])
        return ["cookies", w, rand_how(rng), m]
    n, v = rng.choice([
        ("range", {"obj": "range"}), ("accept", {"obj": "accept"}), ("accept", {"obj": "accept_none"}),
        ("accept", {"obj": "accept_invalid"}), ("accept_language", {"obj": "accept_language"}),
        ("accept_language", {"dict": [["en", 0.5], ["fr", 1.0]]}), ("if_match", {"obj": "etag"}), ("if_none_match", {"obj": "etag"}),
        ("if_range", {"obj": "ifrange"}), ("date", {"obj": "timedelta"}), ("date", {"obj": "date"}), ("date", {"obj": "timetuple"}),
        ("if_modified_since", {"obj": "float"}), ("cache_control", {"obj": "cc_response"}), ("cache_control", {"bytes": b"no-cache".hex()}),
        ("authorization", ["Digest", {"dict": [["realm", "r"], ["nonce", "n"]]}]), ("authorization", {"tuple": ["Basic", "QQ=="]}),
        ("body", {"obj": "bytearray"}), ("body_file", {"bytes": b"abc".hex()}), ("text", {"bytes": b"abc".hex()}),
        ("json", {"obj": "object"}), ("content_length", "12"), ("content_type", {"obj": "accept"}), ("urlargs", ["x"]),
        ("cookies", {"pairs": [["a", "1"], ["A", "2"]]}), ("headers", {"pairs": [["X-A", "1"], ["x-a", "2"]]}),
        ("headers", {"multidict": [["X-A", "1"], ["X-A", "2"]]}),
    ])
    return ["setattr", w, n, v]


OUT_VALS = [None, 5, 2.5, {"true": 1}, {"bytes": b"ab".hex()}, "\udc80", ["x"], {"obj": "object"}, "\u0100\u20ac"]
OUT_NAMES = [None, 5, "", "\xfc", "a=b", "\udc80", {"bytes": b"a".hex()}]


def rand_outside_op(rng):
    """Outside the model's value domain (text, native strings, code points < 256): non-text values and names through the
    views and setters, non-string values under the CGI keys, cache-control values of other types."""
    w = rng.randrange(2)
    fam = rng.choice(["GET", "GET", "GET", "cookies", "hdr", "attr", "attr", "env", "cc"])
    v = rng.choice(OUT_VALS)
    if fam == "GET":
        t = rng.choice(["set", "add", "setdefault", "setdefault_none", "update", "extend", "pop", "set_key", "del_key"])
        k = rng.choice(["a", "b", "z"])
        if t in ("set", "add", "setdefault", "pop"):
            return ["GET", w, rand_how(rng), [t, k, v]]
        if t == "setdefault_none":
            return ["GET", w, rand_how(rng), [t, k]]
        if t == "set_key":
            return ["GET", w, rand_how(rng), ["add", decode_name(rng.choice(OUT_NAMES)), "x"]]
        if t == "del_key":
            return ["GET", w, rand_how(rng), ["del", decode_name(rng.choice(OUT_NAMES))]]
        return ["GET", w, rand_how(rng), [t, [["a", "1"], [k, v]]]]
    if fam == "cookies":
        if rng.random() < 0.5:
            return ["cookies", w, "fresh", ["set", "a", v]]
        return ["cookies", w, "fresh", [rng.choice(["set", "del"]), decode_name(rng.choice(OUT_NAMES)), "1"][:3]]
    if fam == "hdr":
        if rng.random() < 0.5:
            return ["hdr", w, "fresh", ["set", rng.choice(["X-Foo", "Cookie", "Cache-Control", "Content-Type", "Host"]), v]]
        return ["hdr", w, "fresh", [rng.choice(["set", "pop", "setdefault"]), rng.choice(HEADER_NAMES_WIDE + [5, None]), "v"]]
    if fam == "attr":
        n = rng.choice(["method", "content_length", "content_type", "host", "query_string", "accept", "if_match", "date", "range",
                        "cache_control", "cookies", "body", "text", "json", "body_file", "path_info", "script_name",
                        "url_encoding", "urlvars", "charset", "authorization", "max_forwards", "server_port", "user_agent",
                        "if_range", "accept_language", "scheme"])
        return ["setattr", w, n, v]
    if fam == "env":
        k = rng.choice(["QUERY_STRING", "HTTP_COOKIE", "HTTP_CACHE_CONTROL", "CONTENT_TYPE", "CONTENT_LENGTH", "HTTP_HOST",
                        "PATH_INFO", "HTTP_ACCEPT", "HTTP_IF_MATCH", "REQUEST_METHOD"])
        return ["env_set", k, rng.choice([None, 5, {"bytes": b"a=1".hex()}, "a=\u20ac\u0100"])]
    a = rng.choice(["max_age", "no_cache", "max_stale", "min_fresh", "no_store"])
    return ["cc", w, rand_how(rng), ["set", a, rng.choice(["5", "", "a b", "\"", 1.5, {"bytes": b"x".hex()}, {"obj": "object"}, "\u20ac"])]]


def decode_name(spec):
    return spec


def rand_envspec(rng):
    kind = rng.choice(["blank", "blank", "server"])
    spec = {"kind": kind, "path": rng.choice(["/", "/a/b?a=1&b=2", "/p?a=1", "/caf%C3%A9?x=%C3%A9", "/s/t/u"]), "set": []}
    spec["classes"] = [rng.choice(CLASS_NAMES), rng.choice(CLASS_NAMES)]
    if kind == "blank" and rng.random() < 0.35:
        spec["blank_kw"] = rng.choice(BLANK_KW)
    if rng.random() < 0.2:      # what a server makes of the header spellings Content_Type / Content_Length
        for k in rng.choice([["HTTP_CONTENT_TYPE"], ["HTTP_CONTENT_LENGTH"], ["HTTP_CONTENT_TYPE", "HTTP_CONTENT_LENGTH"]]):
            spec["set"].append([k, rng.choice(ENV_KEYS[k])])
    if kind == "server":
        spec["method"] = rng.choice(["GET", "POST"])
    for _ in range(rng.randrange(4)):
        k = rng.choice(sorted(ENV_KEYS))
        if k not in REQUIRED_KEYS:
            spec["set"].append([k, rng.choice(ENV_KEYS[k])])
    if rng.random() < 0.5:
        b = rng.choice(BODY_POOL)
        spec["body"] = b.hex()
        spec["seekable"] = rng.random() < 0.5
        spec["clen"] = rng.random() < 0.8
        if rng.random() < 0.6:
            spec["set"].append(["REQUEST_METHOD", "POST"])
            spec["set"].append(["CONTENT_TYPE", rng.choice(CT_POOL[3:7])])
    return spec


def rand_history(rng, maxlen, focus=None):
    n = rng.randrange(1, maxlen + 1)
    foci = None
    if focus == "mixed-cache":
        foci = ["GET", "cookies", "cc", "env", "hdr", "hold", "attr"]
    if focus == "copies":
        foci = ["fork", "fork", "GET", "cookies", "cc", "cc", "hdr", "attr", "env", "hold", "read", "body"]
    if focus == "config":
        foci = ["knob", "knob", "body", "attr", "read", "GET", "shape", "call", "selfassign"]
    ops = []
    for _ in range(n):
        f = rng.choice(foci) if foci else focus
        o = rand_op(rng, f)
        if foci and o[0] in ("env_set", "env_del") and rng.random() < 0.8:
            k = rng.choice(["QUERY_STRING", "HTTP_COOKIE", "HTTP_CACHE_CONTROL", "CONTENT_TYPE"])
            o = ["env_set", k, rng.choice(ENV_KEYS[k])] if rng.random() < 0.85 else ["env_del", k]
        if o[0] == "setattr" and is_empty_typed(o[2], o[3]) and rng.random() < 0.8:
            # an empty typed write is decided on a request that already carries the header
            if rng.random() < 0.5:
                ops.append(["env_set", ATTR_KEY[o[2]], rng.choice(NONEMPTY_WIRE[o[2]])])
            else:
                ops.append(["setattr", rng.randrange(2), o[2], rng.choice(NONEMPTY_WIRE[o[2]][:2])])
        ops.append(o)
    return rand_envspec(rng), ops


def shrink(envspec, ops, key, **kw):
    """Greedy delete-one-op / simplify-environ shrinking that keeps the same failure key."""
    def fails(sp, os_):
        try:
            b = run_history(sp, os_, **kw)
        except Exception:  # noqa
            return False
        return b is not None and b[0] == key
    changed = True
    while changed:
        changed = False
        for i in range(len(ops) - 1, -1, -1):
            cand = ops[:i] + ops[i + 1:]
            if fails(envspec, cand):
                ops = cand
                changed = True
        for i in range(len(envspec.get("set", [])) - 1, -1, -1):
            sp = dict(envspec, set=envspec["set"][:i] + envspec["set"][i + 1:])
            if fails(sp, ops):
                envspec = sp
                changed = True
        for simple in ({"kind": "blank", "path": "/", "set": envspec.get("set", [])},):
            if envspec != simple and fails(simple, ops):
                envspec = simple
                changed = True
    return envspec, ops


# =========================================================================== correspondence with the Coq model
IMPORTS = ["Webob.Lib.PyStr", "Webob.Lib.C01_Str", "Webob.Model.MultiDict", "Webob.Model.C01_EnvView",
           "Webob.Model.C01_Tables", "Webob.Model.C01_Converter"]

# attribute -> (descriptor kind, environ key, default)
ATTR_KIND = {
    "method": ("getter", "REQUEST_METHOD", "GET"), "query_string": ("getter", "QUERY_STRING", ""),
    "remote_user": ("getter", "REMOTE_USER", None), "remote_addr": ("getter", "REMOTE_ADDR", None),
    "remote_host": ("getter", "REMOTE_HOST", None), "pragma": ("getter", "HTTP_PRAGMA", None),
    "referer": ("getter", "HTTP_REFERER", None), "referrer": ("getter", "HTTP_REFERER", None),
    "user_agent": ("getter", "HTTP_USER_AGENT", None), "url_encoding": ("getter", "webob.url_encoding", "UTF-8"),
    "content_length": ("int", "CONTENT_LENGTH", None), "max_forwards": ("int", "HTTP_MAX_FORWARDS", None),
    "scheme": ("req", "wsgi.url_scheme", None), "http_version": ("req", "SERVER_PROTOCOL", None),
    "server_name": ("req", "SERVER_NAME", None),
    "if_match": ("etag", "HTTP_IF_MATCH", None), "if_none_match": ("etag", "HTTP_IF_NONE_MATCH", None),
    "accept": ("accept", "HTTP_ACCEPT", None), "accept_charset": ("accept", "HTTP_ACCEPT_CHARSET", None),
    "accept_encoding": ("accept", "HTTP_ACCEPT_ENCODING", None), "accept_language": ("accept", "HTTP_ACCEPT_LANGUAGE", None),
    "content_type": ("ctype", "CONTENT_TYPE", None), "host": ("host", "HTTP_HOST", None),
    "cache_control": ("cc", "HTTP_CACHE_CONTROL", None),
    # descriptors.converter over environ_getter, modelled on the values whose serializer answers None (None itself and the
    # "empty but not None" class EMPTY_TYPED) and on plain non-empty If-Range text: Model/C01_Converter.v conv_fset
    "range": ("conv", "HTTP_RANGE", None), "if_range": ("conv", "HTTP_IF_RANGE", None),
}


_PLAIN = set(range(32, 127)) - {ord('"')}


def cstr(s):  # noqa: F811  (compact variant of fw.cstr: plain ASCII text as a Coq string literal, 9 nodes per char not 18)
    cps = fw.codepoints(s)
    if cps and all(c in _PLAIN for c in cps):
        return '(lit "%s")' % "".join(chr(c) for c in cps)
    return fw.cstr(s)


def cval(v):  # noqa: F811
    if isinstance(v, (str, bytes, bytearray)):
        return "(VStr %s)" % cstr(v)
    if isinstance(v, Err):
        return "(VErr %s)" % cstr(v.name)
    if isinstance(v, (list, tuple)):
        return "(VList [%s])" % "; ".join(cval(x) for x in v)
    return fw.cval(v)


def cpairs(l):
    return clist(cpair(cstr(k), cstr(v)) for k, v in l)


def cmdop(m):
    t = m[0]
    if t == "set":
        return "(MultiDict.OSet %s %s)" % (cstr(m[1]), cstr(m[2]))
    if t == "add":
        return "(MultiDict.OAdd %s %s)" % (cstr(m[1]), cstr(m[2]))
    if t == "del":
        return "(MultiDict.ODel %s)" % cstr(m[1])
    if t == "pop":
        return "(MultiDict.OPop %s %s)" % (cstr(m[1]), "None" if len(m) < 3 else "(Some (Some %s))" % cstr(m[2]))
    if t == "popitem":
        return "MultiDict.OPopItem"
    if t == "setdefault":
        return "(MultiDict.OSetDefault %s (Some %s))" % (cstr(m[1]), cstr(m[2]))
    if t == "update":
        return "(MultiDict.OUpdate %s)" % cpairs(m[1])
    if t == "extend":
        return "(MultiDict.OExtend %s)" % cpairs(m[1])
    if t == "clear":
        return "MultiDict.OClear"
    if t in ("update_dict", "update_kw", "extend_kw"):
        # (multidict.py:257-258: the keyword arguments of extend() go through update(), i.e. they REPLACE existing keys)
        return "(MultiDict.OUpdate %s)" % cpairs(list({a: b for a, b in m[1]}.items()))
    if t == "update_md":
        return "(MultiDict.OUpdateMD %s)" % cpairs(m[1])
    if t == "extend_dict":
        return "(MultiDict.OExtend %s)" % cpairs(list({a: b for a, b in m[1]}.items()))
    if t in ("extend_md", "extend_iter"):
        return "(MultiDict.OExtend %s)" % cpairs(m[1])
    raise ValueError(m)


def cprops(items):
    return clist(cpair(cstr(k), cval(v)) for k, v in items)


def props_items(d):
    return sorted((k, v) for k, v in d.items())


def cgetter(g):
    k = g[0]
    if k == "key":
        return "(GKey %s %s)" % (cstr(g[1]), copt(None if g[2] is None else cstr(g[2])))
    if k == "req":
        return "(GKeyReq %s)" % cstr(g[1])
    if k == "hdr":
        return "(GHdr %s)" % cstr(g[1])
    return {"hdrkeys": "GHdrKeys", "ctype": "GContentType", "host": "GHost", "GET": "GGET", "cookies": "GCookies",
            "cc": "GCC", "charset": "GCharset"}[k]


def model_read(req, g):
    """The real read that a model getter stands for; canonical value comparable with the model's val."""
    k = g[0]
    if k == "key" or k == "req":
        return canon(catch(getattr, req, g[3]))
    if k == "hdr":
        return canon(catch(req.headers.get, g[1]))
    if k == "hdrkeys":
        return canon(catch(lambda: list(req.headers.keys())))[1:]
    if k == "ctype":
        return canon(catch(lambda: req.content_type))
    if k == "host":
        return canon(catch(lambda: req.host))
    if k == "GET":
        r = catch(lambda: [[a, b] for a, b in req.GET.items()])
        return r
    if k == "cookies":
        return catch(lambda: [[a, b] for a, b in req.cookies.items()])
    if k == "cc":
        return catch(lambda: [[a, b] for a, b in props_items(req.cache_control.properties)])
    if k == "charset":
        return catch(lambda: req.charset)
    raise ValueError(g)


MODEL_GETTERS = (
    [["GET"], ["cookies"], ["cc"], ["hdrkeys"], ["ctype"], ["host"], ["charset"]]
    + [["key", key, d, a] for a, (kind, key, d) in sorted(ATTR_KIND.items()) if kind == "getter"]
    + [["req", key, None, a] for a, (kind, key, d) in sorted(ATTR_KIND.items()) if kind == "req"]
    + [["hdr", n] for n in ["Cookie", "cache-control", "CONTENT-TYPE", "content_type", "Host", "If-Match", "x-foo",
                            "Content-Length", "Accept"]]
)


def opq_tag(v):
    if isinstance(v, bool):
        return "bool:%s" % v
    if isinstance(v, tuple):
        return "tuple:%r" % (v,)
    return type(v).__name__


def env_observe(env, caches_only=False):
    out = []
    for k, v in env.items():
        if caches_only and k not in CACHE_KEYS and k != "HTTP_CACHE_CONTROL":
            continue
        if isinstance(v, str) or v is None:
            o = v
        elif k == "webob._parsed_query_vars":
            o = [[[a, b] for a, b in v[0].items()], v[1]]
        elif k == "webob._parsed_cookies":
            o = [[[a, b] for a, b in v[0].items()], v[1]]
        elif k == "webob._cache_control":
            o = [v[0], None if v[1] is None else [[a, b] for a, b in props_items(v[1].properties)]]
        else:
            continue        # opaque to the model and never touched by a modelled operation
        out.append([k, o])
    return out


def env_diff(e0, e1):
    """Mirror of the model's env_diff on two env_observe() images."""
    d0 = {k: v for k, v in e0}
    d1 = {k for k, _ in e1}
    out = [[k, v] for k, v in e1 if k not in d0 or d0[k] != v]
    out += [[k] for k, _ in e0 if k not in d1]
    return out


def cenv(env):
    lits = []
    for k, v in env.items():
        if isinstance(v, str):
            lits.append(cpair(cstr(k), "(EStr %s)" % cstr(v)))
        elif v is None:
            lits.append(cpair(cstr(k), "ENone"))
        else:
            lits.append(cpair(cstr(k), "(EOpq %s)" % cstr(opq_tag(v))))
    return clist(lits)


class Recorder:
    """Tables of the real string-level functions on the strings that occur in one history."""

    def __init__(self):
        self.parse_qs, self.urlencode, self.parse_cookie, self.valid, self.edit = {}, {}, {}, {}, {}
        self.parse_cc, self.ser_cc, self.cc_apply, self.charset = {}, {}, {}, {}

    def strings(self, env):
        from webob import Request
        from webob.util import parse_qsl_text
        from webob.cookies import RequestCookies
        from webob.cachecontrol import CacheControl
        for key, fn in (("QUERY_STRING", None), ("HTTP_COOKIE", None), ("HTTP_CACHE_CONTROL", None), ("CONTENT_TYPE", None)):
            v = env.get(key, "")
            if not isinstance(v, str):
                continue
            if key == "QUERY_STRING" and v not in self.parse_qs:
                self.parse_qs[v] = catch(lambda: [(a, b) for a, b in parse_qsl_text(v)])
            if key == "HTTP_COOKIE" and v not in self.parse_cookie:
                self.parse_cookie[v] = list(RequestCookies({"HTTP_COOKIE": v}).items())
            if key == "HTTP_CACHE_CONTROL" and v not in self.parse_cc:
                p = props_items(CacheControl.parse(v, type="request").properties)
                self.parse_cc[v] = p
                self.props(p)
            if key == "CONTENT_TYPE" and v not in self.charset:
                self.charset[v] = expected_charset(v)
        c = env.get("webob._cache_control")
        if c and c[1] is not None:
            self.props(props_items(c[1].properties))

    def props(self, p):
        from webob.cachecontrol import serialize_cache_control
        key = repr(p)
        if key not in self.ser_cc:
            self.ser_cc[key] = (p, serialize_cache_control(dict(p)))

    def after_get(self, d):
        from webob.multidict import GetDict
        its = list(d.items())
        key = repr(its)
        if key not in self.urlencode:
            scratch = {}
            GetDict(its, scratch).on_change()
            self.urlencode[key] = (its, scratch["QUERY_STRING"])

    def before_cookie(self, env, m):
        from webob.cookies import RequestCookies
        if m[0] not in ("set", "del"):
            return
        name = m[1]
        if name not in self.valid:
            self.valid[name] = not isinstance(catch(RequestCookies({})._valid_cookie_name, name), Err)
        if not self.valid[name]:
            return
        header = env.get("HTTP_COOKIE") or ""
        value = m[2] if m[0] == "set" else None
        key = (header, name, value)
        if key not in self.edit:
            scratch = {"HTTP_COOKIE": header}
            found = RequestCookies(scratch)._mutate_header(name, value)
            self.edit[key] = (scratch["HTTP_COOKIE"], bool(found))

    def before_cc(self, cc, m):
        """What the mutation does to a CacheControl whose properties are an armed UpdateDict: (written?, new props, raised)."""
        from webob.cachecontrol import CacheControl, UpdateDict
        before = props_items(cc.properties)
        self.props(before)
        key = (json.dumps(m), repr(before))
        if key in self.cc_apply:
            return
        fired = []
        ud = UpdateDict()
        dict.update(ud, dict(before))
        obj = CacheControl(ud, type="request")
        ud.updated = lambda *a: fired.append(1)
        ud.updated_args = (obj,)
        ret = canon(cc_apply(obj, m))
        after = props_items(obj.properties)
        self.props(after)
        self.cc_apply[key] = (json.dumps(m), before, after if fired else None, ret)

    def coq(self):
        def o_items(v):
            return "(inr %s)" % cstr(v.name) if isinstance(v, Err) else "(inl %s)" % cpairs(v)
        t = []
        t.append(clist(cpair(cstr(k), o_items(v)) for k, v in self.parse_qs.items()))
        t.append(clist(cpair(cpairs(i), cstr(q)) for i, q in self.urlencode.values()))
        t.append(clist(cpair(cstr(k), cpairs(v)) for k, v in self.parse_cookie.items()))
        t.append(clist(cpair(cstr(k), fw.cbool(v)) for k, v in self.valid.items()))
        t.append(clist(cpair("(%s, %s, %s)" % (cstr(h), cstr(n), copt(None if v is None else cstr(v))),
                             cpair(cstr(nh), fw.cbool(f))) for (h, n, v), (nh, f) in self.edit.items()))
        t.append(clist(cpair(cstr(k), cprops(v)) for k, v in self.parse_cc.items()))
        t.append(clist(cpair(cprops(p), cstr(s)) for p, s in self.ser_cc.values()))
        t.append(clist(cpair(cpair(cstr(lbl), cprops(b)), cpair("None" if a is None else "(Some %s)" % cprops(a), cval(r)))
                       for lbl, b, a, r in self.cc_apply.values()))
        t.append(clist(cpair(cstr(k), cstr(v)) for k, v in self.charset.items()))
        return "(mkTables %s)" % " ".join(t)


def model_op(W, op):
    """Coq term for a harness operation (None when the operation is outside the model)."""
    t = op[0]
    if t == "env_set":
        return "(OEnvSet _ _ %s %s)" % (cstr(op[1]), cstr(op[2])) if isinstance(op[2], str) else None
    if t == "env_del":
        return "(OEnvDel _ _ %s)" % cstr(op[1])
    if t in ("setattr", "delattr"):
        n = op[2]
        if n not in ATTR_KIND:
            return None
        kind, key, _ = ATTR_KIND[n]
        v = decode_value(op[3]) if t == "setattr" else None
        ov = None
        if kind == "conv":      # conv_fset k serialize (Some v) with serialize v = None  ==  OGetterSet k None
            if t == "delattr":
                return "(OGetterDel _ _ %s)" % cstr(key)
            if v is None:
                return "(conv_fset _ _ _ (fun _ : unit => None) %s None)" % cstr(key)
            if is_empty_typed(n, op[3]):      # serialize_range: `if not value: return None`; serialize_if_range: `str(value) or None`
                ser = "(ser_falsy_none (fun _ : unit => true) (fun _ => nil))" if n == "range" else "(ser_nonempty (fun _ : unit => nil))"
                return "(conv_fset _ _ _ %s %s (Some tt))" % (ser, cstr(key))
            if n == "if_range" and isinstance(v, str):
                return "(conv_fset _ _ _ (ser_nonempty (fun s : str => s)) %s (Some %s))" % (cstr(key), cstr(v))
            return None
        if t == "setattr":
            if kind == "int" and isinstance(v, int) and not isinstance(v, bool):
                v = str(v)
            if v is not None and not isinstance(v, str) and kind != "cc":
                return None
            ov = copt(None if v is None else cstr(v)) if kind != "cc" else None
        if kind in ("getter", "int"):
            return "(OGetterSet _ _ %s %s)" % (cstr(key), ov) if t == "setattr" else "(OGetterDel _ _ %s)" % cstr(key)
        if kind == "req":
            return "(OReqSet _ _ %s %s)" % (cstr(key), cstr(v)) if t == "setattr" and v is not None else None
        if kind == "etag":
            return "(OEtagSet _ _ %s %s)" % (cstr(key), ov) if t == "setattr" else "(OGetterDel _ _ %s)" % cstr(key)
        if kind == "accept":
            return "(OAcceptSet _ _ %s %s)" % (cstr(key), ov if t == "setattr" else "None")
        if kind == "ctype":
            return "(OContentTypeSet _ _ %s)" % (ov if t == "setattr" else "None")
        if kind == "host":
            if t == "delattr":
                return "(OHostDel _ _)"
            return "(OHostSet _ _ %s)" % cstr(v) if v is not None else None
        if kind == "cc":
            if t == "delattr":
                return "(OCCDel _ _)"
            if v is None or isinstance(v, str):
                return "(OCCAssign _ _ (AText _ %s))" % cstr(v or "")
            pr = v if isinstance(v, dict) else v.properties
            if isinstance(v, dict) and not v:
                return "(OCCAssign _ _ (AText _ %s))" % cstr("")
            return "(OCCAssign _ _ (AObj _ %s))" % cprops(props_items(pr))
        return None
    if t == "hdr":
        m = op[3]
        if m[0] == "set":
            return "(OHdrSet _ _ %s %s)" % (cstr(m[1]), cstr(m[2]))
        if m[0] == "del":
            return "(OHdrDel _ _ %s)" % cstr(m[1])
        if m[0] == "pop":
            return "(OHdrPop _ _ %s)" % cstr(m[1])
        if m[0] == "setdefault":
            return "(OHdrSetDefault _ _ %s %s)" % (cstr(m[1]), cstr(m[2]))
        if m[0] == "update":
            return "(OHdrUpdate _ _ %s)" % cpairs(list({a: b for a, b in m[1]}.items()))
        if m[0] == "update_pairs":
            return "(OHdrUpdate _ _ %s)" % cpairs(m[1])
        if m[0] == "pop_nodefault":      # MutableMapping.pop(key): the value, or KeyError
            present = header_key(m[1]) in W.env
            return "(%s _ _ %s)" % ("OHdrPop" if present else "OHdrDel", cstr(m[1]))
        return None
    if t == "hold":
        return {"GET": "(OHold _ _ HGet)", "cc": "(OHold _ _ HCC)"}.get(op[2])
    if t == "GET":
        h = "Fresh" if op[2] == "fresh" or not W.gets else "(Held %d)" % (op[2] % len(W.gets))
        return "(OGetMut _ _ %s %s)" % (h, cmdop(op[3]))
    if t == "cookies":
        m = op[3]
        if m[0] == "set":
            return "(OCookieSet _ _ %s %s)" % (cstr(m[1]), cstr(m[2]))
        if m[0] == "del":
            return "(OCookieDel _ _ %s)" % cstr(m[1])
        if m[0] == "clear":
            return "(OCookieClear _ _)"
        return None
    if t == "cc":
        h = "Fresh" if op[2] == "fresh" or not W.ccs else "(Held %d)" % (op[2] % len(W.ccs))
        return "(OCCMut _ _ %s %s)" % (h, cstr(json.dumps(op[3])))
    if t == "read":
        g = op[2]
        return "(ORead _ _ %d %s)" % (op[1] % 2, cgetter(g)) if isinstance(g, list) else None
    if t == "fork":       # the two pure copies of the environ (copy() / copy_get() also rewrite the body keys: oracle only)
        return "(OCopyEnv _ _)" if op[2] in ("dict", "envcopy") else None
    return None


def corr_case(envspec, ops, probes):
    """Run a history of modelled operations on the real implementation; returns (coq input, expected output, json)."""
    W = World(envspec, prime=False)
    rec = Recorder()
    env0 = cenv(W.env)
    rec.strings(W.env)
    e_prev = env_observe(W.env)
    cops, out = [], []
    for op in ops:
        co = model_op(W, op)
        assert co is not None, op
        cops.append(co)
        if op[0] == "setattr" and op[2] == "cache_control":
            v = decode_value(op[3])
            if isinstance(v, dict):
                rec.props(props_items(v))
            elif v is not None and not isinstance(v, str):
                rec.props(props_items(v.properties))
        if op[0] == "read":
            ret = None
            model_read(W.w[op[1] % 2], op[2])
        else:
            ret = apply_op(W, op, rec)
        if op[0] == "GET" and isinstance(ret, list) and ret and ret[0] in ("list", "tuple"):
            ret = ret[1:]
        rec.strings(W.env)
        e1 = env_observe(W.env)
        obs = []
        for w, g in probes:
            F = fresh_request(W.env)
            a = model_read(W.w[w], g)
            rec.strings(W.env)
            f = model_read(F, g)
            rec.strings(F.environ)
            obs.append([a, f])
        e2 = env_observe(W.env)
        out.append([ret, env_diff(e_prev, e1), obs, env_diff(e1, e2)])
        e_prev = e2
    out.append(e_prev)
    lit = "(%s, %s, %s, %s)" % (rec.coq(), env0, clist(cpair("%d%%nat" % w, cgetter(g)) for w, g in probes), clist(cops))
    # the expected output travels inside the input literal; Coq answers VBool (model output = expected)
    return cpair(lit, cval(out)), True, {"env": envspec, "ops": ops, "probes": probes}


MODEL_ATTRS_SET = sorted(ATTR_KIND)


def rand_model_op(rng):
    fam = rng.choice(["attr", "attr", "env", "env", "hdr", "hdr", "GET", "GET", "GET", "cookies", "cookies", "cc", "cc", "cc",
                      "hold", "read", "del"] + (["fork"] if rng.random() < 0.5 else []))
    w = rng.randrange(2)
    if fam == "fork":
        return ["fork", w, rng.choice(["dict", "envcopy"])]
    if fam == "attr":
        n = rng.choice(MODEL_ATTRS_SET)
        kind = ATTR_KIND[n][0]
        pool = [v for v in ATTR_VALUES[n] if v is None or isinstance(v, str) or (kind == "int" and isinstance(v, int))
                or (kind == "cc" and isinstance(v, dict))]
        if kind in ("req", "host"):
            pool = [v for v in pool if v is not None]
        if kind == "conv":
            pool = [None] + EMPTY_TYPED[n] * 2 + (NONEMPTY_WIRE[n][:2] if n == "if_range" else [])
        return ["setattr", w, n, rng.choice(pool)]
    if fam == "del":
        n = rng.choice([a for a in MODEL_ATTRS_SET if a in DELETABLE])
        return ["delattr", w, n]
    if fam == "env":
        k = rng.choice(["QUERY_STRING", "QUERY_STRING", "HTTP_COOKIE", "HTTP_COOKIE", "HTTP_CACHE_CONTROL", "HTTP_CACHE_CONTROL",
                        "CONTENT_TYPE", "HTTP_HOST", "HTTP_X_FOO", "HTTP_IF_MATCH", "SERVER_NAME", "HTTP_CONTENT_TYPE",
                        "CONTENT_LENGTH", "HTTP_ACCEPT", "REQUEST_METHOD", "HTTP_RANGE", "HTTP_IF_RANGE"])
        if rng.random() < 0.2:
            return ["env_del", k]
        pool = [v for v in ENV_KEYS[k] if k != "HTTP_COOKIE" or v != "a=caf\xc3\xa9" or True]
        return ["env_set", k, rng.choice(pool)]
    if fam == "hdr":
        n = rng.choice(HEADER_NAMES)
        t = rng.choice(["set", "set", "set", "del", "pop", "update", "setdefault", "update_pairs", "pop_nodefault"])
        if t in ("set", "setdefault"):
            m = [t, n, rand_header_value(rng, n)]
        elif t in ("del", "pop", "pop_nodefault"):
            m = [t, n]
        else:
            m = [t, [[x, rand_header_value(rng, x)] for x in [rng.choice(HEADER_NAMES) for _ in range(rng.randrange(3))]]]
        return ["hdr", w, rand_how(rng), m]
    if fam == "GET":
        if rng.random() < 0.25:
            t = rng.choice(["update_dict", "update_md", "update_kw", "extend_dict", "extend_md", "extend_iter", "extend_kw"])
            ks = ["a", "b", "c"] if t.endswith("_kw") else GET_KEYS
            return ["GET", w, rand_how(rng), [t, [[rng.choice(ks), rng.choice(GET_VALS)] for _ in range(rng.randrange(3))]]]
        return ["GET", w, rand_how(rng), rand_md(rng)]
    if fam == "cookies":
        t = rng.choice(["set", "set", "del", "clear"])
        n, v = rng.choice(COOKIE_NAMES), rng.choice(COOKIE_VALS)
        return ["cookies", w, "fresh", [t, n, v] if t == "set" else ([t, n] if t == "del" else [t])]
    if fam == "cc":
        m = rand_cc(rng)
        while m[0] == "prop_popitem":      # (pops the LAST inserted property: the model keeps properties sorted; oracle only)
            m = rand_cc(rng)
        return ["cc", w, rand_how(rng), m]
    if fam == "hold":
        return ["hold", w, rng.choice(["GET", "cc"])]
    if fam == "read":
        return ["read", w, rng.choice(MODEL_GETTERS)]
    raise ValueError(fam)


def rand_model_case(rng, maxlen):
    spec = {"kind": rng.choice(["blank", "blank", "server"]), "path": rng.choice(["/", "/a/b?a=1&b=2", "/p?a=1&a=2", "/x?q=%C3%A9"]),
            "set": []}
    for _ in range(rng.randrange(3)):
        k = rng.choice(["HTTP_COOKIE", "HTTP_CACHE_CONTROL", "CONTENT_TYPE", "HTTP_IF_MATCH", "HTTP_X_FOO", "HTTP_CONTENT_TYPE",
                        "HTTP_CONTENT_LENGTH", "CONTENT_LENGTH", "HTTP_RANGE", "HTTP_IF_RANGE"])
        spec["set"].append([k, rng.choice(ENV_KEYS[k])])
    # configurations: the wrapper classes, Request.blank's keywords
    spec["classes"] = [rng.choice(CLASS_NAMES), rng.choice(CLASS_NAMES)]
    if spec["kind"] == "blank" and rng.random() < 0.3:
        spec["blank_kw"] = rng.choice(BLANK_KW[:3] + BLANK_KW[6:7])
    ops = [rand_model_op(rng) for _ in range(rng.randrange(1, maxlen + 1))]
    probes = [[rng.randrange(2), g] for g in rng.sample(MODEL_GETTERS, rng.randrange(2, 7))]
    return spec, ops, probes


# =========================================================================== the check
FOCUS_GETTERS = ["GET", "GET.detail", "cookies", "cookies.detail", "cache_control", "cache_control.detail", "headers",
                 "query_string", "content_type", "charset", "params", "url", "host"]

# the two defects of the pinned tree (request.py:1115-1140), as histories; Props/C01.v refutes coherence of the
# pinned behaviour on the same two shapes
KNOWN_WITNESSES = [
    ({"kind": "blank", "path": "/", "set": [["HTTP_CACHE_CONTROL", "max-age=5"]]},
     [["hold", 0, "cc"], ["cc", 0, 0, ["set", "no_cache", {"true": 1}]], ["hdr", 0, "fresh", ["set", "Cache-Control", "max-age=5"]]]),
    ({"kind": "blank", "path": "/", "set": []},
     [["setattr", 0, "cache_control", {"dict": [["max-age", 5]]}], ["cc", 0, "fresh", ["set", "max_age", 10]]]),
    # multidict.py:297-304 before fixes/C01-3: a value that cannot be written to QUERY_STRING stays in the view
    ({"kind": "blank", "path": "/p?a=1", "set": []}, [["GET", 0, "fresh", ["add", "z", None]]]),
    # request.py:1122 before fixes/C01-4: the view fetched over a copied environ is the original's CacheControl object
    ({"kind": "blank", "path": "/?a=1", "set": [["HTTP_CACHE_CONTROL", "no-cache"]]},
     [["read", 0, "cache_control"], ["fork", 0, "copy"], ["cc", 0, "fresh", ["set", "max_age", 10]]]),
    # request.py:333 before fixes/C01-5: the headers are cleared before the (live) value is read
    ({"kind": "blank", "path": "/", "set": [["HTTP_X_A", "1"]]}, [["selfassign", 0, "headers", "view"]]),
    # etag.py:25 before fixes/C01-6: None is stored under HTTP_IF_MATCH
    ({"kind": "blank", "path": "/", "set": [["HTTP_IF_MATCH", "\"a\""]]}, [["setattr", 0, "if_match", None]]),
    # cachecontrol.py UpdateDict before fixes/C01-7: |= does not call back
    ({"kind": "blank", "path": "/", "set": [["HTTP_CACHE_CONTROL", "max-age=5"]]},
     [["cc", 0, "fresh", ["prop_ior", [["no-store", None]]]]]),
]


def selfassign_matrix():
    """req.attr = req.attr for every attribute with a setter, in every shape the value can be handed back."""
    spec = {"kind": "blank", "path": "/p/q?a=1", "set": [["HTTP_X_A", "1"], ["HTTP_COOKIE", "a=1; b=2"], ["HTTP_CACHE_CONTROL", "max-age=5"],
                                                          ["HTTP_IF_MATCH", "\"a\""], ["HTTP_ACCEPT", "text/html"], ["HTTP_RANGE", "bytes=0-4"],
                                                          ["CONTENT_TYPE", "text/plain; charset=utf-8"], ["REQUEST_METHOD", "POST"]],
            "body": b"hello".hex()}
    out = []
    for seek in (True, False):
        sp = dict(spec, seekable=seek)
        for a, shapes in sorted(SELF_ASSIGNABLE.items()):
            for sh in shapes:
                out.append((sp, [["selfassign", 0, a, sh], ["selfassign", 1, a, sh]]))
    return out


def headers_matrix(extra_keys=()):
    """Every combination of the two meta-variables and their HTTP_ look-alikes in the environ (blank and server style),
    then the operations that enumerate or replace the headers mapping."""
    keys = ["CONTENT_TYPE", "CONTENT_LENGTH", "HTTP_CONTENT_TYPE", "HTTP_CONTENT_LENGTH"]
    vals = {"CONTENT_TYPE": "text/plain", "CONTENT_LENGTH": "0", "HTTP_CONTENT_TYPE": "text/underscore", "HTTP_CONTENT_LENGTH": "9"}
    opss = [[], [["hdr", 0, "fresh", ["clear"]]], [["hdr", 1, "fresh", ["assign", [["X-New", "1"], ["Host", "n.example"]]]]],
            [["hdr", 0, "fresh", ["del", "Content_Type"]]], [["hdr", 0, "fresh", ["del", "Content-Type"]]],
            [["hdr", 1, "fresh", ["set", "content_length", "3"]], ["hdr", 0, "fresh", ["pop", "CONTENT-LENGTH"]]],
            [["hdr", 0, "fresh", ["update", [["Content_Type", "u/v"], ["Content-Type", "w/x"]]]]],
            [["hdr", 0, "fresh", ["assign_pairs", [["Content_Length", "1"], ["content-length", "2"]]]]]]
    out = []
    for kind in ("blank", "server"):
        for mask in range(16):
            st = [[k, vals[k]] for i, k in enumerate(keys) if mask >> i & 1] + [[k, "x"] for k in extra_keys]
            dl = [["env_del", k] for i, k in enumerate(keys[:2]) if not mask >> i & 1]
            for ops in opss:
                out.append(({"kind": kind, "path": "/", "set": st}, dl + ops))
    return out


def copy_matrix():
    """A copy of the environ made mid-history, by each of the four routes, with each cache primed or not, then a write of
    each kind through the copy, then through the original, then a read of both."""
    T = {"true": 1}
    primes = {"none": [], "GET": [["read", 0, "GET"]], "cookies": [["read", 0, "cookies"]], "cc": [["read", 1, "cache_control"]],
              "POST": [["read", 0, "POST"]], "all": [["hold", 0, "GET"], ["hold", 1, "cc"], ["read", 0, "cookies"], ["read", 0, "POST"]]}
    writes = [["cc", 0, "fresh", ["set", "max_age", 10]], ["GET", 0, "fresh", ["add", "n", "1"]], ["cookies", 0, "fresh", ["set", "n", "1"]],
              ["hdr", 0, "fresh", ["set", "X-Foo", "copy"]], ["setattr", 0, "cache_control", "no-store"],
              ["setattr", 0, "query_string", "q=9"], ["cc", 1, 0, ["set", "no_cache", T]], ["GET", 1, 0, ["set", "a", "7"]]]
    spec = {"kind": "blank", "path": "/p?a=1", "set": [["HTTP_COOKIE", "a=1"], ["HTTP_CACHE_CONTROL", "max-age=5"],
                                                        ["CONTENT_TYPE", "application/x-www-form-urlencoded"], ["REQUEST_METHOD", "POST"]],
            "body": b"f=1".hex(), "seekable": True}
    out = []
    for how in ("copy", "copy_get", "dict", "envcopy"):
        for pr in primes.values():
            for wr in writes:
                out.append((spec, pr + [["fork", 0, how], wr, ["side", 0], wr, ["side", 1], ["read", 0, "cache_control"]]))
    return out


def outside_matrix():
    """Every non-text value through every GET mutator that stores one, through fresh and held views; non-string values
    under the parsed CGI keys; non-text cookie and header values."""
    out = []
    spec = {"kind": "blank", "path": "/p?a=1&b=2", "set": [["HTTP_COOKIE", "a=1"], ["HTTP_CACHE_CONTROL", "max-age=5"]]}
    for v in OUT_VALS:
        for m in (["set", "a", v], ["set", "z", v], ["add", "a", v], ["setdefault", "z", v], ["setdefault", "a", v],
                  ["update", [["z", v]]], ["extend", [["z", v]]], ["pop", "a", v], ["pop", "z", v]):
            out.append((spec, [["GET", 0, "fresh", m], ["GET", 1, "fresh", ["add", "ok", "1"]]]))
            out.append((spec, [["hold", 0, "GET"], ["GET", 1, 0, m], ["env_set", "QUERY_STRING", "a=1&b=2"]]))
        out.append((spec, [["cookies", 0, "fresh", ["set", "a", v]], ["cookies", 1, "fresh", ["set", "b", "2"]]]))
        out.append((spec, [["hdr", 0, "fresh", ["set", "X-Foo", v]], ["hdr", 1, "fresh", ["set", "Cookie", v]]]))
        for k in ("QUERY_STRING", "HTTP_COOKIE", "HTTP_CACHE_CONTROL", "CONTENT_TYPE", "CONTENT_LENGTH"):
            if not isinstance(v, str):
                out.append((spec, [["env_set", k, v], ["GET", 0, "fresh", ["add", "n", "1"]], ["cookies", 0, "fresh", ["set", "n", "1"]],
                                   ["cc", 0, "fresh", ["set", "max_age", 1]]]))
    out.append((spec, [["GET", 0, "fresh", ["setdefault_none", "z"]]]))
    for n in OUT_NAMES:
        out.append((spec, [["GET", 0, "fresh", ["add", n, "x"]], ["cookies", 0, "fresh", ["set", n, "x"]],
                           ["hdr", 0, "fresh", ["set", n, "x"]]]))
    return out


def small_universe():
    T = {"true": 1}
    return [
        ["env_set", "QUERY_STRING", "a=1"], ["env_set", "QUERY_STRING", "b=2&a=3"], ["env_del", "QUERY_STRING"],
        ["env_set", "HTTP_COOKIE", "a=1"], ["env_set", "HTTP_COOKIE", "b=2; a=3"],
        ["env_set", "HTTP_CACHE_CONTROL", "max-age=5"], ["env_set", "HTTP_CACHE_CONTROL", "no-cache"],
        ["env_del", "HTTP_CACHE_CONTROL"],
        ["hdr", 0, "fresh", ["set", "cookie", "c=9"]], ["hdr", 1, "fresh", ["set", "Cache-Control", "max-age=5"]],
        ["hdr", 0, "fresh", ["pop", "COOKIE"]],
        ["GET", 0, "fresh", ["set", "a", "2"]], ["GET", 1, 0, ["add", "b", "3"]], ["GET", 0, 0, ["del", "a"]],
        ["cookies", 0, "fresh", ["set", "a", "7"]], ["cookies", 1, "fresh", ["del", "a"]], ["cookies", 0, "fresh", ["clear"]],
        ["cc", 0, "fresh", ["set", "max_age", 9]], ["cc", 1, 0, ["set", "no_cache", T]], ["cc", 0, 0, ["del", "max_age"]],
        ["setattr", 0, "cache_control", "no-store"], ["setattr", 1, "cache_control", {"cc": [["max-age", 9]]}],
        ["delattr", 0, "cache_control"],
        ["hold", 0, "GET"], ["hold", 1, "cc"],
        ["setattr", 0, "query_string", "a=1"], ["setattr", 1, "content_type", "text/html; charset=latin-1"],
        ["GET", 0, "fresh", ["pop", "a", "1"]], ["GET", 1, 0, ["pop", "b", "3"]], ["GET", 0, "fresh", ["pop", "z", ""]],
        ["GET", 1, "fresh", ["setdefault", "a", "1"]], ["GET", 0, 0, ["setdefault", "z", ""]], ["GET", 0, "fresh", ["popitem"]],
        ["GET", 1, 0, ["clear"]], ["GET", 0, "fresh", ["update", [["a", "1"]]]], ["GET", 1, "fresh", ["extend", []]],
        ["env_set", "HTTP_CONTENT_TYPE", "text/x"], ["hdr", 0, "fresh", ["set", "Content_Length", "7"]],
        ["hdr", 1, "fresh", ["clear"]], ["hdr", 0, "fresh", ["assign", [["Host", "h.example"], ["content_type", "a/b"]]]],
        # empty-but-not-None typed writes (the initial environ of the sweep carries Range and If-Range)
        ["setattr", 0, "if_range", ""], ["setattr", 1, "range", {"tuple": []}], ["setattr", 1, "if_range", {"obj": "ifrange_empty"}],
    ]


def _oracle_chunk(args):
    """Worker: run a list of (envspec, ops, lazy_seed, getters) histories; return failures."""
    out = []
    for envspec, ops, lazy, getters in args:
        try:
            bad = run_history(envspec, ops, getters=getters, lazy_seed=lazy)
        except Exception as e:  # noqa
            bad = ("harness-error", "oracle raised %s: %s" % (type(e).__name__, e))
        if bad:
            out.append((bad[0], bad[1], envspec, ops, lazy, getters))
    return out


def oracle_many(ctx, name, jobs, workers=8):
    """Run many histories (in worker processes), report failures (shrunk) through ctx.fail."""
    import concurrent.futures as cf
    import multiprocessing as mp
    chunks = [jobs[i:i + 50] for i in range(0, len(jobs), 50)]
    fails = []
    if len(jobs) < 200:
        for c in chunks:
            fails += _oracle_chunk(c)
    else:
        with cf.ProcessPoolExecutor(workers, mp_context=mp.get_context("fork")) as ex:
            for r in ex.map(_oracle_chunk, chunks):
                fails += r
    seen = {}
    for key, msg, envspec, ops, lazy, getters in fails:
        if key in seen and seen[key] >= 3:
            ctx.fail(key, msg, {"env": envspec, "ops": ops, "lazy": lazy, "getters": getters}, True, name)
            continue
        seen[key] = seen.get(key, 0) + 1
        if key != "harness-error":
            try:
                envspec, ops = shrink(envspec, ops, key, getters=getters, lazy_seed=lazy)
                msg = run_history(envspec, ops, getters=getters, lazy_seed=lazy)[1]
            except Exception:  # noqa
                pass
        ctx.fail(key, msg, {"env": envspec, "ops": ops, "lazy": lazy, "getters": getters}, True, name)
    ctx.oracle_count(name, len(jobs), len(jobs))
    return fails


def strlib_cases(rng, n):
    from webob.headers import _trans_key, _trans_name
    ins = [chr(c) for c in range(256)] + ["a" + chr(c) + "b" for c in range(256)] + ["HTTP_" + chr(c) + "x" for c in range(32, 256)]
    ins += HEADER_NAMES + sorted(ENV_KEYS) + ["HTTP_", "HTTP", "http_x", "CONTENT_TYPE", "CONTENT_LENGTH", "HTTP_CONTENT_TYPE",
                                              "HTTP_CONTENT_LENGTH", "content-length", "Content_Length", "", "HTTP_X_Y-Z",
                                              "HTTP_\xdf\xdf", "x-\xb5", "\xffy", "webob._parsed_cookies"]
    alpha = "abzAZ-_ 09\xe9\xc9\xdf\xb5\xff\xd7\xf7:"
    for _ in range(n):
        ins.append("".join(rng.choice(alpha) for _ in range(rng.randrange(1, 9))))
        ins.append("HTTP_" + "".join(rng.choice(alpha) for _ in range(rng.randrange(0, 7))))
    cases = []
    for s in ins:
        out = [s.upper(), s.title(), _trans_name(s), _trans_key(s)]
        cases.append((fw.cstr(s), out, {"strlib": s}))
    return cases


# ---------------------------------------------------------------- traceability: what is modelled rather than verified
# every implementation object that coq/Model/C01_EnvView.v mirrors by hand (its comments name the same objects)
MODELLED = [
    "webob.request:BaseRequest.__init__",                 # init: the wrapper keeps a reference to the environ
    "webob.descriptors:environ_getter",                   # GKey / GKeyReq, OGetterSet / OGetterDel / OReqSet
    "webob.descriptors:converter",                        # fset path only: serialize, then the wrapped setter (int attributes;
                                                          # Model/C01_Converter.v conv_fset for range / if_range: a serializer
                                                          # that answers None hands None on = the key is removed)
    "webob.descriptors:serialize_if_range",               # ser_nonempty: `str(value) or None`
    "webob.descriptors:serialize_range",                  # ser_falsy_none: the `if not value: return None` branch only
    "webob.etag:etag_property",                           # OEtagSet (None is stored), GKey on the raw value
    "webob.acceptparse:accept_property",                  # OAcceptSet (None = silent delete); same shape for the next three
    "webob.acceptparse:accept_charset_property",
    "webob.acceptparse:accept_encoding_property",
    "webob.acceptparse:accept_language_property",
    "webob.request:BaseRequest._content_type__get",       # GContentType
    "webob.request:BaseRequest._content_type__set",       # OContentTypeSet (also the deleter)
    "webob.request:BaseRequest._host__get",               # GHost
    "webob.request:BaseRequest._host__set",               # OHostSet
    "webob.request:BaseRequest._host__del",               # OHostDel
    "webob.headers:key2header",
    "webob.headers:header2key",
    "webob.headers:_trans_key",                           # trans_key (with Lib/C01_Str.py_title)
    "webob.headers:_trans_name",                          # trans_name (with Lib/C01_Str.py_upper)
    "webob.request:BaseRequest._headers__get",
    "webob.headers:EnvironHeaders.__init__",
    "webob.headers:EnvironHeaders.__getitem__",           # GHdr (through Mapping.get)
    "webob.headers:EnvironHeaders.__setitem__",           # OHdrSet
    "webob.headers:EnvironHeaders.__delitem__",           # OHdrDel
    "webob.headers:EnvironHeaders.keys",                  # GHdrKeys
    # (OHdrPop / OHdrSetDefault / OHdrUpdate and GHdr also mirror the stdlib mixins collections.abc.MutableMapping.pop /
    #  .setdefault / .update and Mapping.get over the three methods above; they are frozen stdlib code without source text
    #  and are not listed: CPython behaviour validated by the correspondence)
    "webob.request:BaseRequest.GET",                      # get_GET
    "webob.multidict:GetDict.__init__",
    "webob.multidict:GetDict.on_change",                  # on_change (url_encode itself is a Section variable)
    "webob.multidict:GetDict.__setitem__",                # get_mut: MultiDict mutator, then on_change unless it raised
    "webob.multidict:GetDict.add",
    "webob.multidict:GetDict.__delitem__",
    "webob.multidict:GetDict.clear",
    "webob.multidict:GetDict.setdefault",
    "webob.multidict:GetDict.pop",
    "webob.multidict:GetDict.popitem",
    "webob.multidict:GetDict.update",
    "webob.multidict:GetDict.extend",
    # the MultiDict mutators underneath are C08's model (Model/MultiDict.v step_i), reused here
    "webob.multidict:MultiDict.__setitem__",
    "webob.multidict:MultiDict.add",
    "webob.multidict:MultiDict.__delitem__",
    "webob.multidict:MultiDict.clear",
    "webob.multidict:MultiDict.setdefault",
    "webob.multidict:MultiDict.pop",
    "webob.multidict:MultiDict.popitem",
    "webob.multidict:MultiDict.extend",
    "webob.multidict:MultiDict.items",
    "webob.request:BaseRequest.cookies",                  # a new RequestCookies per read: no state of its own
    "webob.cookies:RequestCookies.__init__",
    "webob.cookies:RequestCookies._cache",                # get_cookies
    "webob.cookies:RequestCookies._mutate_header",        # mutate_header: the environ logic (the regex edit is a Section variable)
    "webob.cookies:RequestCookies.__setitem__",           # OCookieSet
    "webob.cookies:RequestCookies.__delitem__",           # OCookieDel
    "webob.cookies:RequestCookies.clear",                 # OCookieClear
    "webob.cookies:RequestCookies.items",                 # GCookies
    "webob.request:BaseRequest._cache_control__get",      # get_CC
    "webob.request:BaseRequest._cache_control__set",      # cc_assign
    "webob.request:BaseRequest._cache_control__del",      # OCCDel
    "webob.request:BaseRequest._update_cache_control",    # cc_callback
    "webob.cachecontrol:CacheControl.parse",              # only: the callback is armed before the dict is filled (get_CC)
    "webob.cachecontrol:UpdateDict._updated",             # cc_mut: a written dict calls back with the bound object
    "webob.request:BaseRequest.charset",                  # get_charset: fixed at first use
    # OCopyEnv: Request(dict(environ)) -- a shallow copy of the environ, new wrappers (BaseRequest.__init__ above); the
    # guards that keep the copy from reusing the original's view objects are in BaseRequest.GET / _cache_control__get
]
# string-level functions that are Section variables of the model; the correspondence instantiates them by tables
# recorded from these objects on the strings of each history (they are C09 / C12 / C15's to model)
TABULATED = [
    "webob.util:parse_qsl_text", "urllib.parse:urlencode", "webob.cookies:parse_cookie", "webob.cookies:_rx_cookie",
    "webob.cookies:_value_quote", "webob.cookies:RequestCookies._valid_cookie_name", "webob.cachecontrol:token_re",
    "webob.cachecontrol:serialize_cache_control", "webob.cachecontrol:value_property", "webob.cachecontrol:exists_property",
    "webob.cachecontrol:UpdateDict", "webob.request:detect_charset", "webob.request:_is_utf8",
]
REGENERATED = []       # nothing is translated from source for C01
# reached by the A-vs-brand-new-Request oracle only (no Gallina counterpart)
ORACLE_ONLY = [
    "webob.request:BaseRequest.encget", "webob.request:BaseRequest.encset", "webob.descriptors:environ_decoder",
    "webob.descriptors:converter_date", "webob.descriptors:parse_int", "webob.descriptors:parse_int_safe",
    "webob.descriptors:parse_range", "webob.descriptors:serialize_range", "webob.descriptors:serialize_if_range",
    "webob.descriptors:parse_auth", "webob.descriptors:serialize_auth", "webob.datetime_utils:parse_date",
    "webob.datetime_utils:serialize_date", "webob.etag:ETagMatcher.parse", "webob.etag:IfRange.parse",
    "webob.acceptparse:create_accept_header", "webob.acceptparse:create_accept_charset_header",
    "webob.acceptparse:create_accept_encoding_header", "webob.acceptparse:create_accept_language_header",
    "webob.byterange:Range.parse",
    "webob.request:BaseRequest.body_file", "webob.request:BaseRequest.body_file_seekable", "webob.request:BaseRequest.body",
    "webob.request:BaseRequest._json_body__get", "webob.request:BaseRequest._json_body__set",
    "webob.request:BaseRequest._text__get", "webob.request:BaseRequest._text__set", "webob.request:BaseRequest.POST",
    "webob.request:BaseRequest.params", "webob.request:BaseRequest._check_charset", "webob.request:BaseRequest.decode",
    "webob.request:BaseRequest.copy", "webob.request:BaseRequest.copy_get", "webob.request:BaseRequest.copy_body",
    "webob.request:BaseRequest.make_body_seekable", "webob.request:BaseRequest.is_body_readable",
    "webob.request:LimitedLengthFile", "webob.request:Transcoder",
    "webob.request:BaseRequest.client_addr", "webob.request:BaseRequest.host_port", "webob.request:BaseRequest.host_url",
    "webob.request:BaseRequest.application_url", "webob.request:BaseRequest.path_url", "webob.request:BaseRequest.path",
    "webob.request:BaseRequest.path_qs", "webob.request:BaseRequest.url", "webob.request:BaseRequest.relative_url",
    "webob.request:BaseRequest.path_info_pop", "webob.request:BaseRequest.path_info_peek", "webob.request:BaseRequest.domain",
    "webob.request:BaseRequest.is_xhr", "webob.request:BaseRequest._urlvars__get", "webob.request:BaseRequest._urlvars__set",
    "webob.request:BaseRequest._urlvars__del", "webob.request:BaseRequest._urlargs__get",
    "webob.request:BaseRequest._urlargs__set", "webob.request:BaseRequest._urlargs__del",
    "webob.request:BaseRequest.remove_conditional_headers", "webob.request:BaseRequest._headers__set",
    "webob.request:BaseRequest.as_bytes", "webob.request:BaseRequest.as_text", "webob.request:BaseRequest.__repr__",
    "webob.request:AdhocAttrMixin.__setattr__", "webob.request:AdhocAttrMixin.__getattr__",
    "webob.request:AdhocAttrMixin.__delattr__", "webob.request:environ_from_url", "webob.request:BaseRequest.blank",
    "webob.headers:EnvironHeaders.__contains__", "webob.headers:EnvironHeaders.__len__", "webob.headers:EnvironHeaders.__iter__",
    "collections.abc:MutableMapping.clear", "collections.abc:MutableMapping.popitem",
    "webob.cookies:RequestCookies.get", "webob.cookies:RequestCookies.keys", "webob.cookies:RequestCookies.__contains__",
    "webob.cookies:RequestCookies.__len__", "webob.multidict:GetDict.copy", "webob.multidict:MultiDict.update",
    "webob.multidict:MultiDict.getall", "webob.multidict:MultiDict.getone", "webob.multidict:MultiDict.mixed",
    "webob.multidict:NestedMultiDict", "webob.multidict:NoVars", "webob.multidict:MultiDict.from_fieldstorage",
    "webob.cachecontrol:CacheControl.__str__", "webob.cachecontrol:CacheControl.copy",
]


def run(ctx):
    ctx.modelled(MODELLED)
    ctx.extra["regenerated_from_source"] = REGENERATED
    ctx.extra["oracle_only"] = ORACLE_ONLY
    ctx.extra["tabulated_from_source"] = TABULATED
    ctx.build(["Props/C01.vo"])
    for stage in (stage_strlib, stage_envview, stage_get_mutators, stage_oracle):
        try:
            stage(ctx)
        except Exception:  # noqa  (a stage that cannot run is a broken tie; the other stages still run)
            import traceback
            ctx.broken.append("%s raised: %s" % (stage.__name__, traceback.format_exc()[-1200:]))
    fill_evidence(ctx)


def stage_strlib(ctx):

    # ------------------------------------------------------------------ correspondence
    rng = ctx.sub_rng("strlib")
    cases = strlib_cases(rng, ctx.scale(150, 1500))
    bad = ctx.corr("strlib", IMPORTS, "strlib", cases, in_type="str")
    found = False
    for i in bad[:40]:
        s_ = cases[i][2]["strlib"]
        # targeted search: the disagreeing string as an environ key, and as a header name, under the enumeration laws
        jobs = [(spec, ops, "final", FOCUS_GETTERS) for spec, ops in headers_matrix([s_])[:48]]
        jobs += [({"kind": "blank", "path": "/", "set": []}, [["hdr", 0, "fresh", ["set", s_, "v"]], ["hdr", 1, "fresh", ["clear"]]],
                  "final", FOCUS_GETTERS)]
        if oracle_many(ctx, "strlib-targeted", jobs):
            found = True
            break
    for i in bad[:5]:
        if not found:
            ctx.broken.append("correspondence strlib: model and CPython/webob disagree on %r" % cases[i][2]["strlib"])



def stage_envview(ctx):
    rng = ctx.sub_rng("envview")
    n = ctx.scale(280, 2400)
    maxlen = ctx.scale(8, 14)
    cases = []
    for spec, ops in KNOWN_WITNESSES[:2]:      # (the third one stores a non-text value: outside the model's domain)
        cases.append(corr_case(spec, ops, [[0, ["cc"]], [1, ["hdr", "cache-control"]]]))
    for how in ("dict", "envcopy"):            # the fourth one, through the two pure copies of the environ
        for prime in ([["read", 0, ["cc"]]], [["hold", 1, "cc"], ["hold", 0, "GET"]], []):
            cases.append(corr_case({"kind": "blank", "path": "/?a=1", "set": [["HTTP_CACHE_CONTROL", "no-cache"]]},
                                   prime + [["fork", 0, how], ["cc", 0, "fresh", ["set", "max_age", 10]],
                                            ["GET", 1, "fresh", ["add", "n", "1"]]],
                                   [[0, ["cc"]], [1, ["GET"]], [0, ["hdr", "cache-control"]]]))
    for _ in range(n):
        spec, ops, probes = rand_model_case(rng, maxlen)
        cases.append(corr_case(spec, ops, probes))
    bad = ctx.corr("envview", IMPORTS, "(agrees run_case)", cases, in_type="(case * val)", shard=25, shard_bytes=200000)
    nbroken = 0
    for i in bad[:25]:
        case = cases[i][2]
        mode = None
        msg = run_history(case["env"], case["ops"], getters=ALL_GETTERS)
        if not msg:
            mode = "final"      # nothing read between the steps: caches primed by the operations only
            msg = run_history(case["env"], case["ops"], getters=ALL_GETTERS, lazy_seed=mode)
        if msg:
            sp, os_ = shrink(case["env"], case["ops"], msg[0], getters=ALL_GETTERS, lazy_seed=mode)
            m2 = run_history(sp, os_, getters=ALL_GETTERS, lazy_seed=mode) or msg
            ctx.fail(m2[0], m2[1], {"env": sp, "ops": os_, "lazy": mode, "getters": None}, True, "corr")
        elif nbroken < 3:
            nbroken += 1
            ctx.broken.append("correspondence envview: model and implementation disagree on %s" % json.dumps(case)[:1500])



def stage_get_mutators(ctx):
    """Every GetDict mutator, changing and not changing the dict, through fresh / held / stale handles:
    correspondence with the model, then the statement on the implementation (eager and final mode)."""
    matrix = get_matrix()
    probes = [[0, ["GET"]], [1, ["key", "QUERY_STRING", "", "query_string"]]]
    sel = matrix if ctx.thorough else [c for c in matrix if c[0]["path"] in ("/p", "/p?a=1&flag=&b=22", "/p?a=1&a=2&b=x")]
    cases = [corr_case(spec, [o if o[0] != "read" else ["read", o[1], ["GET"]] for o in ops], probes) for spec, ops in sel]
    bad = ctx.corr("get-mutators", IMPORTS, "(agrees run_case)", cases, in_type="(case * val)", shard=25, shard_bytes=200000)
    nbroken = 0
    for i in bad[:25]:
        case = cases[i][2]
        mode = None
        msg = run_history(case["env"], case["ops"], getters=FOCUS_GETTERS)
        if not msg:
            mode = "final"
            msg = run_history(case["env"], case["ops"], getters=FOCUS_GETTERS, lazy_seed=mode)
        if msg:
            sp, os_ = shrink(case["env"], case["ops"], msg[0], getters=FOCUS_GETTERS, lazy_seed=mode)
            m2 = run_history(sp, os_, getters=FOCUS_GETTERS, lazy_seed=mode) or msg
            ctx.fail(m2[0], m2[1], {"env": sp, "ops": os_, "lazy": mode, "getters": FOCUS_GETTERS}, True, "corr")
        elif nbroken < 3:
            nbroken += 1
            ctx.broken.append("correspondence get-mutators: model and implementation disagree on %s" % json.dumps(case)[:1200])
    jobs = []
    for spec, ops in matrix:
        jobs.append((spec, ops, None, FOCUS_GETTERS))
        jobs.append((spec, ops, "final", FOCUS_GETTERS))
    oracle_many(ctx, "get-mutators", jobs)
    cov = get_mutator_coverage(matrix)
    ctx.extra["get_mutator_coverage"] = cov
    for kind, c in sorted(cov.items()):
        if kind != "add" and (not c["changes"] or not c["leaves"]):
            ctx.broken.append("generator: GetDict.%s is not exercised both changing and not changing the dict: %r" % (kind, c))


def stage_oracle(ctx):
    # ------------------------------------------------------------------ oracle: the statement on the implementation
    jobs = [(spec, ops, "final", None) for spec, ops in KNOWN_WITNESSES]
    oracle_many(ctx, "known-shapes", jobs)

    U = small_universe()
    # the initial strings are in the universe too, so "prime, change through a view, put the old text back" has depth 2
    inits = [{"kind": "blank", "path": "/?a=1", "set": [["HTTP_COOKIE", "a=1"], ["HTTP_CACHE_CONTROL", "max-age=5"],
                                                        ["HTTP_RANGE", "bytes=0-4"], ["HTTP_IF_RANGE", "\"v1\""]]}]
    depth = ctx.scale(2, 3)
    jobs = []
    for d in range(1, depth + 1):
        for ops in itertools.product(U, repeat=d):
            for init in inits:
                if d <= 2:      # depth 3 (thorough) in final mode only: reading after every step re-primes the caches
                    jobs.append((init, list(ops), None, FOCUS_GETTERS))
                if d > 1:
                    jobs.append((init, list(ops), "final", FOCUS_GETTERS))
    if ctx.thorough:
        U4 = [U[i] for i in (0, 2, 3, 5, 7, 9, 11, 12, 14, 16, 17, 18, 20, 21, 23, 24)]
        for ops in itertools.product(U4, repeat=4):
            jobs.append((inits[0], list(ops), "final", FOCUS_GETTERS))
    oracle_many(ctx, "exhaustive-small", jobs)

    # configurations after construction, alternative argument shapes
    rng = ctx.sub_rng("config")
    jobs = []
    for i in range(ctx.scale(300, 8000)):
        spec, ops = rand_history(rng, ctx.scale(10, 20), ["config", "shape"][i % 2])
        jobs.append((spec, ops, [None, rng.randrange(10 ** 6), "final"][i % 3], None))
    oracle_many(ctx, "config-and-shapes", jobs)

    oracle_many(ctx, "self-assignment", [(spec, ops, m_, FOCUS_GETTERS) for spec, ops in selfassign_matrix() for m_ in (None, "final")])

    # the headers mapping over environs with the meta-variables and their HTTP_ look-alikes
    oracle_many(ctx, "headers-enumeration", [(spec, ops, "final", FOCUS_GETTERS) for spec, ops in headers_matrix()])

    # a further live wrapper over a COPY of the environ, writes through both
    jobs = []
    for spec, ops in copy_matrix():
        jobs.append((spec, ops, "final", FOCUS_GETTERS))
        if ctx.thorough:
            jobs.append((spec, ops, None, FOCUS_GETTERS))
    rng = ctx.sub_rng("copies")
    for i in range(ctx.scale(150, 6000)):
        spec, ops = rand_history(rng, ctx.scale(10, 20), "copies")
        jobs.append((spec, ops, [None, rng.randrange(10 ** 6), "final"][i % 3], None))
    oracle_many(ctx, "copies", jobs)

    # outside the model's value domain: what remains of the statement there
    jobs = []
    for spec, ops in outside_matrix():
        jobs.append((spec, ops, None, FOCUS_GETTERS))
        jobs.append((spec, ops, "final", FOCUS_GETTERS))
    rng = ctx.sub_rng("outside")
    for i in range(ctx.scale(200, 8000)):
        spec, ops = rand_history(rng, ctx.scale(10, 20), "outside")
        jobs.append((spec, ops, [None, rng.randrange(10 ** 6), "final"][i % 3], None))
    oracle_many(ctx, "outside-domain", jobs)

    rng = ctx.sub_rng("oracle")
    m = ctx.scale(800, 20000)
    jobs = []
    for i in range(m):
        focus = [None, "mixed-cache", None, "body", "mixed-cache", None][i % 6]
        spec, ops = rand_history(rng, ctx.scale(12, 25), focus)
        lazy = rng.randrange(10 ** 6) if i % 3 == 0 else ("final" if i % 3 == 1 and i % 2 else None)
        jobs.append((spec, ops, lazy, None))
    oracle_many(ctx, "random-all-getters", jobs)



def fill_evidence(ctx):
    maxlen, depth, U = ctx.scale(8, 14), ctx.scale(2, 3), small_universe()
    ctx.extra["rule"] = (
        "correspondence envview: random histories (length<=%d) of modelled operations over blank and server-style environs, "
        "each compared step by step between the Gallina model and webob.Request: returned value, every environ change "
        "(cache tuples included), value through the long-lived wrapper and through a brand-new Request for 2-6 probes, and "
        "the final environ; strlib: str.upper / str.title / _trans_name / _trans_key on all latin-1 characters in three "
        "contexts plus random names.  oracle: every history of depth<=%d over a %d-operation universe (cache-focused getters), "
        "random histories (ordinary, configuration/shape-focused and outside-domain) over ALL public getters of both long-lived wrappers (%d getters, two read orders, lazy and eager "
        "priming) against a brand-new Request per getter, plus the write-lands check on every write; every counted case is a "
        "distinct history with at least one write.  Typed attribute writes draw from three value classes: a value with header "
        "text, None, and 'empty but not None' (EMPTY_TYPED: a value whose serializer answers None -- range = ''/()/[]/NoETag, "
        "if_range = ''/NoETag/IfRange of a header-less request/ETagMatcher([]); 20%% of random attribute writes, 80%% of them "
        "preceded by a write that puts the header there; three operations of the exhaustive universe, whose initial environ "
        "carries Range and If-Range): the key must be gone from the environ afterwards" % (maxlen, depth, len(U), len(ALL_GETTERS)))
    ctx.extra["exhaustive"] = False
    ctx.extra["getters_compared"] = ALL_GETTERS
    ctx.assume += [
        "theorems: environ values under the CGI keys are native strings, view values are encodable text; the oracle also visits "
        "the outside (None/int/bytes/objects/lone surrogates/code points > 255 as values, keys and names; non-strings under the "
        "CGI keys) and checks there: coherence of every getter that does not parse a non-string CGI value, refusal by one of "
        "webob's exception classes, no half-landed single-item write",
        "raw environ edits address the underlying CGI keys, never webob's private webob._* cache keys",
        "POST/params are compared with a brand-new Request only while no parse is cached for the current body object, "
        "charset-dependent getters with a brand-new Request that has been told the wrapper's charset (the two documented "
        "per-object memories)",
        "query-string round trip parse_qsl_text(url_encode(items)) = items is a hypothesis of C01_coherent (C09's theorem); "
        "it is exercised, not proved, here",
        "plain reads may write the environ (cache tuples; cache_control re-serialises HTTP_CACHE_CONTROL; body reads set "
        "CONTENT_LENGTH / wsgi.input): the brand-new Request is built from the environ as it stands at each read",
    ]
    ctx.trusted += [
        "Section variables of Model/C01_EnvView.v (parse_qsl_text, url_encode, parse_cookie, the regex edit in _mutate_header, "
        "CacheControl.parse, serialize_cache_control, the CacheControl property descriptors, detect_charset) are instantiated in "
        "the correspondence by tables recorded from the real functions",
        "attribute -> (descriptor kind, CGI key) table ATTR_KIND in harness/props/c01.py (validated by the correspondence: a "
        "different key or kind changes the observed environ)",
    ]


def replay(ctx, path):
    data = json.load(open(path))
    case = data["case"]
    if not isinstance(case, dict) or "ops" not in case:
        print("replay: nothing executable in this file (broken obligation): %s" % data.get("what"))
        return 1
    msg = run_history(case["env"], case["ops"], getters=case.get("getters"), lazy_seed=case.get("lazy"))
    if msg:
        print("VIOLATION property=C01 replay=%s" % path)
        print("  (%s) %s" % (msg[0], msg[1][:900]))
        return 1
    print("replay passes on the current tree")
    return 0
