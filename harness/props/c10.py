"""C10 — request body: exactly CONTENT_LENGTH bytes, no over-read, repeatable reads.

Tie to the source
  * correspondence of coq/Model/C10_BodyStream.v (run_obs) with the real webob.request on generated
    histories of access paths: an instrumented wsgi.input (non-seekable, or seekable with
    webob.is_body_seekable) records every read; after every step the result, CONTENT_LENGTH, the
    seekable/readable flags, the kind (original stream / BytesIO / temp file) and position of
    wsgi.input and the consumption of the server's stream are compared with the model.  The sizes of
    the raw reads that io.BufferedReader really issued are handed to the model as its adversary list,
    so positions agree exactly.
  * oracle: the buffer-free reference machine of coq/Spec/C10_BodySpec.v, mirrored in Python from the
    property statement, against the real public API over exhaustive short histories and random ones,
    with the real cgi.FieldStorage, text/json setters, readline/read1/readinto/iteration on body_file,
    legacy webob.is_body_readable, and WSGI applications reading through call_application.
  * statefulness: histories are also run through several long-lived / brand-new Request wrappers over ONE environ, with
    the environ's flags flipped, wsgi.input replaced and the class-level temp-file limit changed mid-history; two
    independent live requests are interleaved in one process (oracle_two, and run_impl2 against the model world
    init_world2); a batch of cases is run forward, reversed and shuffled.
"""
import io
import itertools
import json

from harness import fw
from harness.fw import cstr, clist, cbool, cZ, cnat, copt

IMPORTS = ["Webob.Model.C10_BodyStream"]
CHUNK = 65535          # the literal in copy_body (request.py:975, 982)


# =========================================================================== instrumented inputs
class Raw:
    """non-seekable wsgi.input: read/readline only, counts what is pulled"""

    def __init__(self, data):
        self.data = data
        self.pos = 0
        self.calls = []

    def read(self, n=-1):
        if n is None or n < 0:
            n = len(self.data) - self.pos
        r = self.data[self.pos:self.pos + n]
        self.pos += len(r)
        self.calls.append(n)
        return r

    def readline(self, n=-1):
        end = self.data.find(b"\n", self.pos)
        end = len(self.data) if end < 0 else end + 1
        if n is not None and n >= 0:
            end = min(end, self.pos + n)
        r = self.data[self.pos:end]
        self.pos = end
        self.calls.append(len(r))
        return r

    def __iter__(self):
        while True:
            line = self.readline()
            if not line:
                return
            yield line

    def tell_(self):
        return self.pos


class SeekRaw(io.BytesIO):
    """seekable wsgi.input (used with webob.is_body_seekable): remembers the furthest byte read"""

    def __init__(self, data):
        super().__init__(data)
        self.hwm = 0
        self.calls = []

    def read(self, n=-1):
        r = super().read(n)
        self.hwm = max(self.hwm, self.tell())
        self.calls.append(n)
        return r

    def readline(self, n=-1):
        r = super().readline(n)
        self.hwm = max(self.hwm, self.tell())
        return r

    def tell_(self):
        return self.tell()


_classes = {}


def req_class(limit):
    from webob.request import Request
    if limit not in _classes:
        _classes[limit] = type("R%d" % len(_classes), (Request,), {"request_body_tempfile_limit": limit})
    return _classes[limit]


def private_class(limit):
    """a Request subclass used by one case only (its class attribute may be changed during the case)"""
    from webob.request import Request
    return type("RP", (Request,), {"request_body_tempfile_limit": limit})


URLENC = "application/x-www-form-urlencoded"
MP_BODY = (b'--B0\r\nContent-Disposition: form-data; name="a"\r\n\r\n1\r\n'
           b'--B0\r\nContent-Disposition: form-data; name="b"\r\n\r\nx y\r\n--B0--\r\n')
# CONTENT_TYPE texts -> (type without parameters, charset as webob detects it)
CTYPES = {
    URLENC: (URLENC, "UTF-8"),
    URLENC + "; charset=UTF-8": (URLENC, "UTF-8"),
    URLENC + '; charset="utf8"': (URLENC, "UTF-8"),
    URLENC + "; charset=latin-1": (URLENC, "latin-1"),
    "": ("", "UTF-8"),
    None: ("", "UTF-8"),                       # no CONTENT_TYPE key at all
    "application/json": ("application/json", "UTF-8"),
    "text/plain; charset=iso-8859-1": ("text/plain", "iso-8859-1"),
    "multipart/form-data; boundary=B0": ("multipart/form-data", "UTF-8"),
}


def cfg_form(cfg):
    """does .POST parse the body (request.py:800-809), and with which charset"""
    base, charset = CTYPES[cfg.get("ctype", URLENC)]
    method = cfg.get("method", "POST")
    form = not ((method != "POST" and not base) or base not in ("", URLENC, "multipart/form-data"))
    return form, charset


def make_class(cfg):
    """the Request class for a case: Request or BaseRequest, class-level limit, optional make_tempfile override"""
    import tempfile
    import webob.request as wr
    base = wr.BaseRequest if cfg.get("cls") == "base" else wr.Request
    attrs = {"request_body_tempfile_limit": cfg["limit"]}
    tf = cfg.get("tempfile")
    if tf == "bytesio":
        attrs["make_tempfile"] = lambda self: io.BytesIO()
    elif tf == "spooled":
        attrs["make_tempfile"] = lambda self: tempfile.SpooledTemporaryFile(max_size=7)
    return type("RK", (base,), attrs)


def make_request(cfg, cls=None):
    """cfg: data(bytes) cl(None|str|int) seekable term(None|any) legacy(any) limit(int)
    [ctype] [method] [stream: raw|bytesio] [cls: base] [tempfile: bytesio|spooled]"""
    raw = SeekRaw(cfg["data"]) if (cfg["seekable"] or cfg.get("stream") == "bytesio") else Raw(cfg["data"])
    env = {"REQUEST_METHOD": cfg.get("method", "POST"), "SCRIPT_NAME": "", "PATH_INFO": "/", "SERVER_NAME": "h",
           "SERVER_PORT": "80", "wsgi.url_scheme": "http", "SERVER_PROTOCOL": "HTTP/1.1", "wsgi.input": raw}
    if cfg.get("ctype", URLENC) is not None:
        env["CONTENT_TYPE"] = cfg.get("ctype", URLENC)
    if cfg["cl"] is not None:
        env["CONTENT_LENGTH"] = cfg["cl"]
    if cfg["seekable"]:
        env["webob.is_body_seekable"] = True
    if cfg["term"] is not None:
        env["wsgi.input_terminated"] = cfg["term"]
    if cfg["legacy"] not in (False, None):
        env["webob.is_body_readable"] = cfg["legacy"]
    if cls is None:
        cls = make_class(cfg) if (cfg.get("cls") or cfg.get("tempfile")) else req_class(cfg["limit"])
    return cls(env), raw


class StubFS:
    """stands for cgi.FieldStorage in the correspondence: reads the declared length from fp, once"""
    fed = None

    def __init__(self, fp=None, environ=None, keep_blank_values=False, encoding="utf8", errors="replace"):
        n = max(int(environ.get("CONTENT_LENGTH") or 0), 0)
        StubFS.fed = fp.read(n)
        self.list = None


def declared_read(env):
    """what a well-behaved WSGI application reads: CONTENT_LENGTH bytes, or to EOF on a terminated input"""
    from webob.request import BaseRequest
    r = BaseRequest(env)
    c = r.content_length
    if c is not None:
        return env["wsgi.input"].read(max(c, 0))
    if env.get("wsgi.input_terminated", env.get("webob.is_body_readable", False)):
        return env["wsgi.input"].read()
    return b""


def app_reader(env, start_response):
    start_response("200 OK", [("Content-Type", "application/octet-stream")])
    if not env.get("webob.is_body_seekable"):
        return [b"\x00SKIP"]
    return [b"\x01" + declared_read(env)]


def run_impl(cfg, hist, stub=True, via=None):
    """Run a history on the real webob.  hist: list of [req index, op, arg].
    via[k] (optional): which Request wrapper over the SAME environ executes step k (0/None the first one,
    1, 2 other long-lived wrappers, -1 a brand-new wrapper) — the model knows only the environ.
    Returns (per-step observations, per-step adversary lists)."""
    import webob.request as wr
    DE = wr.DisconnectionError
    reqs = []
    r0, raw = make_request(cfg)
    reqs.append(r0)
    slots = [Slot(r0, raw, cfg)]
    saved = wr.cgi_FieldStorage
    if stub:
        wr.cgi_FieldStorage = StubFS
    obs, advs = [], []
    try:
        for k, (i, o, a) in enumerate(hist):
            if i >= len(reqs):
                obs.append([None, raw.tell_()])
                advs.append([])
                continue
            r = slots[i].wrapper(via[k] if via else None)
            ncalls = len(raw.calls)
            try:
                if o == "body":
                    out = r.body
                elif o == "fread":
                    out = r.body_file.read() if a is None else r.body_file.read(a)
                elif o == "sread":
                    f = r.body_file_seekable
                    out = f.read() if a is None else f.read(a)
                elif o == "copy":
                    reqs.append(r.copy())
                    slots.append(Slot(reqs[-1], None, None))
                    out = 1
                elif o == "copy_get":
                    reqs.append(r.copy_get())
                    slots.append(Slot(reqs[-1], None, None))
                    out = 1
                elif o == "post":
                    StubFS.fed = None
                    r.POST
                    out = 2 if StubFS.fed is None else StubFS.fed
                elif o == "app":
                    body = b"".join(r.call_application(app_reader)[2])
                    out = None if body == b"\x00SKIP" else body[1:]
                elif o == "setbody":
                    r.body = a
                    out = b""
                else:
                    raise ValueError(o)
            except DE:
                out = fw.Err("D")
            wi = r.body_file_raw
            kind = 0 if wi is raw else (1 if isinstance(wi, io.BytesIO) else 2)
            pos = wi.tell_() if wi is raw else wi.tell()
            if isinstance(out, bytes):
                out = bytes_val(out)
            obs.append([out, raw.tell_(), r.content_length, bool(r.is_body_seekable), bool(r.is_body_readable), kind, pos])
            advs.append([x for x in raw.calls[ncalls:] if isinstance(x, int) and x >= 0] if not cfg["seekable"] else [])
    finally:
        wr.cgi_FieldStorage = saved
    return obs, advs


def run_impl2(cfg_a, cfg_b, hist, stub=True):
    """Two independent requests (two environs, two instrumented streams) alive at the same time; request indices are
    global: 0 = A, 1 = B, 2.. = copies in creation order (the model's world init_world2)."""
    import webob.request as wr
    DE = wr.DisconnectionError
    ra, rawa = make_request(cfg_a)
    rb, rawb = make_request(cfg_b)
    slots = [Slot(ra, rawa, cfg_a), Slot(rb, rawb, cfg_b)]
    saved = wr.cgi_FieldStorage
    if stub:
        wr.cgi_FieldStorage = StubFS
    obs, advs = [], []
    try:
        for i, o, a in hist:
            if i >= len(slots):
                obs.append([None, rawa.tell_()])
                advs.append([])
                continue
            slot = slots[i]
            r = slot.wrappers[0]
            own = slot.raw
            ncalls = len(own.calls) if own is not None else 0
            try:
                if o == "body":
                    out = r.body
                elif o == "fread":
                    out = r.body_file.read() if a is None else r.body_file.read(a)
                elif o == "sread":
                    f = r.body_file_seekable
                    out = f.read() if a is None else f.read(a)
                elif o == "copy":
                    slots.append(Slot(r.copy(), None, None))
                    out = 1
                elif o == "copy_get":
                    slots.append(Slot(r.copy_get(), None, None))
                    out = 1
                elif o == "post":
                    StubFS.fed = None
                    r.POST
                    out = 2 if StubFS.fed is None else StubFS.fed
                elif o == "app":
                    body = b"".join(r.call_application(app_reader)[2])
                    out = None if body == b"\x00SKIP" else body[1:]
                elif o == "setbody":
                    r.body = a
                    out = b""
                else:
                    raise ValueError(o)
            except DE:
                out = fw.Err("D")
            wi = r.body_file_raw
            kind = 0 if (own is not None and wi is own) else (1 if isinstance(wi, io.BytesIO) else 2)
            pos = wi.tell_() if kind == 0 else wi.tell()
            if isinstance(out, bytes):
                out = bytes_val(out)
            obs.append([out, rawa.tell_(), r.content_length, bool(r.is_body_seekable), bool(r.is_body_readable), kind, pos])
            seek_orig = slot.seek_orig
            advs.append([x for x in own.calls[ncalls:] if isinstance(x, int) and x >= 0]
                        if own is not None and not seek_orig else [])
    finally:
        wr.cgi_FieldStorage = saved
    return obs, advs


def coq_cfg(cfg):
    c = parse_cl(cfg["cl"])
    return "(%s, %s, %s, %s, %s, %s)" % (
        cbytes(cfg["data"]), copt(None if c is None else cZ(c)), cbool(cfg["seekable"]),
        copt(None if cfg["term"] is None else cbool(bool(cfg["term"]))), cbool(bool(cfg["legacy"])), cZ(cfg["limit"]))


def coq_case2(cfg_a, cfg_b, hist, advs):
    steps = clist("(%s, %s, %s)" % (cnat(i), cop(o, a), clist(cnat(x) for x in adv))
                  for (i, o, a), adv in zip(hist, advs))
    return "(%s, %s, %s)" % (coq_cfg(cfg_a), coq_cfg(cfg_b), steps)


CFG_TYPE = "(bytes * option Z * bool * option bool * bool * Z)"
IN_TYPE2 = "(%s * %s * list step)" % (CFG_TYPE, CFG_TYPE)
FN2 = "(fun c => match c with (a, b, hist) => run_obs2 %d a b hist end)" % CHUNK


def rand_hist2(rng, cfg_a, cfg_b, depth):
    """interleaved history over the two originals (indices 0, 1) and their copies"""
    hist, nreq = [], 2
    for _ in range(depth):
        i = rng.randrange(nreq) if rng.random() < 0.95 else nreq
        n = len((cfg_a if i == 0 else cfg_b)["data"])
        o = rng.choice(OPS)
        a = None
        if o in ("fread", "sread"):
            a = rand_size(rng, n)
        elif o == "setbody":
            a = rand_bytes(rng, rng.choice([0, 1, 4, 9]))
        elif o in ("copy", "copy_get"):
            nreq += 1
        hist.append((i, o, a))
    return hist


# =========================================================================== Coq literals
def pattern(n):
    return bytes(i % 251 for i in range(n))


def cbytes(b):
    if len(b) > 64 and b == pattern(len(b)):
        return "(pattern %s)" % cnat(len(b))
    return cstr(b)


def digest(b):
    acc = 7
    for c in b:
        acc = (acc * 31 + c + 1) % 1000003
    return acc


def bytes_val(b):
    return b if len(b) <= 64 else [len(b), digest(b)]


def coptnat(k):
    return "None" if k is None else "(Some %s)" % cnat(k)


def cop(o, a):
    if o == "body":
        return "Body"
    if o == "fread":
        return "(FileRead %s)" % coptnat(a)
    if o == "sread":
        return "(SeekRead %s)" % coptnat(a)
    if o == "copy":
        return "Copy"
    if o == "copy_get":
        return "CopyGet"
    if o == "post":
        return "Post"
    if o == "app":
        return "CallApp"
    if o == "setbody":
        return "(SetBody %s)" % cbytes(a)
    raise ValueError(o)


def parse_cl(s):
    """what content_length returns (descriptors.parse_int_safe): int() with its leniency, None for anything else"""
    if s is None or s == "":
        return None
    try:
        return int(s)
    except ValueError:
        return None


def coq_case(cfg, hist, advs):
    steps = clist("(%s, %s, %s)" % (cnat(i), cop(o, a), clist(cnat(x) for x in adv))
                  for (i, o, a), adv in zip(hist, advs))
    c = parse_cl(cfg["cl"])
    return "(%s, %s, %s, %s, %s, %s, %s)" % (
        cbytes(cfg["data"]), copt(None if c is None else cZ(c)), cbool(cfg["seekable"]),
        copt(None if cfg["term"] is None else cbool(bool(cfg["term"]))), cbool(bool(cfg["legacy"])), cZ(cfg["limit"]), steps)


IN_TYPE = "(bytes * option Z * bool * option bool * bool * Z * list step)"
FN = ("(fun c => match c with (s, cl0, sk, tm, lg, lim, hist) => run_obs %d s cl0 sk tm lg lim hist end)" % CHUNK)
# the same for requests whose method / content type make .POST a no-op
FN_NOFORM = ("(fun c => match c with (s, cl0, sk, tm, lg, lim, hist) => run_obs_form %d false s cl0 sk tm lg lim hist end)" % CHUNK)


def jcfg(cfg):
    d = dict(cfg)
    d["data"] = cfg["data"].hex()
    return d


def jhist(hist):
    return [[i, o, a.hex() if isinstance(a, bytes) else a] for i, o, a in hist]


def unj(case):
    cfg = dict(case["cfg"])
    cfg["data"] = bytes.fromhex(cfg["data"])
    hist = [(i, o, bytes.fromhex(a) if o in ("setbody",) else a) for i, o, a in case["hist"]]
    return cfg, hist


# =========================================================================== generators
OPS = ["body", "fread", "sread", "copy", "copy_get", "post", "app", "setbody"]


def rand_bytes(rng, n):
    if rng.random() < 0.5:
        s = b"&".join(b"k%d=%d" % (rng.randrange(9), rng.randrange(1000)) for _ in range(n // 5 + 1))
        return (s + b"&pad=" + b"x" * n)[:n]
    return bytes(rng.randrange(256) for _ in range(n))


def rand_cfg(rng, maxlen, seekable=None):
    n = rng.choice([0, 1, 2, 3, 5, 8, 13, rng.randrange(maxlen + 1), rng.randrange(maxlen + 1)])
    data = rand_bytes(rng, n)
    if seekable is None:
        seekable = rng.random() < 0.25
    u = rng.random()
    if u < 0.14:
        cl = None
    elif u < 0.17:
        cl = ""
    elif u < 0.22:
        cl = "0"
    elif u < 0.27:
        cl = str(-rng.choice([1, 2, 5, 100]))
    elif u < 0.55:
        cl = str(n)
    elif u < 0.80:
        cl = str(max(0, n - rng.choice([1, 1, 2, 3, n // 2, n])))
    else:
        cl = str(n + rng.choice([1, 1, 2, 3, 10, 9000]))
    if seekable and rng.random() < 0.6:
        cl = str(n)
    term = rng.choice([None, None, None, True, True, False])
    legacy = rng.random() < 0.15
    c = parse_cl(cl)
    body_len = min(n, c) if c is not None and c > 0 else n
    limit = rng.choice([-1, 0, 1, max(0, body_len - 1), body_len, body_len + 1, 10240, 10240])
    return {"data": data, "cl": cl, "seekable": seekable, "term": term, "legacy": legacy, "limit": limit}


TERM_VALUES = [True, 1, "yes", [0]]          # anything truthy marks the input as terminated
UNTERM_VALUES = [False, 0, "", []]


def add_knobs(rng, cfg, corr=False):
    """vary the configuration the body code reads beyond the defaults: truthy/falsy non-bool flags, CONTENT_LENGTH as
    int / lenient text / garbage, method and content type (with charset), a plain BytesIO without the seekable flag,
    BaseRequest instead of Request, make_tempfile overridden"""
    n = len(cfg["data"])
    if cfg["term"] is not None and rng.random() < 0.5:
        cfg["term"] = rng.choice(TERM_VALUES if cfg["term"] else UNTERM_VALUES)
    if cfg["legacy"] and rng.random() < 0.5:
        cfg["legacy"] = rng.choice([1, "x"])
    u = rng.random()
    c = parse_cl(cfg["cl"])
    if c is not None and u < 0.12:
        cfg["cl"] = c                                        # an int in the environ (as the repo's own tests do)
    elif c is not None and u < 0.20:
        cfg["cl"] = rng.choice([" %d", "%d ", "+%d", "0%d"]) % c if c >= 0 else cfg["cl"]
    elif u < 0.26 and not cfg["seekable"]:
        cfg["cl"] = rng.choice(["abc", "5.0", "1e2", "0x10", "--1", "12a"])      # not a number: as if absent
    if rng.random() < 0.35:
        cfg["method"] = rng.choice(["POST", "POST", "PUT", "GET", "HEAD", "PATCH", "WTF"])
        cts = [k for k in CTYPES if not (corr and CTYPES[k][1] != "UTF-8")]
        cfg["ctype"] = rng.choice(cts)
        if cfg["ctype"] and cfg["ctype"].startswith("multipart") and not cfg["seekable"] and rng.random() < 0.8:
            cfg["data"] = MP_BODY + rand_bytes(rng, rng.choice([0, 0, 3]))
            cfg["cl"] = str(len(MP_BODY))
    if not cfg["seekable"] and rng.random() < 0.15:
        cfg["stream"] = "bytesio"
    if rng.random() < 0.15:
        cfg["cls"] = "base"
    if not corr and rng.random() < 0.2:
        cfg["tempfile"] = rng.choice(["bytesio", "spooled"])
    return cfg


def rand_size(rng, n):
    return rng.choice([None, None, 0, 1, 1, 2, 3, 5, max(0, n // 2), max(0, n - 1), n, n + 1, n + 7, 8191, 8192, 8193])


def rand_hist(rng, cfg, depth, ops=OPS, weights=None):
    n = len(cfg["data"])
    hist, nreq = [], 1
    for _ in range(depth):
        i = rng.randrange(nreq) if rng.random() < 0.93 else nreq
        o = rng.choices(ops, weights)[0] if weights else rng.choice(ops)
        a = None
        if o in ("fread", "sread"):
            a = rand_size(rng, n)
        elif o == "setbody":
            a = rand_bytes(rng, rng.choice([0, 1, 4, 9, n, n + 1]))
        elif o in ("copy", "copy_get"):
            nreq += 1
        hist.append((i, o, a))
    return hist


# =========================================================================== the reference machine (Spec/C10_BodySpec.v)
class SReq:
    """a body with a cursor; mode in raw / short / term / none / held"""

    def __init__(self, body, cur, mode, post=False, form=True, stream=None, cl=None):
        self.body, self.cur, self.mode, self.post, self.form = body, cur, mode, post, form
        # while the request still sits on a server stream: its whole content, the declared length, and how far an
        # unterminated/terminated input has been consumed (needed when the environ's flags are flipped mid-history)
        self.stream, self.cl, self.spos = stream, cl, 0
        self.charset = "UTF-8"

    def conv(self):
        """make the body seekable; False = DisconnectionError"""
        if self.mode == "held":
            self.cur = 0
            return True
        if self.mode == "raw" and self.cur == 0:
            self.mode, self.post = "held", False
            return True
        if self.mode in ("raw", "short"):
            self.cur = len(self.body)
            return False
        if self.mode == "term":
            self.body, self.cur, self.mode, self.post = self.body[self.cur:], 0, "held", False
            return True
        self.body, self.cur, self.mode, self.post = b"", 0, "held", False
        return True

    def read(self, k):
        d = self.body[self.cur:] if k is None else self.body[self.cur:self.cur + k]
        self.cur += len(d)
        return d


DISC = fw.Err("D")


def spec_init(cfg):
    r = spec_init0(cfg)
    r.form, r.charset = cfg_form(cfg) if "data" in cfg and ("ctype" in cfg or "method" in cfg) else (True, "UTF-8")
    return r


def spec_init0(cfg):
    s, c = cfg["data"], parse_cl(cfg["cl"])
    flag = cfg["term"] if cfg["term"] is not None else cfg["legacy"]
    if cfg["seekable"]:
        return SReq(s, 0, "held")
    if c is not None:
        if c > 0:
            return SReq(s[:c], 0, "raw", stream=s, cl=c) if c <= len(s) else SReq(s, 0, "short", stream=s, cl=c)
        return SReq(b"", 0, "none", stream=s, cl=c)
    return SReq(s, 0, "term", stream=s) if flag else SReq(b"", 0, "none", stream=s)


def spec_reflag(s, flag):
    """wsgi.input_terminated / webob.is_body_readable changed in the environ: only an input without
    CONTENT_LENGTH that webob has not captured yet is affected"""
    if s.stream is None or s.cl is not None or s.mode not in ("term", "none"):
        return
    if flag and s.mode == "none":
        s.mode, s.body, s.cur = "term", s.stream, s.spos
    elif not flag and s.mode == "term":
        s.spos = s.cur
        s.mode, s.body, s.cur = "none", b"", 0


def spec_unseek(s):
    r = spec_unseek0(s)
    r.charset = s.charset
    return r


def spec_unseek0(s):
    """webob.is_body_seekable switched off on a held body whose file is at position 0: from now on the
    file is treated like a server stream holding exactly the body"""
    b = s.body
    if b:
        return SReq(b, 0, "raw", s.post, s.form, stream=b, cl=len(b))
    return SReq(b"", 0, "none", s.post, s.form, stream=b, cl=0)


def spec_step(ss, i, o, a):
    """returns the list of acceptable outputs (usually one)"""
    if i >= len(ss):
        return [None]
    s = ss[i]
    if o == "body":
        if s.mode == "none":
            return [b""]
        return [s.body] if s.conv() else [DISC]
    if o == "fread":
        if s.mode == "none":
            return [b""]
        if s.mode == "short":
            acc = [DISC]
            if a is not None and s.cur + a <= len(s.body):
                acc.append(("data", a))
            return acc
        return [s.read(a)]
    if o == "sread":
        if s.mode != "held" and not s.conv():
            return [DISC]
        return [s.read(a)]
    if o == "copy":
        if not s.conv():
            return [DISC]
        s.cur = 0                  # the shared input is rewound after the copy was taken (fixes/C10-3)
        ss.append(SReq(s.body, 0, "held", False, s.form))
        ss[-1].charset = s.charset
        return [1]
    if o == "copy_get":
        ss.append(SReq(b"", 0, "held", False, False))
        return [1]
    if o == "post":
        if s.post or not s.form:
            return [2]
        if s.charset != "UTF-8":
            return [fw.Err("DeprecationWarning")]      # _check_charset: the documented refusal, before anything is read
        if not s.conv():
            return [DISC]
        s.cur, s.post = 0, True
        return [s.body]
    if o == "app":
        if s.mode != "held":
            return [None]
        s.cur = len(s.body)
        return [s.body]
    if o == "setbody":
        ss[i] = SReq(a, 0, "held", False, s.form)
        ss[i].charset = s.charset
        return [b""]
    if o == "make_seekable":
        return [None] if s.conv() else [DISC]
    if o == "copy_body":
        if s.mode == "held":
            s.cur, s.post = 0, False         # a new file with the same bytes
            return [None]
        return [None] if s.conv() else [DISC]
    raise ValueError(o)


def spec_resolve(ss, i, o, a, acc, got):
    """pick the acceptable output that matches and settle the short-mode cursor"""
    for e in acc:
        if isinstance(e, tuple):
            s = ss[i]
            want = s.body[s.cur:s.cur + e[1]]
            if got == want:
                s.cur += e[1]
                return True
        elif got == e:
            if e == DISC and o == "fread" and i < len(ss) and ss[i].mode == "short":
                ss[i].cur = len(ss[i].body)
            return True
    return False


# =========================================================================== the oracle on the real API
HANDLE_OPS = ("freadline", "fread1", "freadinto", "fiter")
READ_OPS = ("body", "fread", "sread", "copy", "post", "app", "asbytes", "gettext", "make_seekable", "copy_body") + HANDLE_OPS


def ref_readline(rest, k):
    end = rest.find(b"\n")
    end = len(rest) if end < 0 else end + 1
    if k is not None and k >= 0:
        end = min(end, k)
    return rest[:end]


def is_ascii_form(b):
    return all(0x20 < c < 0x7f and c not in b"%+;" for c in b)


def ref_form(b):
    from urllib.parse import parse_qsl
    return [list(p) for p in parse_qsl(b.decode("ascii"), keep_blank_values=True)]


NEG_KEY = "negative-content-length-treated-as-readable"
# deviations from the property TEXT that the model and the reference machine reproduce on purpose (they describe what
# the code does); the oracle reports them under these keys and goes on with the history
KEY_PARTIAL_DISC = "partial-body_file-read-then-whole-body:disconnection-error"
KEY_PARTIAL_REST = "partial-body_file-read-then-whole-body:remainder-only"
KEY_SEEKABLE_UNLIMITED = "seekable-input:body_file-unlimited"
KEY_COPY_EOF = "copy:leaves-original-at-eof"
CAPTURE_OPS = ("body", "sread", "copy", "post", "make_seekable", "copy_body", "asbytes", "gettext")


def classify(cfg, o, got, acc, neg=False):
    if neg:
        return NEG_KEY      # one root cause: is_body_readable accepts a negative length (over-read, body made seekable ...)
    sk = ":seekable-input" if cfg["seekable"] else ""
    exp = acc[0] if acc else None
    if isinstance(got, (bytes, list)) and exp == DISC:
        return "%s:short-data-instead-of-disconnect%s" % (o, sk)
    if got == DISC and isinstance(exp, (bytes, list)):
        return "%s:spurious-disconnect%s" % (o, sk)
    if isinstance(got, bytes) and isinstance(exp, bytes):
        return "%s:wrong-bytes%s" % (o, sk)
    return "%s:wrong-result%s" % (o, sk)


class Slot:
    """one environ: the Request wrappers over it, the instrumented stream it (still) reads, its spec index"""

    def __init__(self, req, raw, cfg):
        self.wrappers = [req]
        self.env = req.environ
        self.raw = raw
        self.seek_orig = bool(cfg and cfg["seekable"])
        self.pos0 = raw.tell_() if raw is not None else 0

    def wrapper(self, via):
        """via None/0: the long-lived first wrapper; k > 0: another long-lived wrapper over the same environ;
        -1: a brand-new wrapper for this call only"""
        w0 = self.wrappers[0]
        if not via:
            return w0
        if via < 0:
            return type(w0)(self.env)
        k = via % 3
        while len(self.wrappers) <= k:
            self.wrappers.append(type(w0)(self.env))
        return self.wrappers[k]

    def flag(self):
        return bool(self.env.get("wsgi.input_terminated", self.env.get("webob.is_body_readable", False)))

    def clen(self):
        return parse_cl(self.env.get("CONTENT_LENGTH"))


class Run:
    """One world (an original request and its copies) driven step by step against the reference machine.
    Several Runs may be stepped alternately in one process."""

    def __init__(self, cfg, cls=None, tag=""):
        import webob.request as wr
        self.DE = wr.DisconnectionError
        self.cfg = cfg
        self.tag = tag
        if cls is None:
            r0, raw = make_request(cfg)
        else:
            r0, raw = make_request(cfg, cls)
        self.cls = type(r0)
        self.slots = [Slot(r0, raw, cfg)]
        self.ss = [spec_init(cfg)]
        self.k = 0
        self.side = []          # known deviations from the text met on the way (key, message)

    def result(self, res):
        """a failure outranks the known deviations; otherwise the first deviation met"""
        return res or (self.side[0] if self.side else None)

    @classmethod
    def from_request(cls_, req, sreq, cfg, raw=None, tag=""):
        """a world around a request built by the caller (constructor keywords, Request.blank, from_bytes ...)"""
        import webob.request as wr
        run = cls_.__new__(cls_)
        run.DE, run.cfg, run.tag, run.cls = wr.DisconnectionError, cfg, tag, type(req)
        run.slots, run.ss, run.k = [Slot(req, raw, None)], [sreq], 0
        run.side = []
        return run

    def finish(self):
        for j in range(len(self.slots) + 1):
            res = self.step(j, "body", None, None, final=True)
            if res:
                return res
        return None

    def step(self, i, o, a, via=None, final=False):
        cfg, ss = self.cfg, self.ss
        self.k += 1
        if i >= len(self.slots):
            return None
        slot = self.slots[i]
        r = slot.wrapper(via)
        s = ss[i]
        c_now, flag_now = slot.clen(), slot.flag()
        raw = slot.raw
        pos_before = raw.tell_() if raw is not None else 0
        # the original request, still on a stream whose declared length is negative
        neg = raw is not None and not slot.seek_orig and c_now is not None and c_now < 0 and s.mode == "none" and \
            o in READ_OPS
        new = None
        refusal = None
        if o == "settext":
            try:
                a.encode(s.charset)
            except UnicodeEncodeError:
                refusal = "UnicodeEncodeError"
        try:
            if o == "body":
                got = r.body
            elif o == "fread":
                got = r.body_file.read() if a is None else r.body_file.read(a)
            elif o == "sread":
                f = r.body_file_seekable
                got = f.read() if a is None else f.read(a)
            elif o == "copy":
                new = r.copy()
                got = 1
            elif o == "copy_get":
                new = r.copy_get()
                got = 1
            elif o == "post":
                p = r.POST
                got = [[x, y] for x, y in p.items()] if hasattr(p, "items") else p
            elif o == "app":
                body = b"".join(r.call_application(app_reader)[2])
                got = None if body == b"\x00SKIP" else body[1:]
            elif o == "setbody":
                r.body = a
                got = b""
            elif o == "settext":
                r.text = a
                got = b""
            elif o == "setjson":
                r.json = a
                got = b""
            elif o == "freadline":
                got = r.body_file.readline() if a is None else r.body_file.readline(a)
            elif o == "fread1":
                f = r.body_file
                got = f.read1(a) if hasattr(f, "read1") else f.read(a)
            elif o == "freadinto":
                f = r.body_file
                if hasattr(f, "readinto"):
                    buf = bytearray(a)
                    n = f.readinto(buf)
                    got = bytes(buf[:n])
                else:
                    got = f.read(a)
            elif o == "fiter":
                got = b"".join(iter(r.body_file))
            elif o == "setlimit":
                # class-level state changed between accesses: no answer may depend on it
                self.cls.request_body_tempfile_limit = a
                return None
            elif o == "setlimit_inst":
                r.request_body_tempfile_limit = a          # ... nor on an instance-level override
                return None
            elif o == "setreadable":
                r.is_body_readable = a                     # the public setter of wsgi.input_terminated
                spec_reflag(s, slot.flag())
                return None
            elif o == "setbody_none":
                r.body = None
                got = b""
            elif o == "delbody":
                del r.body
                got = b""
            elif o == "delfile":
                del r.body_file
                got = b""
            elif o == "deltext":
                del r.text
                got = b""
            elif o == "deljson":
                del r.json
                got = b""
            elif o == "badset":
                refusal = {"body-str": "TypeError", "body-bytearray": "TypeError", "body-int": "TypeError",
                           "text-bytes": "TypeError", "file-bytes": "ValueError"}[a]
                if a == "body-str":
                    r.body = "text"
                elif a == "body-bytearray":
                    r.body = bytearray(b"xy")
                elif a == "body-int":
                    r.body = 5
                elif a == "text-bytes":
                    r.text = b"xy"
                else:
                    r.body_file = b"xy"
                got = "accepted"
            elif o == "make_seekable":
                r.make_body_seekable()
                got = None
            elif o == "copy_body":
                r.copy_body()
                got = None
            elif o == "asbytes":
                got = r.as_bytes()
            elif o == "gettext":
                try:
                    got = r.text
                except UnicodeDecodeError:
                    got = "\x00undecodable"
            elif o == "flag":
                # the environ's flags flipped mid-history (a = [name, value]; value None deletes the key)
                name, val = a
                if name == "seekable":
                    if not (s.mode == "held" and s.cur == 0 and not val and r.body_file_raw.tell() == 0):
                        return None          # only a rewound held body may be declared non-seekable again
                    slot.env["webob.is_body_seekable"] = False
                    ss[i] = spec_unseek(s)
                    slot.raw, slot.seek_orig = None, False
                    return None
                key = "wsgi.input_terminated" if name == "term" else "webob.is_body_readable"
                if val is None:
                    slot.env.pop(key, None)
                else:
                    slot.env[key] = val
                spec_reflag(s, slot.flag())
                return None
            elif o == "newinput":
                # wsgi.input replaced between accesses (a = [hex data, CONTENT_LENGTH or None, how])
                data, cl, how = bytes.fromhex(a[0]), a[1], a[2]
                nraw = Raw(data)
                if how == "setter":
                    r.body_file = nraw
                    if cl is not None:
                        r.content_length = cl
                else:
                    slot.env["wsgi.input"] = nraw
                    if cl is None:
                        slot.env.pop("CONTENT_LENGTH", None)
                    else:
                        slot.env["CONTENT_LENGTH"] = str(cl)
                    slot.env["webob.is_body_seekable"] = False
                ncfg = {"data": data, "cl": None if cl is None else str(cl), "seekable": False,
                        "term": slot.env.get("wsgi.input_terminated"), "legacy": bool(slot.env.get("webob.is_body_readable"))}
                ns = spec_init(ncfg)
                ns.form, ns.charset = s.form, s.charset
                ss[i] = ns
                slot.raw, slot.seek_orig, slot.pos0 = nraw, False, 0
                return None
            else:
                raise ValueError(o)
        except self.DE:
            got = DISC
        except Exception as e:  # noqa
            got = fw.Err(type(e).__name__)
        if new is not None:
            self.slots.append(Slot(new, None, None))
        copy_pos = r.body_file_raw.tell() if (o == "copy" and new is not None and hasattr(r.body_file_raw, "tell")) else 0
        where = "%sstep %d %s(%r) on request %d%s" % (self.tag, self.k - 1, o, a if not isinstance(a, bytes) or len(a) < 20 else len(a), i,
                                                   "" if not via else " through wrapper %d" % via)
        if final:
            where = "%sclosing .body on request %d" % (self.tag, i)
        # ---- the property text gives the whole body to every whole-body path in every sequence; after k > 0 bytes of a
        #      NON-seekable body went out through .body_file the code cannot: DisconnectionError with a declared length,
        #      only the remainder without one.  Reported as a known deviation; the history goes on as the code does.
        if s.cur > 0 and s.mode in ("raw", "term") and o in CAPTURE_OPS and not final and \
                not (o == "post" and (s.post or not s.form or s.charset != "UTF-8")):
            if s.mode == "raw" and got == DISC and s.cur < len(s.body) + 1:
                self.side.append((KEY_PARTIAL_DISC, "%s: DisconnectionError although the stream is complete (%d of %d bytes "
                                  "had been read through .body_file before)" % (where, s.cur, len(s.body))))
            elif s.mode == "term" and got != DISC and not isinstance(got, fw.Err):
                self.side.append((KEY_PARTIAL_REST, "%s: only the %d bytes after the %d already read through .body_file "
                                  "are captured" % (where, len(s.body) - s.cur, s.cur)))
        # ---- never consume the server's stream beyond the declared length
        if raw is not None and not slot.seek_orig:
            pos = raw.tell_()
            if c_now is not None and pos > max(c_now, 0) and pos > pos_before:
                key = NEG_KEY if c_now < 0 else "overread:beyond-content-length"
                return (key, "%s: %d bytes pulled from wsgi.input, CONTENT_LENGTH=%s" % (where, pos, c_now))
            if c_now is None and not flag_now and pos > pos_before:
                return ("overread:no-content-length", "%s: %d bytes pulled from wsgi.input although there is neither "
                        "CONTENT_LENGTH nor wsgi.input_terminated" % (where, pos - pos_before))
        if refusal is not None:
            # a documented refusal: the exception, and nothing changed (the closing .body checks the state)
            if got == fw.Err(refusal):
                return None
            return ("%s:%s:not-refused" % (o, a if o == "badset" else refusal), "%s: expected %s, got %s" % (where, refusal, short_repr(got)))
        if isinstance(got, fw.Err) and got != DISC and not (o == "post" and got.name == "DeprecationWarning"):
            return (NEG_KEY if neg else "%s:exception:%s" % (o, got.name), "%s raised %s" % (where, got.name))
        # ---- the answer
        if o in ("fread", "sread") and a is not None and a < 0:
            a = None                                       # read(-1) is read()
        if o in ("setbody_none", "delbody", "delfile", "deltext", "deljson"):
            acc = spec_step(ss, i, "setbody", b"")
            o = "setbody"
        elif o == "asbytes":
            if s.mode == "none":
                acc, got = [b""], (b"" if isinstance(got, bytes) and not got.endswith(b"\r\n\r\n") else got)
            else:
                acc = spec_step(ss, i, "body", None)
                if isinstance(got, bytes) and isinstance(acc[0], bytes):
                    b = acc[0]
                    got = b if (got.endswith(b"\r\n\r\n" + b) if b else True) else b"\x00as_bytes does not end with the body: " + got[-40:]
            o = "body"
        elif o == "gettext":
            acc = spec_step(ss, i, "body", None)
            if isinstance(acc[0], bytes) and isinstance(got, str):
                try:
                    want = acc[0].decode(s.charset)
                except UnicodeDecodeError:
                    want = "\x00undecodable"
                got = acc[0] if got == want else b"\x00text differs: " + got.encode("utf-8", "replace")[:40]
            o = "body"
        elif o in ("settext", "setjson"):
            b = a.encode(s.charset) if o == "settext" else json.dumps(a, separators=(",", ":")).encode(s.charset)
            acc = spec_step(ss, i, "setbody", b)
        elif o in HANDLE_OPS:
            if s.mode == "none":
                acc = [b""]
            else:
                rest = s.body[s.cur:]
                if o == "freadline":
                    want = ref_readline(rest, a)
                elif o == "fiter":
                    want = rest
                elif o == "freadinto":
                    want = rest[:a]
                else:
                    want = None          # read1: any non-empty prefix of at most a bytes (empty only at EOF / a == 0)
                if s.mode == "short":
                    ok = got == DISC
                    if isinstance(got, bytes):
                        full = (o == "freadline" and (got.endswith(b"\n") or (a is not None and len(got) == a))) or \
                               (o == "freadinto" and len(got) == a) or (o == "fread1" and (len(got) > 0 or a == 0))
                        ok = full and rest.startswith(got)
                    if not ok:
                        return (classify(cfg, o, got, [DISC], neg), "%s: %r on a stream shorter than CONTENT_LENGTH" % (where, got))
                    s.cur = s.cur + len(got) if isinstance(got, bytes) else len(s.body)
                    return None
                if want is None:
                    ok = isinstance(got, bytes) and rest.startswith(got) and len(got) <= max(a, 0) and \
                        (len(got) > 0 or a == 0 or not rest)
                    if not ok:
                        return (classify(cfg, o, got, [rest[:a]], neg), "%s returned %r, body from cursor is %r" % (where, got, rest[:40]))
                    s.cur += len(got)
                    return None
                acc = [want]
                if got == want:
                    s.cur += len(want)
        else:
            acc = spec_step(ss, i, o, a)
        if o == "post" and isinstance(acc[0], bytes):
            if got == DISC or not isinstance(got, list):
                return (classify(cfg, o, got, acc, neg), "%s gave %r, expected the form fields of the %d-byte body" % (where, got, len(acc[0])))
            if cfg.get("ctype", URLENC) == "":
                # an EMPTY Content-Type header: cgi.FieldStorage reads the body as one unnamed value, no fields
                if got != []:
                    return ("post:wrong-fields", "%s parsed %r with an empty Content-Type" % (where, got))
            elif cfg.get("method") in ("GET", "HEAD"):
                # cgi.FieldStorage takes the fields of a GET/HEAD request from QUERY_STRING (emptied by webob), not from
                # the body: the body is still captured, the field list is empty
                if got != []:
                    return ("post:wrong-fields", "%s parsed %r for a %s request" % (where, got, cfg["method"]))
            elif acc[0] == MP_BODY and got != [["a", "1"], ["b", "x y"]]:
                return ("post:wrong-fields", "%s parsed %r from the multipart body" % (where, got))
            elif is_ascii_form(acc[0]) and CTYPES[cfg.get("ctype", URLENC)][0] != "multipart/form-data" and got != ref_form(acc[0]):
                return ("post:wrong-fields", "%s parsed %r, the body %r holds %r" % (where, got, acc[0][:60], ref_form(acc[0])))
            ok = True
        elif o == "post" and acc == [2]:
            ok = not isinstance(got, fw.Err)
        elif o in HANDLE_OPS:
            ok = got == acc[0]
        else:
            ok = spec_resolve(ss, i, o, a, acc, got)
        if not ok:
            exp = acc[0]
            return (classify(cfg, o, got, acc, neg), "%s returned %s, expected %s" % (
                where, short_repr(got), short_repr(exp)))
        if o == "copy" and copy_pos != 0:
            return (KEY_COPY_EOF, "%s: the original's wsgi.input is left at offset %d after copy(); its body_file would "
                    "read nothing" % (where, copy_pos))
        # ---- CONTENT_LENGTH tells the truth about a held body; every wrapper over the environ agrees
        s = ss[i]
        if s.mode == "held" and got != DISC:
            if r.content_length != len(s.body) and not (slot.seek_orig and o not in ("setbody", "settext", "setjson") and r.body_file_raw is raw):
                return ("%s:content-length" % o, "%s: CONTENT_LENGTH is %r, the body has %d bytes" % (where, r.content_length, len(s.body)))
            if not r.is_body_seekable:
                return ("%s:not-seekable" % o, "%s: body not flagged seekable afterwards" % where)
        return None


def oracle_history(cfg, hist, final_check=True, via=None):
    """None, or (key, message): the real webob.request against the reference machine, step by step.
    via[k] selects the Request wrapper (long-lived or brand-new, all over ONE environ) that executes step k."""
    run = Run(cfg, cls=private_class(cfg["limit"]) if any(o == "setlimit" for _, o, _ in hist) else None)
    for k, (i, o, a) in enumerate(hist):
        res = run.step(i, o, a, via[k] if via else None)
        if res:
            return res
    return run.result(run.finish() if final_check else None)


def oracle_two(cfg_a, hist_a, cfg_b, hist_b, order, shared_class=True):
    """two independent requests (different environs, different streams) alive at the same time in one process,
    their histories interleaved by `order` (0 = next step of A, 1 = next step of B): each must behave as if alone"""
    cls = private_class(cfg_a["limit"]) if shared_class else None
    runs = [Run(cfg_a, cls, "A: "), Run(cfg_b, cls, "B: ")]
    hists = [list(hist_a), list(hist_b)]
    idx = [0, 0]
    for w in list(order) + [0] * len(hist_a) + [1] * len(hist_b):
        if idx[w] < len(hists[w]):
            i, o, a = hists[w][idx[w]]
            idx[w] += 1
            res = runs[w].step(i, o, a, None)
            if res:
                return res
    for run in runs:
        res = run.finish()
        if res:
            return res
    return runs[0].result(None) or runs[1].result(None)


SHAPES = ["ctor-body", "base-ctor-body", "ctor-body-none", "blank-POST-bytes", "blank-POST-str", "blank-POST-dict",
          "blank-POST-list", "blank-POST-multidict", "blank-body", "blank-body-put", "blank-environ", "from-bytes",
          "from-file-trailing"]


def oracle_shape(shape, b, hist, via=None):
    """the ways of GIVING a request its body at construction: whatever the shape, the body is exactly what was given,
    CONTENT_LENGTH is its length, and every access path afterwards behaves as on a held body"""
    from urllib.parse import urlencode
    import webob.request as wr
    from webob.multidict import MultiDict
    Request, BaseRequest = wr.Request, wr.BaseRequest
    try:
        return _oracle_shape(shape, b, hist, via)
    except Exception as e:  # noqa
        return ("construct:exception:%s" % type(e).__name__, "%s with a %d-byte body raised %s" % (shape, len(b), type(e).__name__))


def _oracle_shape(shape, b, hist, via=None):
    from urllib.parse import urlencode
    import webob.request as wr
    from webob.multidict import MultiDict
    Request, BaseRequest = wr.Request, wr.BaseRequest
    pairs = [("a", "1"), ("b", "x y"), ("a", "\xe9")]
    raw, body, method, ctype, extra = None, b, "POST", URLENC, None
    if shape in ("ctor-body", "base-ctor-body", "ctor-body-none"):
        raw = Raw(b"server-stream-that-must-not-be-touched")
        env = {"REQUEST_METHOD": "POST", "SCRIPT_NAME": "", "PATH_INFO": "/", "SERVER_NAME": "h", "SERVER_PORT": "80",
               "wsgi.url_scheme": "http", "SERVER_PROTOCOL": "HTTP/1.1", "wsgi.input": raw, "CONTENT_LENGTH": "12",
               "CONTENT_TYPE": URLENC}
        if shape == "ctor-body-none":
            body = b""
            r = Request(env, body=None)
        else:
            r = (BaseRequest if shape.startswith("base") else Request)(env, body=b)
    elif shape == "blank-POST-bytes":
        r = Request.blank("/", POST=b)
    elif shape == "blank-POST-str":
        body = b.decode("latin-1").encode("ascii", "replace")
        r = Request.blank("/", POST=body.decode("ascii"))
    elif shape in ("blank-POST-dict", "blank-POST-list", "blank-POST-multidict"):
        arg = {"blank-POST-dict": dict(pairs), "blank-POST-list": list(pairs), "blank-POST-multidict": MultiDict(pairs)}[shape]
        body = urlencode(list(arg.items()) if hasattr(arg, "items") else arg).encode("ascii")
        r = Request.blank("/", POST=arg)
    elif shape == "blank-body":
        r = Request.blank("/", body=b)
        method, ctype = "GET", None
    elif shape == "blank-body-put":
        r = Request.blank("/", method="PUT", body=b, content_type="text/plain")
        method, ctype = "PUT", "text/plain; charset=iso-8859-1"
    elif shape == "blank-environ":
        r = Request.blank("/", environ={"wsgi.input": SeekRaw(b), "CONTENT_LENGTH": str(len(b)), "REQUEST_METHOD": "POST"})
        ctype = None
    else:
        head = b"POST /x HTTP/1.0\r\nContent-Length: %d\r\nContent-Type: %s\r\n\r\n" % (len(b), URLENC.encode())
        if shape == "from-bytes":
            r = Request.from_bytes(head + b)
        else:
            fp = io.BytesIO(head + b + b"NEXT REQUEST")
            r = Request.from_file(fp)
            if fp.tell() != len(head) + len(b):
                return ("from_file:overread", "Request.from_file left the file at %d, the request ends at %d" % (fp.tell(), len(head) + len(b)))
    cfg = {"seekable": True, "cl": str(len(body)), "data": body, "method": method, "ctype": ctype, "term": None,
           "legacy": False, "limit": 10240}
    if shape == "blank-body-put":
        cfg["ctype"] = "text/plain; charset=iso-8859-1"     # only the form gate matters: text/plain is not a form
    if r.content_length != len(body):
        return ("construct:content-length", "%s: CONTENT_LENGTH is %r for a %d-byte body" % (shape, r.content_length, len(body)))
    sreq = SReq(body, 0, "held")
    sreq.form = cfg_form(cfg)[0]
    run = Run.from_request(r, sreq, cfg, None, shape + ": ")
    for k, (i, o, a) in enumerate(hist):
        res = run.step(i, o, a, via[k] if via else None)
        if res:
            return res
    res = run.finish()
    if res is None and raw is not None and raw.pos != 0:
        return ("construct:server-stream-touched", "%s: %d bytes were pulled from the wsgi.input that body= replaced" % (shape, raw.pos))
    return run.result(res)


class ShortRaw(Raw):
    """a stream OUTSIDE the modelled domain: read(n) may return fewer than n bytes although more will come"""

    def __init__(self, data, sizes):
        super().__init__(data)
        self.sizes = list(sizes)

    def read(self, n=-1):
        if n is None or n < 0:
            return super().read(n)
        k = self.sizes.pop(0) if self.sizes else n
        return super().read(min(n, max(1, k)) if n else 0)


def oracle_short_reads(data, cl, sizes, hist):
    """Outside the model's domain (wsgi.input.read(n) returning fewer than n bytes before EOF).  What stays
    meaningful: never more than CONTENT_LENGTH bytes pulled, whatever is returned is the right continuation of the
    body, nothing but DisconnectionError is raised, and after a successful .body the body is held and repeatable."""
    import webob.request as wr
    raw = ShortRaw(data, sizes)
    env = {"REQUEST_METHOD": "POST", "SCRIPT_NAME": "", "PATH_INFO": "/", "SERVER_NAME": "h", "SERVER_PORT": "80",
           "wsgi.url_scheme": "http", "SERVER_PROTOCOL": "HTTP/1.1", "wsgi.input": raw, "CONTENT_LENGTH": str(cl),
           "CONTENT_TYPE": URLENC}
    r = wr.Request(env)
    body = data[:cl]
    cur, held, dead = 0, None, False
    for k, (o, a) in enumerate(hist):
        try:
            if o == "fread":
                got = r.body_file.read() if a is None else r.body_file.read(a)
            elif o == "body":
                got = r.body
            elif o == "sread":
                got = r.body_file_seekable.read()
            else:
                got = r.copy().body
                if r.body_file_raw.tell() != 0:
                    return (KEY_COPY_EOF, "step %d: the original's wsgi.input is left at offset %d after copy()" % (k, r.body_file_raw.tell()))
        except wr.DisconnectionError:
            got = DISC
        except Exception as e:  # noqa
            return ("short-reads:exception:%s" % type(e).__name__, "step %d %s raised %s" % (k, o, type(e).__name__))
        if raw.pos > max(cl, 0):
            return ("short-reads:overread", "step %d %s(%r): %d bytes pulled, CONTENT_LENGTH=%d" % (k, o, a, raw.pos, cl))
        if got == DISC:
            # a short read is taken for a disconnection: bytes already pulled are dropped, the stream is given up
            dead = dead or held is None
            continue
        if dead and held is None:
            if o != "fread" and got:
                return ("short-reads:body-after-disconnect", "step %d %s returned %s after a DisconnectionError had "
                        "dropped part of the stream" % (k, o, short_repr(got)))
            continue
        if held is not None:
            if o == "fread":
                want = held[cur:] if a is None else held[cur:cur + a]
                cur += len(want)
            elif o == "sread":
                want = held[cur:]
                cur = len(held)
            else:
                want = held
                cur = 0
            if got != want:
                return ("short-reads:wrong-bytes", "step %d %s(%r) on the held body returned %s, expected %s" % (k, o, a, short_repr(got), short_repr(want)))
        elif o == "fread":
            if not body[cur:].startswith(got):
                return ("short-reads:wrong-bytes", "step %d fread(%r) returned %s, the body continues %s" % (k, a, short_repr(got), short_repr(body[cur:cur + 40])))
            cur += len(got)
        else:
            if got != body or cur != 0 and got:
                return ("short-reads:wrong-bytes", "step %d %s returned %s, the body is %s" % (k, o, short_repr(got), short_repr(body)))
            held, cur = got, (len(got) if o == "sread" else 0)
    return None


def short_repr(v):
    if isinstance(v, bytes) and len(v) > 32:
        return "%d bytes %r..." % (len(v), v[:16])
    return repr(v)


def oracle_seekable_any(cfg):
    """an input flagged seekable whose length differs from CONTENT_LENGTH: .body and .copy()"""
    import webob.request as wr
    c = parse_cl(cfg["cl"])
    want = cfg["data"][:c] if c <= len(cfg["data"]) else DISC
    for path in ("body", "body-twice", "copy"):
        r, raw = make_request(cfg)
        try:
            if path == "body":
                got = r.body
            elif path == "body-twice":
                got = r.body
                if got != want:
                    return (classify(cfg, "body", got, [want]), ".body returned %s, expected %s" % (short_repr(got), short_repr(want)))
                got = r.body
            else:
                got = r.copy().body
        except wr.DisconnectionError:
            got = DISC
        if got != want:
            o = "copy" if path == "copy" else "body"
            return (classify(cfg, o, got, [want]), "%s on a seekable %d-byte input with CONTENT_LENGTH=%s returned %s, expected %s" % (
                path, len(cfg["data"]), cfg["cl"], short_repr(got), short_repr(want)))
        if raw.hwm > max(c, 0) and path != "copy":
            return ("overread:seekable-input", "%s read up to offset %d of a seekable input with CONTENT_LENGTH=%s" % (path, raw.hwm, cfg["cl"]))
    # the handles: by the text .body_file / .body_file_seekable deliver exactly the first CONTENT_LENGTH bytes too (or the
    # error if there are fewer).  The code hands out the seekable file itself (pinned by the repo's
    # test_body_file_getter_seekable): known deviation, reported under its own key.  .POST / call_application must not raise.
    for path in ("body_file", "body_file_seekable", "post", "app"):
        r, raw = make_request(cfg)
        try:
            if path in ("body_file", "body_file_seekable"):
                f = getattr(r, path)
                try:
                    got = f.read(3) + f.read()
                except wr.DisconnectionError:
                    got = DISC
                if got != want:
                    if f is raw and got == cfg["data"]:
                        return (KEY_SEEKABLE_UNLIMITED, "%s of a seekable %d-byte input with CONTENT_LENGTH=%s is the input file itself: "
                                "reading it returns %s, expected %s" % (path, len(cfg["data"]), cfg["cl"], short_repr(got), short_repr(want)))
                    return ("%s:wrong-bytes:seekable-input" % path, "%s.read() returned %s, expected %s" % (path, short_repr(got), short_repr(want)))
            elif path == "post":
                r.POST
            else:
                got = b"".join(r.call_application(app_reader)[2])[1:]
                if got != cfg["data"][:c]:
                    return ("app:wrong-bytes:seekable-input", "the application read %s" % short_repr(got))
        except Exception as e:  # noqa
            return ("%s:exception:%s:seekable-input" % (path, type(e).__name__), "%s raised %s on a seekable %d-byte input with "
                    "CONTENT_LENGTH=%s" % (path, type(e).__name__, len(cfg["data"]), cfg["cl"]))
    return None


# =========================================================================== generators for the oracle
XOPS = OPS + ["settext", "setjson", "freadline", "fread1", "freadinto", "fiter"]
XWEIGHTS = [5, 6, 4, 3, 1, 3, 2, 2, 1, 1, 2, 2, 2, 1]
TEXTS = ["", "x", "h\xe9llo", "a=1&b=2", "€" * 3]
JSONS = [None, 0, "s", {"a": [1, 2]}, [], {"k": "\xe9"}]


def rand_xhist(rng, cfg, depth):
    n = len(cfg["data"])
    out = []
    for i, o, a in rand_hist(rng, cfg, depth, ops=XOPS, weights=XWEIGHTS):
        if o == "settext":
            a = rng.choice(TEXTS)
        elif o == "setjson":
            a = rng.choice(JSONS)
        elif o in ("fread1", "freadinto"):
            a = rng.choice([0, 1, 2, 5, n, n + 3, 8192, 9000])
        elif o == "freadline":
            a = rng.choice([None, None, 0, 1, 3, n, 9000])
        out.append((i, o, a))
    return out


SHAPE_OPS = ["setbody_none", "delbody", "delfile", "deltext", "deljson", "badset", "make_seekable", "copy_body",
             "asbytes", "gettext", "setreadable", "setlimit_inst"]
SOPS = XOPS + ["setlimit", "flag", "newinput"] + SHAPE_OPS
SWEIGHTS = XWEIGHTS + [2, 4, 3] + [1, 1, 1, 1, 1, 2, 2, 3, 2, 2, 2, 1]


def rand_via(rng, n):
    """which wrapper over the shared environ executes each step"""
    return [rng.choice([0, 0, 1, 2, -1, -1]) for _ in range(n)]


def rand_newinput(rng):
    n = rng.choice([0, 1, 4, 9, 30])
    data = form_bytes(rng, n)
    cl = rng.choice([None, None, n, n, max(0, n - 2), n + 3, 0])
    return [data.hex(), cl, rng.choice(["setter", "environ"])]


def rand_shist(rng, cfg, depth):
    """histories that also flip the environ's flags, replace wsgi.input and change the class-level limit"""
    out = []
    for i, o, a in rand_hist(rng, cfg, depth, ops=SOPS, weights=SWEIGHTS):
        if o == "setlimit":
            a = rng.choice([-1, 0, 1, 5, 10240])
        elif o == "flag":
            a = rng.choice([["term", True], ["term", False], ["term", None], ["legacy", True], ["legacy", None],
                            ["seekable", False], ["seekable", False]])
        elif o == "newinput":
            a = rand_newinput(rng)
        elif o == "badset":
            a = rng.choice(["body-str", "body-bytearray", "body-int", "text-bytes", "file-bytes"])
        elif o == "setreadable":
            a = rng.choice([True, False, 1, 0])
        elif o == "setlimit_inst":
            a = rng.choice([-1, 0, 2, 10240])
        elif o in ("fread", "sread") and a is None and rng.random() < 0.5:
            a = -1
        out.append((i, o, a))
    n = len(cfg["data"])
    fixed = []
    for i, o, a in out:
        if o == "settext":
            a = rng.choice(TEXTS)
        elif o == "setjson":
            a = rng.choice(JSONS)
        elif o in ("fread1", "freadinto"):
            a = rng.choice([0, 1, 2, 5, n, n + 3, 8192])
        elif o == "freadline":
            a = rng.choice([None, None, 0, 1, 3, n, 9000])
        fixed.append((i, o, a))
    return fixed


def stateful_universe():
    x = b"x=1&y=2".hex()
    return [(0, "body", None), (0, "fread", 2), (0, "fread", None), (0, "copy", None), (0, "post", None),
            (0, "setbody", b"q=7"), (1, "body", None), (1, "fread", None),
            (0, "flag", ["term", True]), (0, "flag", ["term", None]), (0, "flag", ["seekable", False]),
            (0, "newinput", [x, 5, "environ"]), (0, "newinput", [x, None, "setter"]), (0, "setlimit", 1)]


def form_bytes(rng, n):
    s = b"&".join(b"k%d=%d" % (rng.randrange(9), rng.randrange(1000)) for _ in range(n // 5 + 1))
    return (s + b"&pad=" + b"x" * n)[:n]


def exhaustive_universe():
    u = []
    for i in (0, 1):
        u += [(i, "body", None), (i, "fread", 2), (i, "fread", None), (i, "sread", None), (i, "copy", None),
              (i, "post", None), (i, "app", None), (i, "setbody", b"q=7")]
    u += [(0, "copy_get", None), (0, "sread", 3), (0, "fread", 0)]
    return u


def exhaustive_cfgs(full):
    data = b"a=1&b=22\nc"
    cfgs = []
    cls = [None, "0", "4", "10", "13", "-1"] if full else [None, "4", "10", "13", "-1"]
    for cl in cls:
        for term in ((None, True) if cl is None or full else (None,)):
            for limit in ((2, 10240) if cl in ("4", "10") or full else (10240,)):
                cfgs.append({"data": data, "cl": cl, "seekable": False, "term": term, "legacy": False, "limit": limit})
    cfgs.append({"data": data, "cl": "10", "seekable": True, "term": None, "legacy": False, "limit": 2})
    cfgs.append({"data": data, "cl": None, "seekable": False, "term": None, "legacy": True, "limit": 10240})
    # non-default configurations: truthy non-bool flag, CONTENT_LENGTH as int, a PUT without content type on BaseRequest,
    # a non-UTF-8 form charset, make_tempfile overridden
    cfgs.append({"data": data, "cl": None, "seekable": False, "term": "yes", "legacy": False, "limit": 2, "stream": "bytesio"})
    cfgs.append({"data": data, "cl": 10, "seekable": False, "term": 0, "legacy": False, "limit": 2, "method": "PUT",
                 "ctype": None, "cls": "base"})
    if full:
        cfgs.append({"data": data, "cl": " 10", "seekable": False, "term": None, "legacy": "x", "limit": 2,
                     "ctype": URLENC + "; charset=latin-1", "tempfile": "spooled"})
    return cfgs


BIG_SIZES = [8191, 8192, 8193, 16384, 16385, 24577, 65534, 65535, 65536, 65537, 73727, 131070, 131071]


def big_cases(rng, count):
    """bodies around io.DEFAULT_BUFFER_SIZE and around the 65535 copy step, limits below/at/above the body"""
    out = []
    for _ in range(count):
        body = rng.choice(BIG_SIZES) + rng.choice([0, 0, 0, -1, 1])
        extra = rng.choice([0, 0, 1, 17, 9000])
        short = rng.random() < 0.2
        n = body - rng.choice([1, 2, 8192]) if short else body + extra
        n = max(n, 0)
        mode = rng.choice(["cl", "cl", "cl", "term"])
        cfg = {"data": pattern(n), "cl": str(body) if mode == "cl" else None, "seekable": False,
               "term": True if mode == "term" else rng.choice([None, False]), "legacy": False,
               "limit": rng.choice([body - 1, body, body + 1, 10240, 65535, 65534, 0])}
        sizes = [None, 1, 8191, 8192, 8193, 65535, 65536, body, body - 1, body + 1]
        paths = ["body", "fread", "sread", "copy", "post", "app", "body"]
        hist, nreq = [], 1
        for _ in range(rng.randrange(1, 5)):
            o = rng.choice(paths)
            i = rng.randrange(nreq)
            a = rng.choice(sizes) if o in ("fread", "sread") else None
            if o == "copy":
                nreq += 1
            hist.append((i, o, a))
        out.append((cfg, hist))
    return out


def seekable_any_cfgs(rng, count):
    out = []
    for _ in range(count):
        n = rng.choice([0, 1, 5, 9, 40, 9000])
        c = max(1, n + rng.choice([-9, -3, -1, 1, 2, 50]))
        out.append({"data": form_bytes(rng, n), "cl": str(c), "seekable": True, "term": rng.choice([None, True]),
                    "legacy": False, "limit": rng.choice([0, 3, 10240])})
    return out



# =========================================================================== seekable inputs LONGER than a big CONTENT_LENGTH
# copy_body reads the raw seekable file directly (no LimitedLengthFile), in steps of min(todo, 65535): the LAST step must ask
# for the remainder only.  Declared lengths around and beyond the copy step, streams with bytes after the body.
SEEKBIG_CLS = [65534, 65535, 65536, 65537, 70000, 131069, 131070, 131071, 140000, 196606]
SEEKBIG_EXTRA = [1, 7, 65535, 70000]
SEEKBIG_LIMITS = [0, 10240, 10 ** 6]
SEEKBIG_PATHS = ["copy", "copy_body", "make_body_seekable+copy", "body=;content_length=;copy", "copy-of-copy"]


def seekbig_cfgs(rng, count):
    out = []
    combos = [(c, e, lim, p) for c in SEEKBIG_CLS for e in SEEKBIG_EXTRA for lim in SEEKBIG_LIMITS for p in SEEKBIG_PATHS]
    # a fixed core that every run visits (each declared length with a short and a long tail, both branches of the temp-file test)
    core = [(c, e, lim, p) for c in SEEKBIG_CLS for (e, lim, p) in ((7, 10240, "copy"), (70000, 10 ** 6, "copy"),
                                                                    (70000, 10240, "copy_body"), (7, 10 ** 6, "copy_body"))]
    core += [(70000, 35000, 10240, "body=;content_length=;copy"), (70000, 35000, 10 ** 6, "body=;content_length=;copy"),
             (70000, 9, 10240, "make_body_seekable+copy"), (131071, 9, 10 ** 6, "copy-of-copy")]
    picks = core + [rng.choice(combos) for _ in range(max(0, count - len(core)))]
    for c, e, lim, p in picks[:max(count, len(core))]:
        out.append({"data_len": c + e, "cl": c, "limit": lim, "path": p})
    return out


def oracle_seekable_big(case):
    """None or (key, message).  The property itself: the copy (resp. the request after copy_body) holds exactly the first
    CONTENT_LENGTH bytes, its CONTENT_LENGTH is unchanged, the original is unchanged, nothing beyond CONTENT_LENGTH is read."""
    import webob.request as wr
    c, n, path = case["cl"], case["data_len"], case["path"]
    data = pattern(n)
    want = data[:c]
    cfg = {"data": data, "cl": str(c), "seekable": True, "term": None, "legacy": False, "limit": case["limit"]}
    what = "%s on a seekable %d-byte input with CONTENT_LENGTH=%d, request_body_tempfile_limit=%d" % (path, n, c, case["limit"])
    try:
        if path == "body=;content_length=;copy":
            cls = req_class(case["limit"])
            r = cls.blank("/", method="PUT")
            r.body = data
            r.content_length = c
            raw = None
        else:
            r, raw = make_request(cfg)
        if path == "make_body_seekable+copy":
            r.make_body_seekable()
        if path == "copy_body":
            r.copy_body()
            tgt = r
        elif path == "copy-of-copy":
            tgt = r.copy().copy()
        else:
            tgt = r.copy()
        if raw is not None and raw.hwm > c:
            return ("overread:seekable-input:copy_body", "%s read up to offset %d" % (what, raw.hwm))
        if tgt.content_length != c:
            return ("copy:content-length-changed:seekable-input", "%s: CONTENT_LENGTH of the result is %r" % (what, tgt.content_length))
        got = tgt.body
        if got != want:
            return ("copy:wrong-bytes:seekable-input", "%s: body of the result has %d bytes (%s), expected the first %d" % (
                what, len(got), "a prefix-extension" if got[:c] == want else "different bytes", c))
        if tgt.content_length != c or tgt.body != want:
            return ("copy:not-repeatable:seekable-input", "%s: second .body / CONTENT_LENGTH differ" % what)
        if tgt is not r and (r.content_length != c or r.body != want):
            return ("copy:original-changed:seekable-input", "%s: the original now has CONTENT_LENGTH=%r, %d body bytes" % (
                what, r.content_length, len(r.body)))
    except wr.DisconnectionError:
        return ("copy:spurious-disconnect:seekable-input", "%s raised DisconnectionError" % what)
    return None


def corr_seekbig_cases():
    """the same class against the model (run_obs with the source's chunk = 65535; cb_loop reads min(todo, chunk) per
    iteration): seekable `pattern n` inputs longer than a declared length beyond the copy step"""
    cases = []
    for c, e, lim in ((65536, 7, 10240), (70000, 70000, 10240), (70000, 9, 10 ** 6), (131071, 65535, 0), (131069, 1, 10 ** 6)):
        cfg = {"data": pattern(c + e), "cl": str(c), "seekable": True, "term": None, "legacy": False, "limit": lim}
        hist = [(0, "copy", None), (1, "body", None), (0, "body", None)]
        obs, advs = run_impl(cfg, hist)
        cases.append((coq_case(cfg, hist, advs), obs, {"cfg": jcfg(cfg), "hist": jhist(hist), "pattern": True, "seekbig": True}))
    return cases



# =========================================================================== the CONTENT_LENGTH text layer
IMPORTS_TEXT = ["Webob.Model.C10_BodyStream", "Webob.Model.C10_ContentLength"]
BIG = 10 ** 30
INT_WS = " \t\n\v\f\r\x85\xa0"          # what int() strips from a latin-1 str (not \x1c-\x1f)
IN_TYPE_TEXT = "(bytes * option str * bool * option bool * bool * Z * list step)"
FN_TEXT = ("(fun c => match c with (s, t, sk, tm, lg, lim, hist) => run_obs_text %d s t sk tm lg lim hist end)" % CHUNK)
FN_PARSE = "parse_obs"


def bigfix(v):
    """integers beyond 10^30 travel as big-endian octets (mirrors Lib/C12_PyInt.vint)"""
    if isinstance(v, bool) or not isinstance(v, int):
        return v
    if abs(v) < BIG:
        return v
    a = abs(v)
    return ["big", v < 0, a.to_bytes((a.bit_length() + 7) // 8, "big")]


def ctext(t):
    return copt(None if t is None else cstr(t))


def latin1(t):
    return t is None or all(ord(c) < 256 for c in t)


CL_BOUNDARY = ["0", "00", "+5", " 5 ", "5_0", "-1", "", "-0", "+0", "5", "05", "005", " 5", "5 ", "\t5\n", "\x0b5\x0c\r",
               "\xa05\x85", "1_0_0", "+1_0", "-1_0", " +0_6 ", "-5", "-100", " -3 "]
CL_MALFORMED = [" ", "+", "-", "_", "5_", "_5", "5__0", "+-5", "-+5", "++5", "--1", "- 5", "+ 5", "5 5", "5-", "5+", "5.0", "5.",
                ".5", "1e2", "0x10", "0b1", "0o7", "12a", "a12", "abc", "None", "1,000", "5;", "5\x00", "\x005", "\x1c5", "5\x1f",
                "\x1d", "\xb2", "\xbd", "\xb9", "5\xb2", "-_5", "+_5", "0_", "_", "5_ ", " _5", "5 ", "inf", "nan", "1L", "0xA",
                "5 _0", "५", "٥", "５", "٥٠", " ٥ "]
CL_LONG = ["0" * 4299 + "5", "0" * 4300 + "5", "0" * 4299 + "7" + " ", " " * 60 + "7", "0_" * 4299 + "9", "0_" * 4300 + "9",
           "+" + "0" * 4299 + "4", "-" + "0" * 4299 + "4", "-" + "0" * 4300 + "4", "0" * 9000]
CL_HUGE = ["1" * 4300, "1" * 4301, "9" * 5000, "-" + "1" * 4300, "1" + "_1" * 4299, "1" + "_1" * 4300, "1" * 31, "-" + "9" * 40]


def lenient(rng, n):
    """a text int() reads as n, using every leniency: zeros, sign, underscores, whitespace padding"""
    d = str(abs(n))
    if rng.random() < 0.4:
        d = "0" * rng.choice([1, 1, 2, 7]) + d
    if len(d) > 1 and rng.random() < 0.35:
        k = rng.randrange(1, len(d))
        d = d[:k] + "_" + d[k:]
    sign = "-" if n < 0 else rng.choice(["", "", "+"])
    pad = lambda: "".join(rng.choice(INT_WS) for _ in range(rng.choice([0, 0, 1, 1, 2, 3])))
    return pad() + sign + d + pad()


def damaged(rng, t):
    """one edit away from t: a character inserted, doubled, dropped or replaced"""
    junk = "_+-. ex\x1c\xb2,\x00a٥"
    k = rng.randrange(len(t) + 1)
    u = rng.random()
    if u < 0.5 or not t:
        return t[:k] + rng.choice(junk) + t[k:]
    k = min(k, len(t) - 1)
    if u < 0.65:
        return t[:k] + t[k] + t[k:]
    if u < 0.8:
        return t[:k] + t[k + 1:]
    return t[:k] + rng.choice(junk) + t[k + 1:]


def rand_cl_text(rng, n):
    """a CONTENT_LENGTH text for a stream of n bytes: valid, lenient-valid, non-positive, malformed"""
    v = rng.choice([n, n, n, max(0, n - 1), max(0, n - rng.choice([1, 2, 3, max(1, n // 2)])), n + 1, n + rng.choice([2, 10, 9000]),
                    0, 1, 5, rng.randrange(0, 60)])
    u = rng.random()
    if u < 0.22:
        return str(v)
    if u < 0.50:
        return lenient(rng, v)
    if u < 0.58:
        return lenient(rng, -rng.choice([0, 1, 2, 5, 100, max(1, n)]))
    if u < 0.76:
        return damaged(rng, rng.choice([str(v), lenient(rng, v)]))
    if u < 0.86:
        return rng.choice(CL_MALFORMED)
    if u < 0.94:
        return rng.choice(CL_BOUNDARY)
    if u < 0.97:
        return rng.choice(CL_LONG)
    return "".join(rng.choice("0123456789 +-_\t.\xa0") for _ in range(rng.randrange(0, 6)))


def parse_cases(rng, count):
    """real descriptors.parse_int_safe / parse_int on texts (None = key absent) vs the model's parse_obs"""
    from webob.descriptors import parse_int_safe, parse_int
    texts = [None] + CL_BOUNDARY + CL_MALFORMED + CL_LONG + CL_HUGE
    texts += [str(k) for k in (0, 1, 9, 10, 99, 100, 65535, 65536, 2 ** 31, 2 ** 63, 10 ** 29, 10 ** 30, 10 ** 31)]
    while len(texts) < count:
        texts.append(rand_cl_text(rng, rng.choice([0, 1, 5, 13, 40, 70000])))
    cases = []
    for t in texts:
        if not latin1(t):
            continue          # outside the model's domain (the oracle keeps them)
        out = [bigfix(parse_int_safe(t)), bigfix(fw.catch(parse_int, t))]
        cases.append((ctext(t), out, {"text": t}))
    return cases


def text_body_oracle(t):
    """the property oracle on a request whose CONTENT_LENGTH is the text t: every whole-body path, with and without the
    terminated flag, over a stream with bytes beyond any small announced length"""
    for term in (None, True):
        for hist in ([(0, "body", None), (0, "body", None)], [(0, "fread", None)], [(0, "fread", 3), (0, "fread", None)],
                     [(0, "copy", None), (1, "body", None)], [(0, "post", None)], [(0, "sread", None)]):
            cfg = {"data": b"a=1&bc=23XYZ", "cl": t, "seekable": False, "term": term, "legacy": False, "limit": 4}
            res = oracle_history(cfg, hist)
            if res and not res[0].startswith("partial-body_file-read-then-whole-body"):
                return res, cfg, hist
    return None


def text_corr_cases(rng, count, depth):
    """real BaseRequest over an environ with a generated CONTENT_LENGTH text: content_length, is_body_readable and the
    step-by-step observations of a history, vs run_obs_text (= parse_int_safe model composed with the body model)"""
    import webob.request as wr
    cases = []
    fixed = [t for t in CL_BOUNDARY + CL_MALFORMED + CL_LONG if latin1(t)]
    while len(cases) < count:
        cfg = rand_cfg(rng, 40, seekable=False)
        n = len(cfg["data"])
        cfg["cl"] = fixed[len(cases)] if len(cases) < len(fixed) else rand_cl_text(rng, n)
        c = parse_cl(cfg["cl"])
        if not latin1(cfg["cl"]) or (c is not None and abs(c) > 80000):
            continue
        if rng.random() < 0.15:
            cfg["cls"] = "base"
        if c is not None and 0 < c <= 60 and rng.random() < 0.2:
            cfg["seekable"] = True                      # a seekable input holds exactly the declared bytes
            cfg["data"] = rand_bytes(rng, c)
        hist = [(0, "body", None)] if rng.random() < 0.25 else rand_hist(rng, cfg, rng.randrange(1, depth + 1))
        r, _ = make_request(cfg)
        head = [bigfix(r.content_length), bool(r.is_body_readable)]
        obs, advs = run_impl(cfg, hist)
        steps = clist("(%s, %s, %s)" % (cnat(i), cop(o, a), clist(cnat(x) for x in adv)) for (i, o, a), adv in zip(hist, advs))
        lit = "(%s, %s, %s, %s, %s, %s, %s)" % (
            cbytes(cfg["data"]), ctext(cfg["cl"]), cbool(cfg["seekable"]),
            copt(None if cfg["term"] is None else cbool(bool(cfg["term"]))), cbool(bool(cfg["legacy"])), cZ(cfg["limit"]), steps)
        cases.append((lit, head + [obs], {"cfg": jcfg(cfg), "hist": jhist(hist)}))
    return cases


def check_text_source(ctx):
    """fail closed: the text model mirrors this exact shape of descriptors.parse_int / parse_int_safe and of the
    content_length descriptor; if the source no longer has it, say so rather than guess"""
    import ast
    import inspect
    import webob.descriptors as wd
    import webob.request as wr
    want = {
        "parse_int": "def parse_int(value):\n    if value is None or value == '':\n        return None\n    return int(value)",
        "parse_int_safe": "def parse_int_safe(value):\n    if value is None or value == '':\n        return None\n    try:\n"
                          "        return int(value)\n    except ValueError:\n        return None",
    }
    for name, text in want.items():
        try:
            got = ast.unparse(ast.parse(inspect.getsource(getattr(wd, name))))
        except Exception as e:  # noqa
            got = "<%s>" % type(e).__name__
        if got != ast.unparse(ast.parse(text)):
            ctx.broken.append("webob.descriptors.%s no longer has the shape modelled in coq/Model/C10_ContentLength.v: %s"
                              % (name, got[:300]))
    src = inspect.getsource(wr.BaseRequest)
    import re
    m = re.search(r"content_length\s*=\s*converter\(\s*environ_getter\(\s*\"CONTENT_LENGTH\"\s*,\s*None\s*,[^)]*\)\s*,\s*"
                  r"parse_int_safe\s*,\s*serialize_int\s*,", src)
    if not m:
        ctx.broken.append("BaseRequest.content_length is no longer converter(environ_getter('CONTENT_LENGTH', None), "
                          "parse_int_safe, serialize_int): the text model of coq/Model/C10_ContentLength.v does not apply")


def run_text_layer(ctx):
    check_text_source(ctx)
    # ---- correspondence 1: the parse functions themselves
    cases = parse_cases(ctx.sub_rng("corr-parse"), ctx.scale(700, 4000))
    bad = ctx.corr("parse_int_safe-texts", IMPORTS_TEXT, FN_PARSE, cases, in_type="option str", shard=150)
    for i in bad[:6]:
        t = cases[i][2]["text"]
        hit = text_body_oracle(t)
        if hit:
            report(ctx, hit[0], hit[1], hit[2], "corr-parse")
        else:
            ctx.broken.append("correspondence parse_int_safe-texts: model and implementation disagree on %r: %r"
                              % (t if t is None else t[:80], jsonable_short(cases[i][1])))
    # ---- correspondence 2: content_length / is_body_readable / body and the other paths over the TEXT
    cases = text_corr_cases(ctx.sub_rng("corr-text"), ctx.scale(600, 4000), ctx.scale(5, 9))
    bad = ctx.corr("content-length-texts", IMPORTS_TEXT, FN_TEXT, cases, in_type=IN_TYPE_TEXT, shard=150)
    for i in bad[:6]:
        cfg, hist = unj(cases[i][2])
        res = oracle_history(cfg, hist)
        if res:
            report(ctx, res, cfg, hist, "corr-text")
        else:
            ctx.broken.append("correspondence content-length-texts: model and implementation disagree on %s"
                              % json.dumps(cases[i][2])[:1500])
    # ---- oracle: the reference machine (which parses with Python's int(), independently of webob) on many more texts,
    # also beyond latin-1 and with huge values
    rt = ctx.sub_rng("oracle-text")
    m = ctx.scale(6000, 60000)
    fixed = CL_BOUNDARY + CL_MALFORMED + CL_LONG + CL_HUGE
    nontrivial = 0
    for k in range(m):
        cfg = rand_cfg(rt, 50, seekable=False)
        cfg["cl"] = fixed[k] if k < len(fixed) else rand_cl_text(rt, len(cfg["data"]))
        if rt.random() < 0.5:
            cfg["data"] = form_bytes(rt, len(cfg["data"]))
        hist = rand_xhist(rt, cfg, rt.randrange(1, 7))
        nontrivial += cfg["cl"] != str(parse_cl(cfg["cl"]))
        res = oracle_history(cfg, hist)
        if res:
            report(ctx, res, cfg, hist, "content-length-texts")
    ctx.oracle_count("content-length-texts", m, nontrivial)


def jsonable_short(v):
    return [x if not isinstance(x, list) else "big" for x in v] if isinstance(v, list) else v


# =========================================================================== the check
# what coq/Model/C10_BodyStream.v mirrors by hand (its comments name the same functions)
MODELLED = [
    "webob.request:BaseRequest.body_file",             # body_file            (getter: HEmpty / HRaw / HWrap, wrapper cache)
    "webob.request:BaseRequest.body_file_seekable",    # rstep SeekRead
    "webob.request:BaseRequest.body",                  # get_body             (getter, incl. the short-read check)
    "webob.request:BaseRequest.body.fset",             # set_body
    "webob.request:BaseRequest.is_body_readable",      # readable / term_flag
    "webob.request:BaseRequest.is_body_readable.fset", # set_term (temp-file branch of copy_body)
    "webob.request:BaseRequest.make_body_seekable",    # make_seekable
    "webob.request:BaseRequest.copy_body",             # copy_body / cb_loop
    "webob.request:BaseRequest.copy",                  # rstep Copy
    "webob.request:BaseRequest.copy_get",              # rstep CopyGet
    "webob.request:BaseRequest.POST",                  # rstep Post (cache, make seekable, rewinds; parser external)
    "webob.request:BaseRequest.call_application",      # rstep CallApp (rewind of a seekable body)
    "webob.request:LimitedLengthFile.__init__",        # mkW [] clen inp
    "webob.request:LimitedLengthFile.readinto",        # llf_readinto
    "webob.request:DisconnectionError",                # res.Disc
    # the TEXT layer (coq/Model/C10_ContentLength.v; int() itself is C12's py_int, Lib/C12_PyInt.v)
    "webob.descriptors:parse_int",                     # parse_int
    "webob.descriptors:parse_int_safe",                # parse_int_safe / content_length / readable_text
]
# exercised on the real code by the oracle / correspondence but not mirrored in Gallina
ORACLE_ONLY = [
    "webob.descriptors:environ_getter",                # is_body_seekable / body_file_raw: plain environ fields in the model
    "webob.request:BaseRequest.body_file.fset",        # wsgi.input replaced through the setter
    "webob.request:BaseRequest._text__set",
    "webob.request:BaseRequest._json_body__set",
    "webob.request:BaseRequest.make_tempfile",
    "webob.request:BaseRequest._check_charset",
    "webob.compat:cgi_FieldStorage",
    "webob.multidict:MultiDict.from_fieldstorage",
]


def corr_cases(ctx, rng, n, maxlen, depth, knobs=False, form=True):
    cases = []
    for _ in range(n):
        cfg = rand_cfg(rng, maxlen)
        if knobs:
            cfg = add_knobs(rng, cfg, corr=True)
            if cfg_form(cfg)[0] != form:
                cfg["method"], cfg["ctype"] = ("POST", URLENC) if form else ("GET", "application/json")
        hist = rand_hist(rng, cfg, rng.randrange(1, depth + 1))
        # half of the histories are executed through several Request wrappers (long-lived and brand-new) over the one
        # environ: the model has no per-wrapper state, so its answer must be the same
        via = rand_via(rng, len(hist)) if rng.random() < 0.5 else None
        obs, advs = run_impl(cfg, hist, via=via)
        cases.append((coq_case(cfg, hist, advs), obs, {"cfg": jcfg(cfg), "hist": jhist(hist), "via": via}))
    return cases


def corr_big_cases(rng, count):
    cases = []
    for cfg, hist in big_cases(rng, count):
        obs, advs = run_impl(cfg, hist)
        cases.append((coq_case(cfg, hist, advs), obs, {"cfg": jcfg(cfg), "hist": jhist(hist), "pattern": True}))
    return cases


def report(ctx, res, cfg, hist, source, via=None):
    key, msg = res
    ctx.fail(key, msg, {"kind": "history", "cfg": jcfg(cfg), "hist": jhist(hist), "via": via}, True, source)


def consistent_cfg(rng, maxlen, knobs=True):
    cfg = rand_cfg(rng, maxlen)
    if cfg["seekable"]:
        cfg["cl"] = str(len(cfg["data"]))
    if rng.random() < 0.6:
        cfg["data"] = form_bytes(rng, len(cfg["data"]))
    if knobs and rng.random() < 0.5:
        cfg = add_knobs(rng, cfg)
        if cfg["seekable"]:
            cfg["cl"] = str(len(cfg["data"]))
    return cfg


def run(ctx):
    ctx.modelled(MODELLED)
    ctx.extra["oracle_only"] = ORACLE_ONLY
    ctx.build(["Props/C10.vo"])

    # ---- correspondence: model vs implementation on histories of access paths
    rng = ctx.sub_rng("corr")
    groups = [("histories", corr_cases(ctx, rng, ctx.scale(1200, 9000), 48, ctx.scale(9, 14)), 250),
              ("configurations", corr_cases(ctx, ctx.sub_rng("corr-knobs"), ctx.scale(500, 3000), 48, ctx.scale(9, 14),
                                            knobs=True), 250),
              ("configurations-not-a-form", corr_cases(ctx, ctx.sub_rng("corr-noform"), ctx.scale(300, 1500), 48,
                                                       ctx.scale(9, 14), knobs=True, form=False), 250),
              ("buffer-and-chunk-boundaries", corr_big_cases(ctx.sub_rng("corr-big"), ctx.scale(20, 48)), 1),
              ("seekable-longer-than-big-content-length", corr_seekbig_cases(), 1)]
    r2l = ctx.sub_rng("corr-two")
    two = []
    for _ in range(ctx.scale(500, 3000)):
        ca, cb = rand_cfg(r2l, 40), rand_cfg(r2l, 40)
        hist = rand_hist2(r2l, ca, cb, r2l.randrange(2, ctx.scale(10, 14)))
        obs, advs = run_impl2(ca, cb, hist)
        two.append((coq_case2(ca, cb, hist, advs), obs, {"a": jcfg(ca), "b": jcfg(cb), "hist": jhist(hist)}))
    bad = ctx.corr("two-live-requests", IMPORTS, FN2, two, in_type=IN_TYPE2, shard=250)
    for i in bad[:6]:
        ctx.broken.append("correspondence two-live-requests: model and implementation disagree on %s" % json.dumps(two[i][2])[:1500])
    for name, cases, shard in groups:
        bad = ctx.corr(name, IMPORTS, FN_NOFORM if name.endswith("not-a-form") else FN, cases, in_type=IN_TYPE, shard=shard)
        for i in bad[:6]:
            cfg, hist = unj(cases[i][2])
            via = cases[i][2].get("via")
            res = oracle_history(cfg, hist, via=via)
            if res:
                report(ctx, res, cfg, hist, "corr", via)
            else:
                ctx.broken.append("correspondence %s: model and implementation disagree on %s" % (
                    name, json.dumps(cases[i][2])[:1500]))

    # ---- the CONTENT_LENGTH text layer: parse_int_safe model, composed with the body model
    run_text_layer(ctx)

    # ---- oracle 1: every history to a fixed depth over the access paths, on the original and its first copy
    U = exhaustive_universe()
    cfgs = exhaustive_cfgs(ctx.thorough)
    cnt = 0
    deep = 0
    for ci, cfg in enumerate(cfgs):
        # quick: depth 3 everywhere, depth 4 on the declared-length configurations with a small temp-file limit and
        # on the terminated input; thorough: depth 4 everywhere
        if ctx.thorough:
            d_here = 4        # (depth 5 is run on the stateful universe below)
        else:
            d_here = 4 if (cfg["cl"] == "10" and cfg["limit"] == 2 and not cfg["seekable"]) or \
                (cfg["cl"] is None and cfg["term"] is True) else 3
        deep = max(deep, d_here)
        for d in range(1, d_here + 1):
            for hist in itertools.product(U, repeat=d):
                cnt += 1
                res = oracle_history(cfg, list(hist), final_check=(d < 5))
                if res:
                    report(ctx, res, cfg, list(hist), "exhaustive")
    depth = deep
    ctx.oracle_count("exhaustive", cnt, cnt)

    # ---- oracle 2: random histories incl. text/json setters and the other file methods of body_file
    r2 = ctx.sub_rng("oracle-random")
    m = ctx.scale(25000, 200000)
    for _ in range(m):
        cfg = rand_cfg(r2, 70)
        if cfg["seekable"]:
            cfg["cl"] = str(len(cfg["data"]))
        if r2.random() < 0.6:
            cfg["data"] = form_bytes(r2, len(cfg["data"]))
        hist = rand_xhist(r2, cfg, r2.randrange(1, 12))
        res = oracle_history(cfg, hist)
        if res:
            report(ctx, res, cfg, hist, "random")
    ctx.oracle_count("random", m, m)

    # ---- oracle 3: bodies around the buffer size and the 65535 copy step, limits below/at/above
    r3 = ctx.sub_rng("oracle-big")
    m = ctx.scale(1500, 7000)
    for cfg, hist in big_cases(r3, m):
        res = oracle_history(cfg, hist)
        if res:
            report(ctx, res, cfg, hist, "big")
    ctx.oracle_count("big", m, m)

    # ---- oracle 4: inputs flagged seekable whose length differs from CONTENT_LENGTH (.body / .copy())
    r4 = ctx.sub_rng("oracle-seekable")
    m = ctx.scale(2000, 40000)
    for cfg in seekable_any_cfgs(r4, m):
        res = oracle_seekable_any(cfg)
        if res:
            ctx.fail(res[0], res[1], {"kind": "seekable-any", "cfg": jcfg(cfg)}, True, "seekable-any")
    ctx.oracle_count("seekable-any", m, m)

    # ---- oracle 4b: seekable inputs LONGER than a declared length around / beyond the 65535 copy step: copy(), copy_body(),
    #      make_body_seekable, body= + content_length=, small and large temp-file limits
    r4b = ctx.sub_rng("oracle-seekable-big")
    sb = seekbig_cfgs(r4b, ctx.scale(70, 600))
    for case in sb:
        res = oracle_seekable_big(case)
        if res:
            ctx.fail(res[0], res[1], dict(case, kind="seekable-big"), True, "seekable-big")
    ctx.oracle_count("seekable-big", len(sb), len(sb))

    # ---- oracle 5: ONE environ served through several Request objects (long-lived and brand-new wrappers), with the
    #      environ's flags flipped, wsgi.input replaced and the class-level temp-file limit changed mid-history
    r5 = ctx.sub_rng("oracle-stateful")
    m = ctx.scale(20000, 180000)
    for _ in range(m):
        cfg = consistent_cfg(r5, 60)
        hist = rand_shist(r5, cfg, r5.randrange(2, 13))
        via = rand_via(r5, len(hist))
        res = oracle_history(cfg, hist, via=via)
        if res:
            report(ctx, res, cfg, hist, "stateful-random", via)
    ctx.oracle_count("stateful-random", m, m)
    SU = stateful_universe()
    cnt = 0
    for ci, cfg in enumerate([c for c in cfgs if (c["cl"] in (None, "10") and c["limit"] in (2, 10240))][:ctx.scale(3, 6)]):
        sdepth = 5 if (ctx.thorough and ci < 1) else 4
        for d in range(1, sdepth + 1):
            for hist in itertools.product(SU, repeat=d):
                cnt += 1
                via = [(k + cnt) % 3 - 1 for k in range(d)]
                res = oracle_history(cfg, list(hist), final_check=(d < 5), via=via)
                if res:
                    report(ctx, res, cfg, list(hist), "stateful-exhaustive", via)
    ctx.oracle_count("stateful-exhaustive", cnt, cnt)

    # ---- oracle 6: two independent requests alive at the same time in one process (module/class-level state):
    #      their histories interleaved, each must behave as if it were alone; one class shared, its limit flipped
    r6 = ctx.sub_rng("oracle-two")
    m = ctx.scale(10000, 80000)
    for _ in range(m):
        ca, cb = consistent_cfg(r6, 60), consistent_cfg(r6, 60)
        if r6.random() < 0.3:
            n = r6.choice([8191, 8192, 8200, 9000, 20000])       # read-ahead larger than what is asked for
            ca = dict(ca, data=pattern(n + r6.choice([0, 7])), cl=str(n), seekable=False)
        cb["limit"] = ca["limit"]
        ha, hb = rand_shist(r6, ca, r6.randrange(1, 8)), rand_shist(r6, cb, r6.randrange(1, 8))
        order = [r6.randrange(2) for _ in range(len(ha) + len(hb))]
        res = oracle_two(ca, ha, cb, hb, order)
        if res:
            ctx.fail(res[0], res[1], {"kind": "two", "a": {"cfg": jcfg(ca), "hist": jhist(ha)},
                                      "b": {"cfg": jcfg(cb), "hist": jhist(hb)}, "order": order}, True, "two-live")
    ctx.oracle_count("two-live", m, m)

    # ---- oracle 7: the same cases in a different order within this process (module-level caching would show)
    r7 = ctx.sub_rng("oracle-order")
    batch = []
    for _ in range(ctx.scale(3000, 20000)):
        cfg = consistent_cfg(r7, 60)
        batch.append((cfg, rand_xhist(r7, cfg, r7.randrange(1, 9))))
    shuffled = list(batch)
    r7.shuffle(shuffled)
    for seq in (batch, list(reversed(batch)), shuffled):
        prev = []
        for cfg, hist in seq:
            res = oracle_history(cfg, hist)
            if res:
                ctx.fail(res[0], res[1], {"kind": "sequence", "cases": [{"cfg": jcfg(c), "hist": jhist(h)}
                                                                        for c, h in prev[-3:] + [(cfg, hist)]]}, True, "order")
            prev.append((cfg, hist))
    ctx.oracle_count("order", 3 * len(batch), len(batch))

    # ---- oracle 8: the ways of giving a request its body at construction (constructor keyword, Request.blank with
    #      POST= bytes / str / dict / list / MultiDict, body=, environ=, BaseRequest, from_bytes / from_file)
    r8 = ctx.sub_rng("oracle-shapes")
    m = ctx.scale(4000, 60000)
    for _ in range(m):
        shape = r8.choice(SHAPES)
        b = form_bytes(r8, r8.choice([0, 1, 5, 12, 40])) if r8.random() < 0.7 else rand_bytes(r8, r8.choice([0, 3, 20]))
        hist = rand_shist(r8, {"data": b}, r8.randrange(1, 9))
        via = rand_via(r8, len(hist))
        res = oracle_shape(shape, b, hist, via)
        if res:
            ctx.fail(res[0], res[1], {"kind": "shape", "shape": shape, "body": b.hex(), "hist": jhist(hist), "via": via}, True, "shapes")
    ctx.oracle_count("shapes", m, m)

    # ---- oracle 9 (outside the model's domain): a wsgi.input whose read(n) returns fewer than n bytes before EOF
    r9 = ctx.sub_rng("oracle-short-reads")
    m = ctx.scale(4000, 60000)
    for _ in range(m):
        n = r9.choice([0, 1, 5, 30, 9000])
        data = pattern(n + r9.choice([0, 4]))
        cl = max(0, n + r9.choice([0, 0, 0, -1, 3]))
        sizes = [r9.choice([1, 2, 3, 7, 100, 8192]) for _ in range(r9.randrange(0, 12))]
        hist = [[r9.choice(["fread", "fread", "body", "sread", "copy"]), r9.choice([None, 0, 1, 2, 5, n, 8192])]
                for _ in range(r9.randrange(1, 6))]
        res = oracle_short_reads(data, cl, sizes, hist)
        if res:
            ctx.fail(res[0], res[1], {"kind": "short", "data": data.hex(), "cl": cl, "sizes": sizes, "hist": hist}, True, "short-reads")
    ctx.oracle_count("short-reads", m, m)

    ctx.extra["rule"] = (
        "correspondence: random histories (<=%d steps) of body / body_file.read(k) / body_file_seekable.read(k) / copy / "
        "copy_get / POST / call_application / body= on the original request and its copies, over an instrumented "
        "non-seekable or seekable wsgi.input with CONTENT_LENGTH absent / empty / 0 / negative / shorter / equal / longer "
        "than the stream, input_terminated and legacy flags, temp-file limits below/at/above the body; every step compares "
        "result, CONTENT_LENGTH, seekable/readable flags, kind and position of wsgi.input and bytes pulled from the "
        "server's stream; plus bodies around 8192 and 65535.  oracle: all %d^d histories to depth %d on %d configurations, "
        "random histories with text/json setters and readline/read1/readinto/iteration, large bodies, seekable inputs of "
        "any length; STATEFUL sweeps: one environ served through several long-lived and brand-new Request wrappers, "
        "wsgi.input_terminated / webob.is_body_readable / webob.is_body_seekable flipped, wsgi.input replaced (setter and "
        "raw environ) and the class-level request_body_tempfile_limit changed mid-history; two independent live requests "
        "interleaved in one process (also as a correspondence with the model world init_world2); the same batch of cases "
        "run forward, reversed and shuffled; every counted case runs at least one access path and a closing .body on "
        "every request"
        % (ctx.scale(9, 14), len(U), depth, len(cfgs)))
    ctx.extra["exhaustive"] = False
    ctx.assume += [
        "wsgi.input.read(n) returns n bytes unless the stream ends (WSGI file semantics); a server stream that returns "
        "short reads while more data is coming would be reported as disconnected by LimitedLengthFile",
        "theorems about handles assume that an input flagged webob.is_body_seekable holds exactly CONTENT_LENGTH bytes; for "
        "other lengths .body and .copy() are proved (C10_body_seekable_any_length) and checked, while .body_file / "
        ".body_file_seekable hand out the file itself: reported by the oracle as the known deviation "
        "seekable-input:body_file-unlimited (witness theorem C10_seekable_body_file_unlimited_refuted)",
        "after part of a NON-seekable body has been consumed through .body_file the whole-body paths raise "
        "DisconnectionError (declared length) or capture only the remainder (terminated input): the model and the "
        "specification machine reproduce this, the oracle reports it as the known deviations "
        "partial-body_file-read-then-whole-body:* (witness theorems C10_partial_read_then_body*_refuted)",
        "call_application: the application is modelled as reading only a seekable (rewound) body; on a non-seekable "
        "input webob passes the environ through untouched",
        "CONTENT_LENGTH: the body model takes the parsed value; coq/Model/C10_ContentLength.v models descriptors.parse_int / "
        "parse_int_safe on the TEXT (int() = C12's py_int) for texts with code points < 256 and the C10_text_* theorems start "
        "from the text; texts beyond latin-1 (non-ASCII decimal digits, which int() accepts) and int-typed values are "
        "exercised by the oracle only, whose reference machine parses with Python's int()",
        "webob.is_body_seekable is switched off mid-history only on a held body whose file is at position 0 (otherwise "
        "the private flag lies about the file); it is never switched on for a stream without seek()",
    ]
    ctx.trusted += [
        "io.BufferedReader abstracted as an adversary choosing every raw read size >= 1 (theorems hold for all choices; "
        "the correspondence feeds the sizes CPython really used)",
        "cgi.FieldStorage: in the model a reader of CONTENT_LENGTH bytes from the handle it is given (stubbed so in the "
        "correspondence); the real parser is exercised by the oracle only",
        "tempfile / io.BytesIO behave as seekable byte files; json.dumps / str.encode produce the bytes assigned by the "
        "text/json setters",
    ]


def replay(ctx, path):
    data = json.load(open(path))
    case = data["case"]
    kind = case.get("kind") if isinstance(case, dict) else None
    if kind == "history":
        cfg, hist = unj(case)
        hist = [(i, o, a) for i, o, a in hist]
        res = oracle_history(cfg, hist, via=case.get("via"))
    elif kind == "two":
        ca, ha = unj(case["a"])
        cb, hb = unj(case["b"])
        res = oracle_two(ca, ha, cb, hb, case["order"])
    elif kind == "shape":
        hist = [(i, o, bytes.fromhex(a) if o == "setbody" else a) for i, o, a in case["hist"]]
        res = oracle_shape(case["shape"], bytes.fromhex(case["body"]), hist, case.get("via"))
    elif kind == "short":
        res = oracle_short_reads(bytes.fromhex(case["data"]), case["cl"], case["sizes"], [tuple(h) for h in case["hist"]])
    elif kind == "sequence":
        res = None
        for c in case["cases"]:
            cfg, hist = unj(c)
            res = oracle_history(cfg, hist)
            if res:
                break
    elif kind == "seekable-big":
        res = oracle_seekable_big(case)
    elif kind == "seekable-any":
        cfg = dict(case["cfg"])
        cfg["data"] = bytes.fromhex(cfg["data"])
        res = oracle_seekable_any(cfg)
    else:
        print("replay: nothing executable in this file (broken obligation): %s" % data.get("what"))
        return 1
    if res:
        print("VIOLATION property=C10 replay=%s" % path)
        print("  (%s) %s" % res)
        return 1
    print("replay passes on the current tree")
    return 0
