"""C10 — request body: exactly CONTENT_LENGTH bytes, no over-read, repeatable reads.

Tie to the source
  * correspondence of coq/Model/C10_BodyStream.v (run_obs) with the real webob.request on generated
    histories of access paths: an instrumented wsgi.input (non-seekable, or seekable with
    webob.is_body_seekable) records every read; after every step the result, CONTENT_LENGTH, the
    seekable/readable flags, the kind (original stream / BytesIO / temp file) and position of
    wsgi.input and the consumption of the server's stream are compared with the model.  The sizes of
    the raw reads that io.BufferedReader really issued are handed to the model as its adversary list,
    so positions agree exactly.
  * oracle: the buffer-free reference machine of coq/Spec/C10_BodySpec.v, mirrored in Python from the
    property statement, against the real public API over exhaustive short histories and random ones,
    with the real cgi.FieldStorage, text/json setters, readline/read1/readinto/iteration on body_file,
    legacy webob.is_body_readable, and WSGI applications reading through call_application.
"""
import io
import itertools
import json

from harness import fw
from harness.fw import cstr, clist, cbool, cZ, cnat, copt

IMPORTS = ["Webob.Model.C10_BodyStream"]
CHUNK = 65535          # the literal in copy_body (request.py:975, 982)


# =========================================================================== instrumented inputs
class Raw:
    """non-seekable wsgi.input: read/readline only, counts what is pulled"""

    def __init__(self, data):
        self.data = data
        self.pos = 0
        self.calls = []

    def read(self, n=-1):
        if n is None or n < 0:
            n = len(self.data) - self.pos
        r = self.data[self.pos:self.pos + n]
        self.pos += len(r)
        self.calls.append(n)
        return r

    def readline(self, n=-1):
        end = self.data.find(b"\n", self.pos)
        end = len(self.data) if end < 0 else end + 1
        if n is not None and n >= 0:
            end = min(end, self.pos + n)
        r = self.data[self.pos:end]
        self.pos = end
        self.calls.append(len(r))
        return r

    def __iter__(self):
        while True:
            line = self.readline()
            if not line:
                return
            yield line

    def tell_(self):
        return self.pos


class SeekRaw(io.BytesIO):
    """seekable wsgi.input (used with webob.is_body_seekable): remembers the furthest byte read"""

    def __init__(self, data):
        super().__init__(data)
        self.hwm = 0
        self.calls = []

    def read(self, n=-1):
        r = super().read(n)
        self.hwm = max(self.hwm, self.tell())
        self.calls.append(n)
        return r

    def readline(self, n=-1):
        r = super().readline(n)
        self.hwm = max(self.hwm, self.tell())
        return r

    def tell_(self):
        return self.tell()


_classes = {}


def req_class(limit):
    from webob.request import Request
    if limit not in _classes:
        _classes[limit] = type("R%d" % len(_classes), (Request,), {"request_body_tempfile_limit": limit})
    return _classes[limit]


def make_request(cfg):
    """cfg: data(bytes) cl(None|str) seekable term(None|bool) legacy(bool) limit(int) [ctype] [method]"""
    raw = SeekRaw(cfg["data"]) if cfg["seekable"] else Raw(cfg["data"])
    env = {"REQUEST_METHOD": cfg.get("method", "POST"), "SCRIPT_NAME": "", "PATH_INFO": "/", "SERVER_NAME": "h",
           "SERVER_PORT": "80", "wsgi.url_scheme": "http", "SERVER_PROTOCOL": "HTTP/1.1", "wsgi.input": raw,
           "CONTENT_TYPE": cfg.get("ctype", "application/x-www-form-urlencoded")}
    if cfg["cl"] is not None:
        env["CONTENT_LENGTH"] = cfg["cl"]
    if cfg["seekable"]:
        env["webob.is_body_seekable"] = True
    if cfg["term"] is not None:
        env["wsgi.input_terminated"] = cfg["term"]
    if cfg["legacy"]:
        env["webob.is_body_readable"] = True
    return req_class(cfg["limit"])(env), raw


class StubFS:
    """stands for cgi.FieldStorage in the correspondence: reads the declared length from fp, once"""
    fed = None

    def __init__(self, fp=None, environ=None, keep_blank_values=False, encoding="utf8", errors="replace"):
        n = max(int(environ.get("CONTENT_LENGTH") or 0), 0)
        StubFS.fed = fp.read(n)
        self.list = None


def declared_read(env):
    """what a well-behaved WSGI application reads: CONTENT_LENGTH bytes, or to EOF on a terminated input"""
    from webob.request import BaseRequest
    r = BaseRequest(env)
    c = r.content_length
    if c is not None:
        return env["wsgi.input"].read(max(c, 0))
    if env.get("wsgi.input_terminated", env.get("webob.is_body_readable", False)):
        return env["wsgi.input"].read()
    return b""


def app_reader(env, start_response):
    start_response("200 OK", [("Content-Type", "application/octet-stream")])
    if not env.get("webob.is_body_seekable"):
        return [b"\x00SKIP"]
    return [b"\x01" + declared_read(env)]


def run_impl(cfg, hist, stub=True):
    """Run a history on the real webob.  hist: list of [req index, op, arg].
    Returns (per-step observations, per-step adversary lists)."""
    import webob.request as wr
    DE = wr.DisconnectionError
    reqs = []
    r0, raw = make_request(cfg)
    reqs.append(r0)
    saved = wr.cgi_FieldStorage
    if stub:
        wr.cgi_FieldStorage = StubFS
    obs, advs = [], []
    try:
        for i, o, a in hist:
            if i >= len(reqs):
                obs.append([None, raw.tell_()])
                advs.append([])
                continue
            r = reqs[i]
            ncalls = len(raw.calls)
            try:
                if o == "body":
                    out = r.body
                elif o == "fread":
                    out = r.body_file.read() if a is None else r.body_file.read(a)
                elif o == "sread":
                    f = r.body_file_seekable
                    out = f.read() if a is None else f.read(a)
                elif o == "copy":
                    reqs.append(r.copy())
                    out = 1
                elif o == "copy_get":
                    reqs.append(r.copy_get())
                    out = 1
                elif o == "post":
                    StubFS.fed = None
                    r.POST
                    out = 2 if StubFS.fed is None else StubFS.fed
                elif o == "app":
                    body = b"".join(r.call_application(app_reader)[2])
                    out = None if body == b"\x00SKIP" else body[1:]
                elif o == "setbody":
                    r.body = a
                    out = b""
                else:
                    raise ValueError(o)
            except DE:
                out = fw.Err("D")
            wi = r.body_file_raw
            kind = 0 if wi is raw else (1 if isinstance(wi, io.BytesIO) else 2)
            pos = wi.tell_() if wi is raw else wi.tell()
            if isinstance(out, bytes):
                out = bytes_val(out)
            obs.append([out, raw.tell_(), r.content_length, bool(r.is_body_seekable), bool(r.is_body_readable), kind, pos])
            advs.append([x for x in raw.calls[ncalls:] if isinstance(x, int) and x >= 0] if not cfg["seekable"] else [])
    finally:
        wr.cgi_FieldStorage = saved
    return obs, advs


# =========================================================================== Coq literals
def pattern(n):
    return bytes(i % 251 for i in range(n))


def cbytes(b):
    if len(b) > 64 and b == pattern(len(b)):
        return "(pattern %s)" % cnat(len(b))
    return cstr(b)


def digest(b):
    acc = 7
    for c in b:
        acc = (acc * 31 + c + 1) % 1000003
    return acc


def bytes_val(b):
    return b if len(b) <= 64 else [len(b), digest(b)]


def coptnat(k):
    return "None" if k is None else "(Some %s)" % cnat(k)


def cop(o, a):
    if o == "body":
        return "Body"
    if o == "fread":
        return "(FileRead %s)" % coptnat(a)
    if o == "sread":
        return "(SeekRead %s)" % coptnat(a)
    if o == "copy":
        return "Copy"
    if o == "copy_get":
        return "CopyGet"
    if o == "post":
        return "Post"
    if o == "app":
        return "CallApp"
    if o == "setbody":
        return "(SetBody %s)" % cbytes(a)
    raise ValueError(o)


def parse_cl(s):
    """what content_length returns for the CONTENT_LENGTH texts the generators use (plain integers)"""
    return None if s is None or s == "" else int(s)


def coq_case(cfg, hist, advs):
    steps = clist("(%s, %s, %s)" % (cnat(i), cop(o, a), clist(cnat(x) for x in adv))
                  for (i, o, a), adv in zip(hist, advs))
    c = parse_cl(cfg["cl"])
    return "(%s, %s, %s, %s, %s, %s, %s)" % (
        cbytes(cfg["data"]), copt(None if c is None else cZ(c)), cbool(cfg["seekable"]),
        copt(None if cfg["term"] is None else cbool(bool(cfg["term"]))), cbool(cfg["legacy"]), cZ(cfg["limit"]), steps)


IN_TYPE = "(bytes * option Z * bool * option bool * bool * Z * list step)"
FN = ("(fun c => match c with (s, cl0, sk, tm, lg, lim, hist) => run_obs %d s cl0 sk tm lg lim hist end)" % CHUNK)


def jcfg(cfg):
    d = dict(cfg)
    d["data"] = cfg["data"].hex()
    return d


def jhist(hist):
    return [[i, o, a.hex() if isinstance(a, bytes) else a] for i, o, a in hist]


def unj(case):
    cfg = dict(case["cfg"])
    cfg["data"] = bytes.fromhex(cfg["data"])
    hist = [(i, o, bytes.fromhex(a) if o in ("setbody",) else a) for i, o, a in case["hist"]]
    return cfg, hist


# =========================================================================== generators
OPS = ["body", "fread", "sread", "copy", "copy_get", "post", "app", "setbody"]


def rand_bytes(rng, n):
    if rng.random() < 0.5:
        s = b"&".join(b"k%d=%d" % (rng.randrange(9), rng.randrange(1000)) for _ in range(n // 5 + 1))
        return (s + b"&pad=" + b"x" * n)[:n]
    return bytes(rng.randrange(256) for _ in range(n))


def rand_cfg(rng, maxlen, seekable=None):
    n = rng.choice([0, 1, 2, 3, 5, 8, 13, rng.randrange(maxlen + 1), rng.randrange(maxlen + 1)])
    data = rand_bytes(rng, n)
    if seekable is None:
        seekable = rng.random() < 0.25
    u = rng.random()
    if u < 0.14:
        cl = None
    elif u < 0.17:
        cl = ""
    elif u < 0.22:
        cl = "0"
    elif u < 0.27:
        cl = str(-rng.choice([1, 2, 5, 100]))
    elif u < 0.55:
        cl = str(n)
    elif u < 0.80:
        cl = str(max(0, n - rng.choice([1, 1, 2, 3, n // 2, n])))
    else:
        cl = str(n + rng.choice([1, 1, 2, 3, 10, 9000]))
    if seekable and rng.random() < 0.6:
        cl = str(n)
    term = rng.choice([None, None, None, True, True, False])
    legacy = rng.random() < 0.15
    c = parse_cl(cl)
    body_len = min(n, c) if c is not None and c > 0 else n
    limit = rng.choice([-1, 0, 1, max(0, body_len - 1), body_len, body_len + 1, 10240, 10240])
    return {"data": data, "cl": cl, "seekable": seekable, "term": term, "legacy": legacy, "limit": limit}


def rand_size(rng, n):
    return rng.choice([None, None, 0, 1, 1, 2, 3, 5, max(0, n // 2), max(0, n - 1), n, n + 1, n + 7, 8191, 8192, 8193])


def rand_hist(rng, cfg, depth, ops=OPS, weights=None):
    n = len(cfg["data"])
    hist, nreq = [], 1
    for _ in range(depth):
        i = rng.randrange(nreq) if rng.random() < 0.93 else nreq
        o = rng.choices(ops, weights)[0] if weights else rng.choice(ops)
        a = None
        if o in ("fread", "sread"):
            a = rand_size(rng, n)
        elif o == "setbody":
            a = rand_bytes(rng, rng.choice([0, 1, 4, 9, n, n + 1]))
        elif o in ("copy", "copy_get"):
            nreq += 1
        hist.append((i, o, a))
    return hist


# =========================================================================== the reference machine (Spec/C10_BodySpec.v)
class SReq:
    """a body with a cursor; mode in raw / short / term / none / held"""

    def __init__(self, body, cur, mode, post=False, form=True):
        self.body, self.cur, self.mode, self.post, self.form = body, cur, mode, post, form

    def conv(self):
        """make the body seekable; False = DisconnectionError"""
        if self.mode == "held":
            self.cur = 0
            return True
        if self.mode == "raw" and self.cur == 0:
            self.mode, self.post = "held", False
            return True
        if self.mode in ("raw", "short"):
            self.cur = len(self.body)
            return False
        if self.mode == "term":
            self.body, self.cur, self.mode, self.post = self.body[self.cur:], 0, "held", False
            return True
        self.body, self.cur, self.mode, self.post = b"", 0, "held", False
        return True

    def read(self, k):
        d = self.body[self.cur:] if k is None else self.body[self.cur:self.cur + k]
        self.cur += len(d)
        return d


DISC = fw.Err("D")


def spec_init(cfg):
    s, c = cfg["data"], parse_cl(cfg["cl"])
    flag = cfg["term"] if cfg["term"] is not None else cfg["legacy"]
    if cfg["seekable"]:
        return SReq(s, 0, "held")
    if c is not None:
        if c > 0:
            return SReq(s[:c], 0, "raw") if c <= len(s) else SReq(s, 0, "short")
        return SReq(b"", 0, "none")
    return SReq(s, 0, "term") if flag else SReq(b"", 0, "none")


def spec_step(ss, i, o, a):
    """returns the list of acceptable outputs (usually one)"""
    if i >= len(ss):
        return [None]
    s = ss[i]
    if o == "body":
        if s.mode == "none":
            return [b""]
        return [s.body] if s.conv() else [DISC]
    if o == "fread":
        if s.mode == "none":
            return [b""]
        if s.mode == "short":
            acc = [DISC]
            if a is not None and s.cur + a <= len(s.body):
                acc.append(("data", a))
            return acc
        return [s.read(a)]
    if o == "sread":
        if s.mode != "held" and not s.conv():
            return [DISC]
        return [s.read(a)]
    if o == "copy":
        if not s.conv():
            return [DISC]
        s.cur = len(s.body)
        ss.append(SReq(s.body, 0, "held", False, s.form))
        return [1]
    if o == "copy_get":
        ss.append(SReq(b"", 0, "held", False, False))
        return [1]
    if o == "post":
        if s.post or not s.form:
            return [2]
        if not s.conv():
            return [DISC]
        s.cur, s.post = 0, True
        return [s.body]
    if o == "app":
        if s.mode != "held":
            return [None]
        s.cur = len(s.body)
        return [s.body]
    if o == "setbody":
        ss[i] = SReq(a, 0, "held", False, s.form)
        return [b""]
    raise ValueError(o)


def spec_resolve(ss, i, o, a, acc, got):
    """pick the acceptable output that matches and settle the short-mode cursor"""
    for e in acc:
        if isinstance(e, tuple):
            s = ss[i]
            want = s.body[s.cur:s.cur + e[1]]
            if got == want:
                s.cur += e[1]
                return True
        elif got == e:
            if e == DISC and o == "fread" and i < len(ss) and ss[i].mode == "short":
                ss[i].cur = len(ss[i].body)
            return True
    return False


# =========================================================================== the oracle on the real API
HANDLE_OPS = ("freadline", "fread1", "freadinto", "fiter")


def ref_readline(rest, k):
    end = rest.find(b"\n")
    end = len(rest) if end < 0 else end + 1
    if k is not None and k >= 0:
        end = min(end, k)
    return rest[:end]


def is_ascii_form(b):
    return all(0x20 < c < 0x7f and c not in b"%+;" for c in b)


def ref_form(b):
    from urllib.parse import parse_qsl
    return [list(p) for p in parse_qsl(b.decode("ascii"), keep_blank_values=True)]


NEG_KEY = "negative-content-length-treated-as-readable"


def classify(cfg, o, got, acc, neg=False):
    if neg:
        return NEG_KEY      # one root cause: is_body_readable accepts a negative length (over-read, body made seekable ...)
    sk = ":seekable-input" if cfg["seekable"] else ""
    exp = acc[0] if acc else None
    if isinstance(got, (bytes, list)) and exp == DISC:
        return "%s:short-data-instead-of-disconnect%s" % (o, sk)
    if got == DISC and isinstance(exp, (bytes, list)):
        return "%s:spurious-disconnect%s" % (o, sk)
    if isinstance(got, bytes) and isinstance(exp, bytes):
        return "%s:wrong-bytes%s" % (o, sk)
    return "%s:wrong-result%s" % (o, sk)


def oracle_history(cfg, hist, final_check=True):
    """None, or (key, message): the real webob.request against the reference machine, step by step."""
    import webob.request as wr
    DE = wr.DisconnectionError
    r0, raw = make_request(cfg)
    reqs, ss = [r0], [spec_init(cfg)]
    c0 = parse_cl(cfg["cl"])
    flag0 = cfg["term"] if cfg["term"] is not None else cfg["legacy"]
    steps = list(hist)
    nsteps = len(steps)
    k = 0
    while k < len(steps):
        i, o, a = steps[k]
        final = k >= nsteps
        k += 1
        if k == nsteps and final_check:
            steps += [(j, "body", None) for j in range(len(reqs) + 2)]
        if i >= len(reqs):
            spec_step(ss, i, "body", None)
            continue
        r = reqs[i]
        s = ss[i]
        # the original request, still on a stream whose declared length is negative
        neg = (not cfg["seekable"]) and c0 is not None and c0 < 0 and i == 0 and s.mode == "none"
        new = None
        try:
            if o == "body":
                got = r.body
            elif o == "fread":
                got = r.body_file.read() if a is None else r.body_file.read(a)
            elif o == "sread":
                f = r.body_file_seekable
                got = f.read() if a is None else f.read(a)
            elif o == "copy":
                new = r.copy()
                got = 1
            elif o == "copy_get":
                new = r.copy_get()
                got = 1
            elif o == "post":
                p = r.POST
                got = [[x, y] for x, y in p.items()] if hasattr(p, "items") else p
            elif o == "app":
                body = b"".join(r.call_application(app_reader)[2])
                got = None if body == b"\x00SKIP" else body[1:]
            elif o == "setbody":
                r.body = a
                got = b""
            elif o == "settext":
                r.text = a
                got = b""
            elif o == "setjson":
                r.json = a
                got = b""
            elif o == "freadline":
                got = r.body_file.readline() if a is None else r.body_file.readline(a)
            elif o == "fread1":
                f = r.body_file
                got = f.read1(a) if hasattr(f, "read1") else f.read(a)
            elif o == "freadinto":
                f = r.body_file
                if hasattr(f, "readinto"):
                    buf = bytearray(a)
                    n = f.readinto(buf)
                    got = bytes(buf[:n])
                else:
                    got = f.read(a)
            elif o == "fiter":
                got = b"".join(iter(r.body_file))
            else:
                raise ValueError(o)
        except DE:
            got = DISC
        except Exception as e:  # noqa
            got = fw.Err(type(e).__name__)
        if new is not None:
            reqs.append(new)
        where = "step %d %s(%r) on request %d" % (k - 1, o, a if not isinstance(a, bytes) or len(a) < 20 else len(a), i)
        if final:
            where = "closing .body on request %d" % i
        # ---- never consume the server's stream beyond the declared length
        if not cfg["seekable"]:
            pos = raw.tell_()
            if c0 is not None and pos > max(c0, 0):
                key = NEG_KEY if c0 < 0 else "overread:beyond-content-length"
                return (key, "%s: %d bytes pulled from wsgi.input, CONTENT_LENGTH=%s" % (where, pos, cfg["cl"]))
            if c0 is None and not flag0 and pos > 0:
                return ("overread:no-content-length", "%s: %d bytes pulled from wsgi.input although there is neither "
                        "CONTENT_LENGTH nor wsgi.input_terminated" % (where, pos))
        if isinstance(got, fw.Err) and got != DISC:
            return (NEG_KEY if neg else "%s:exception:%s" % (o, got.name), "%s raised %s" % (where, got.name))
        # ---- the answer
        if o in ("settext", "setjson"):
            b = a.encode("utf-8") if o == "settext" else json.dumps(a, separators=(",", ":")).encode("utf-8")
            acc = spec_step(ss, i, "setbody", b)
        elif o in HANDLE_OPS:
            if s.mode == "none":
                acc = [b""]
            else:
                rest = s.body[s.cur:]
                if o == "freadline":
                    want = ref_readline(rest, a)
                elif o == "fiter":
                    want = rest
                elif o == "freadinto":
                    want = rest[:a]
                else:
                    want = None          # read1: any non-empty prefix of at most a bytes (empty only at EOF / a == 0)
                if s.mode == "short":
                    ok = got == DISC
                    if isinstance(got, bytes):
                        full = (o == "freadline" and (got.endswith(b"\n") or (a is not None and len(got) == a))) or \
                               (o == "freadinto" and len(got) == a) or (o == "fread1" and (len(got) > 0 or a == 0))
                        ok = full and rest.startswith(got)
                    if not ok:
                        return (classify(cfg, o, got, [DISC], neg), "%s: %r on a stream shorter than CONTENT_LENGTH" % (where, got))
                    s.cur = s.cur + len(got) if isinstance(got, bytes) else len(s.body)
                    continue
                if want is None:
                    ok = isinstance(got, bytes) and rest.startswith(got) and len(got) <= max(a, 0) and \
                        (len(got) > 0 or a == 0 or not rest)
                    if not ok:
                        return (classify(cfg, o, got, [rest[:a]], neg), "%s returned %r, body from cursor is %r" % (where, got, rest[:40]))
                    s.cur += len(got)
                    continue
                acc = [want]
                if got == want:
                    s.cur += len(want)
        else:
            acc = spec_step(ss, i, o, a)
        if o == "post" and isinstance(acc[0], bytes):
            if got == DISC or not isinstance(got, list):
                return (classify(cfg, o, got, acc, neg), "%s gave %r, expected the form fields of the %d-byte body" % (where, got, len(acc[0])))
            if is_ascii_form(acc[0]) and got != ref_form(acc[0]):
                return ("post:wrong-fields", "%s parsed %r, the body %r holds %r" % (where, got, acc[0][:60], ref_form(acc[0])))
            ok = True
        elif o == "post" and acc == [2]:
            ok = not isinstance(got, fw.Err)
        elif o in HANDLE_OPS:
            ok = got == acc[0]
        else:
            ok = spec_resolve(ss, i, o, a, acc, got)
        if not ok:
            exp = acc[0]
            return (classify(cfg, o, got, acc, neg), "%s returned %s, expected %s" % (
                where, short_repr(got), short_repr(exp)))
        # ---- CONTENT_LENGTH tells the truth about a held body
        s = ss[i]
        if s.mode == "held" and got != DISC:
            if r.content_length != len(s.body) and not (cfg["seekable"] and o not in ("setbody", "settext", "setjson") and r.body_file_raw is raw):
                return ("%s:content-length" % o, "%s: CONTENT_LENGTH is %r, the body has %d bytes" % (where, r.content_length, len(s.body)))
            if not r.is_body_seekable:
                return ("%s:not-seekable" % o, "%s: body not flagged seekable afterwards" % where)
    return None


def short_repr(v):
    if isinstance(v, bytes) and len(v) > 32:
        return "%d bytes %r..." % (len(v), v[:16])
    return repr(v)


def oracle_seekable_any(cfg):
    """an input flagged seekable whose length differs from CONTENT_LENGTH: .body and .copy()"""
    import webob.request as wr
    c = parse_cl(cfg["cl"])
    want = cfg["data"][:c] if c <= len(cfg["data"]) else DISC
    for path in ("body", "body-twice", "copy"):
        r, raw = make_request(cfg)
        try:
            if path == "body":
                got = r.body
            elif path == "body-twice":
                got = r.body
                if got != want:
                    return (classify(cfg, "body", got, [want]), ".body returned %s, expected %s" % (short_repr(got), short_repr(want)))
                got = r.body
            else:
                got = r.copy().body
        except wr.DisconnectionError:
            got = DISC
        if got != want:
            o = "copy" if path == "copy" else "body"
            return (classify(cfg, o, got, [want]), "%s on a seekable %d-byte input with CONTENT_LENGTH=%s returned %s, expected %s" % (
                path, len(cfg["data"]), cfg["cl"], short_repr(got), short_repr(want)))
        if raw.hwm > max(c, 0) and path != "copy":
            return ("overread:seekable-input", "%s read up to offset %d of a seekable input with CONTENT_LENGTH=%s" % (path, raw.hwm, cfg["cl"]))
    return None


# =========================================================================== generators for the oracle
XOPS = OPS + ["settext", "setjson", "freadline", "fread1", "freadinto", "fiter"]
XWEIGHTS = [5, 6, 4, 3, 1, 3, 2, 2, 1, 1, 2, 2, 2, 1]
TEXTS = ["", "x", "h\xe9llo", "a=1&b=2", "€" * 3]
JSONS = [None, 0, "s", {"a": [1, 2]}, [], {"k": "\xe9"}]


def rand_xhist(rng, cfg, depth):
    n = len(cfg["data"])
    out = []
    for i, o, a in rand_hist(rng, cfg, depth, ops=XOPS, weights=XWEIGHTS):
        if o == "settext":
            a = rng.choice(TEXTS)
        elif o == "setjson":
            a = rng.choice(JSONS)
        elif o in ("fread1", "freadinto"):
            a = rng.choice([0, 1, 2, 5, n, n + 3, 8192, 9000])
        elif o == "freadline":
            a = rng.choice([None, None, 0, 1, 3, n, 9000])
        out.append((i, o, a))
    return out


def form_bytes(rng, n):
    s = b"&".join(b"k%d=%d" % (rng.randrange(9), rng.randrange(1000)) for _ in range(n // 5 + 1))
    return (s + b"&pad=" + b"x" * n)[:n]


def exhaustive_universe():
    u = []
    for i in (0, 1):
        u += [(i, "body", None), (i, "fread", 2), (i, "fread", None), (i, "sread", None), (i, "copy", None),
              (i, "post", None), (i, "app", None), (i, "setbody", b"q=7")]
    u += [(0, "copy_get", None), (0, "sread", 3), (0, "fread", 0)]
    return u


def exhaustive_cfgs(full):
    data = b"a=1&b=22\nc"
    cfgs = []
    cls = [None, "0", "4", "10", "13", "-1"] if full else [None, "4", "10", "13", "-1"]
    for cl in cls:
        for term in ((None, True) if cl is None or full else (None,)):
            for limit in ((2, 10240) if cl in ("4", "10") or full else (10240,)):
                cfgs.append({"data": data, "cl": cl, "seekable": False, "term": term, "legacy": False, "limit": limit})
    cfgs.append({"data": data, "cl": "10", "seekable": True, "term": None, "legacy": False, "limit": 2})
    cfgs.append({"data": data, "cl": None, "seekable": False, "term": None, "legacy": True, "limit": 10240})
    return cfgs


BIG_SIZES = [8191, 8192, 8193, 16384, 16385, 24577, 65534, 65535, 65536, 65537, 73727, 131070, 131071]


def big_cases(rng, count):
    """bodies around io.DEFAULT_BUFFER_SIZE and around the 65535 copy step, limits below/at/above the body"""
    out = []
    for _ in range(count):
        body = rng.choice(BIG_SIZES) + rng.choice([0, 0, 0, -1, 1])
        extra = rng.choice([0, 0, 1, 17, 9000])
        short = rng.random() < 0.2
        n = body - rng.choice([1, 2, 8192]) if short else body + extra
        n = max(n, 0)
        mode = rng.choice(["cl", "cl", "cl", "term"])
        cfg = {"data": pattern(n), "cl": str(body) if mode == "cl" else None, "seekable": False,
               "term": True if mode == "term" else rng.choice([None, False]), "legacy": False,
               "limit": rng.choice([body - 1, body, body + 1, 10240, 65535, 65534, 0])}
        sizes = [None, 1, 8191, 8192, 8193, 65535, 65536, body, body - 1, body + 1]
        paths = ["body", "fread", "sread", "copy", "post", "app", "body"]
        hist, nreq = [], 1
        for _ in range(rng.randrange(1, 5)):
            o = rng.choice(paths)
            i = rng.randrange(nreq)
            a = rng.choice(sizes) if o in ("fread", "sread") else None
            if o == "copy":
                nreq += 1
            hist.append((i, o, a))
        out.append((cfg, hist))
    return out


def seekable_any_cfgs(rng, count):
    out = []
    for _ in range(count):
        n = rng.choice([0, 1, 5, 9, 40, 9000])
        c = max(1, n + rng.choice([-9, -3, -1, 1, 2, 50]))
        out.append({"data": form_bytes(rng, n), "cl": str(c), "seekable": True, "term": rng.choice([None, True]),
                    "legacy": False, "limit": rng.choice([0, 3, 10240])})
    return out


# =========================================================================== the check
def corr_cases(ctx, rng, n, maxlen, depth):
    cases = []
    for _ in range(n):
        cfg = rand_cfg(rng, maxlen)
        hist = rand_hist(rng, cfg, rng.randrange(1, depth + 1))
        obs, advs = run_impl(cfg, hist)
        cases.append((coq_case(cfg, hist, advs), obs, {"cfg": jcfg(cfg), "hist": jhist(hist)}))
    return cases


def corr_big_cases(rng, count):
    cases = []
    for cfg, hist in big_cases(rng, count):
        obs, advs = run_impl(cfg, hist)
        cases.append((coq_case(cfg, hist, advs), obs, {"cfg": jcfg(cfg), "hist": jhist(hist), "pattern": True}))
    return cases


def report(ctx, res, cfg, hist, source):
    key, msg = res
    ctx.fail(key, msg, {"kind": "history", "cfg": jcfg(cfg), "hist": jhist(hist)}, True, source)


def run(ctx):
    ctx.build(["Props/C10.vo"])

    # ---- correspondence: model vs implementation on histories of access paths
    rng = ctx.sub_rng("corr")
    groups = [("histories", corr_cases(ctx, rng, ctx.scale(2000, 12000), 48, ctx.scale(9, 14)), 250),
              ("buffer-and-chunk-boundaries", corr_big_cases(ctx.sub_rng("corr-big"), ctx.scale(20, 48)), 1)]
    for name, cases, shard in groups:
        bad = ctx.corr(name, IMPORTS, FN, cases, in_type=IN_TYPE, shard=shard)
        for i in bad[:6]:
            cfg, hist = unj(cases[i][2])
            res = oracle_history(cfg, hist)
            if res:
                report(ctx, res, cfg, hist, "corr")
            else:
                ctx.broken.append("correspondence %s: model and implementation disagree on %s" % (
                    name, json.dumps(cases[i][2])[:1500]))

    # ---- oracle 1: every history to a fixed depth over the access paths, on the original and its first copy
    U = exhaustive_universe()
    cfgs = exhaustive_cfgs(ctx.thorough)
    cnt = 0
    deep = 0
    for ci, cfg in enumerate(cfgs):
        # quick: depth 3 everywhere, depth 4 on the declared-length configurations with a small temp-file limit and
        # on the terminated input; thorough: depth 4 everywhere, depth 5 on one
        if ctx.thorough:
            d_here = 5 if (cfg["cl"] == "10" and cfg["limit"] == 2 and not cfg["seekable"] and cfg["term"] is None) else 4
        else:
            d_here = 4 if (cfg["cl"] == "10" and cfg["limit"] == 2 and not cfg["seekable"]) or \
                (cfg["cl"] is None and cfg["term"]) else 3
        deep = max(deep, d_here)
        for d in range(1, d_here + 1):
            for hist in itertools.product(U, repeat=d):
                cnt += 1
                res = oracle_history(cfg, list(hist), final_check=(d < 5))
                if res:
                    report(ctx, res, cfg, list(hist), "exhaustive")
    depth = deep
    ctx.oracle_count("exhaustive", cnt, cnt)

    # ---- oracle 2: random histories incl. text/json setters and the other file methods of body_file
    r2 = ctx.sub_rng("oracle-random")
    m = ctx.scale(60000, 600000)
    for _ in range(m):
        cfg = rand_cfg(r2, 70)
        if cfg["seekable"]:
            cfg["cl"] = str(len(cfg["data"]))
        if r2.random() < 0.6:
            cfg["data"] = form_bytes(r2, len(cfg["data"]))
        hist = rand_xhist(r2, cfg, r2.randrange(1, 12))
        res = oracle_history(cfg, hist)
        if res:
            report(ctx, res, cfg, hist, "random")
    ctx.oracle_count("random", m, m)

    # ---- oracle 3: bodies around the buffer size and the 65535 copy step, limits below/at/above
    r3 = ctx.sub_rng("oracle-big")
    m = ctx.scale(1500, 10000)
    for cfg, hist in big_cases(r3, m):
        res = oracle_history(cfg, hist)
        if res:
            report(ctx, res, cfg, hist, "big")
    ctx.oracle_count("big", m, m)

    # ---- oracle 4: inputs flagged seekable whose length differs from CONTENT_LENGTH (.body / .copy())
    r4 = ctx.sub_rng("oracle-seekable")
    m = ctx.scale(2000, 40000)
    for cfg in seekable_any_cfgs(r4, m):
        res = oracle_seekable_any(cfg)
        if res:
            ctx.fail(res[0], res[1], {"kind": "seekable-any", "cfg": jcfg(cfg)}, True, "seekable-any")
    ctx.oracle_count("seekable-any", m, m)

    ctx.extra["rule"] = (
        "correspondence: random histories (<=%d steps) of body / body_file.read(k) / body_file_seekable.read(k) / copy / "
        "copy_get / POST / call_application / body= on the original request and its copies, over an instrumented "
        "non-seekable or seekable wsgi.input with CONTENT_LENGTH absent / empty / 0 / negative / shorter / equal / longer "
        "than the stream, input_terminated and legacy flags, temp-file limits below/at/above the body; every step compares "
        "result, CONTENT_LENGTH, seekable/readable flags, kind and position of wsgi.input and bytes pulled from the "
        "server's stream; plus bodies around 8192 and 65535.  oracle: all %d^d histories to depth %d on %d configurations, "
        "random histories with text/json setters and readline/read1/readinto/iteration, large bodies, seekable inputs of "
        "any length; every counted case runs at least one access path and a closing .body on every request"
        % (ctx.scale(9, 14), len(U), depth, len(cfgs)))
    ctx.extra["exhaustive"] = False
    ctx.assume += [
        "wsgi.input.read(n) returns n bytes unless the stream ends (WSGI file semantics); a server stream that returns "
        "short reads while more data is coming would be reported as disconnected by LimitedLengthFile",
        "an input flagged webob.is_body_seekable holds exactly CONTENT_LENGTH bytes (webob's own setters maintain this); "
        "for other lengths only .body and .copy() are claimed (theorem C10_body_seekable_any_length, oracle 4): "
        ".body_file / .body_file_seekable hand out the seekable file object itself, unlimited",
        "after part of a NON-seekable body has been consumed through .body_file, the whole-body paths raise "
        "DisconnectionError (the consumed bytes cannot be recovered); this is what the specification machine says too",
        "call_application: the application is modelled as reading only a seekable (rewound) body; on a non-seekable "
        "input webob passes the environ through untouched",
        "CONTENT_LENGTH texts are plain decimal integers (int() leniency is C12's subject)",
    ]
    ctx.trusted += [
        "io.BufferedReader abstracted as an adversary choosing every raw read size >= 1 (theorems hold for all choices; "
        "the correspondence feeds the sizes CPython really used)",
        "cgi.FieldStorage: in the model a reader of CONTENT_LENGTH bytes from the handle it is given (stubbed so in the "
        "correspondence); the real parser is exercised by the oracle only",
        "tempfile / io.BytesIO behave as seekable byte files; json.dumps / str.encode produce the bytes assigned by the "
        "text/json setters",
    ]


def replay(ctx, path):
    data = json.load(open(path))
    case = data["case"]
    kind = case.get("kind") if isinstance(case, dict) else None
    if kind == "history":
        cfg, hist = unj(case)
        hist = [(i, o, a) for i, o, a in hist]
        res = oracle_history(cfg, hist)
    elif kind == "seekable-any":
        cfg = dict(case["cfg"])
        cfg["data"] = bytes.fromhex(cfg["data"])
        res = oracle_seekable_any(cfg)
    else:
        print("replay: nothing executable in this file (broken obligation): %s" % data.get("what"))
        return 1
    if res:
        print("VIOLATION property=C10 replay=%s" % path)
        print("  (%s) %s" % res)
        return 1
    print("replay passes on the current tree")
    return 0
