"""C08 — MultiDict / ResponseHeaders / NestedMultiDict / Response.headers<->headerlist.

Tie to the source: correspondence of coq/Model/MultiDict.v (run_multidict, run_respheaders,
run_response_headers, observe_nested) with the real classes on generated histories, plus a
Python list-of-pairs oracle (the statement's reference model) over exhaustive small histories.
"""
import itertools
import json

from harness import fw
from harness.fw import Err, catch, cstr, cval, clist, cpair, copt

KEYS = ["a", "A", "b"]
VALS = ["1", "2"]
PROBE = ["a", "A", "b", "c"]
IMPORTS = ["Webob.Lib.PyStr", "Webob.Model.MultiDict"]


# --------------------------------------------------------------------------- ops
def citems(l):
    return clist(cpair(cstr(k), cstr(v)) for k, v in l)


def cop(o):
    t = o[0]
    if t == "set":
        return "(OSet %s %s)" % (cstr(o[1]), cstr(o[2]))
    if t == "add":
        return "(OAdd %s %s)" % (cstr(o[1]), cstr(o[2]))
    if t == "del":
        return "(ODel %s)" % cstr(o[1])
    if t == "pop":
        if not o[2]:
            return "(OPop %s None)" % cstr(o[1])
        return "(OPop %s (Some %s))" % (cstr(o[1]), copt(None if o[3] is None else cstr(o[3])))
    if t == "popitem":
        return "OPopItem"
    if t == "setdefault":
        return "(OSetDefault %s (Some %s))" % (cstr(o[1]), cstr(o[2]))
    if t in ("update", "update_dict"):
        pairs = o[1] if t == "update" else list(dict(o[1]).items())
        return "(OUpdate %s)" % citems(pairs)
    if t == "update_md":
        return "(OUpdateMD %s)" % citems(o[1])
    if t == "extend":
        pairs = list(dict(o[1]).items()) if o[2] == "dict" else o[1]
        return "(OExtend %s)" % citems(pairs)
    if t == "extend_self":
        return "OExtendSelf"
    if t == "clear":
        return "OClear"
    if t == "copy":
        return "OCopy"
    raise ValueError(o)


def apply_op(d, o):
    """Apply op to a real MultiDict-like; returns (d', return value or Err)."""
    from webob.multidict import MultiDict
    t = o[0]
    if t == "set":
        return d, catch(d.__setitem__, o[1], o[2])
    if t == "add":
        return d, catch(d.add, o[1], o[2])
    if t == "del":
        return d, catch(d.__delitem__, o[1])
    if t == "pop":
        return d, (catch(d.pop, o[1], o[3]) if o[2] else catch(d.pop, o[1]))
    if t == "popitem":
        r = catch(d.popitem)
        return d, (list(r) if isinstance(r, tuple) else r)
    if t == "setdefault":
        return d, catch(d.setdefault, o[1], o[2])
    if t == "update":
        return d, catch(d.update, list(o[1]))
    if t == "update_dict":
        return d, catch(d.update, dict(o[1]))
    if t == "update_md":
        return d, catch(d.update, MultiDict(o[1]))
    if t == "extend":
        arg = {"list": list(o[1]), "dict": dict(o[1]), "md": MultiDict(o[1]), "iter": iter(list(o[1]))}[o[2]]
        return d, catch(d.extend, arg)
    if t == "extend_self":
        # the argument aliases the dict.  Bounded: code that reads the live list while appending to it never ends,
        # so the aliasing iterable stops after 4*len+8 pairs and a result longer than twice the old length is
        # reported as non-termination.
        import itertools
        n0 = len(d)
        if o[1] == "self":
            return d, _extend_self_bounded(d)
        arg = d.items() if o[1] == "items" else iter(d.items())
        r = catch(d.extend, itertools.islice(iter(arg), 4 * n0 + 8))
        if len(d) > 2 * n0:
            return d, Err("NonTermination")
        return d, r
    if t == "clear":
        return d, catch(d.clear)
    if t == "copy":
        c = d.copy()
        return c, None
    raise ValueError(o)


def _extend_self_bounded(d):
    """d.extend(d) with a watchdog: run in a thread-free way by giving the dict a length-limited items() view is not
    possible (the code reads d.items() itself), so the call is made on a subclass instance sharing the list whose
    items() stops after a bound; a result longer than twice the old length is reported as non-termination."""
    import itertools
    n0 = len(d)

    class Bounded(type(d)):
        def items(self):  # noqa
            return itertools.islice(type(d).items(self), 4 * n0 + 8)

    alias = Bounded.__new__(Bounded)
    alias.__dict__ = d.__dict__
    r = catch(d.extend, alias)
    if len(d) > 2 * n0:
        return Err("NonTermination")
    return r


def canon_dict(r, d, norm):
    """dict -> list of [key, value] in first-occurrence order of the (normalised) keys of d.items()."""
    order = []
    for k, _ in list(d.items()):
        nk = norm(k)
        if nk not in order:
            order.append(nk)
    out = [[k, r[k]] for k in order if k in r]
    out += [[k, r[k]] for k in sorted(r) if k not in order]
    return out


def observe(d, norm_dict):
    its = [list(kv) for kv in d.items()]
    per = []
    for k in PROBE:
        per.append([catch(d.__getitem__, k), catch(d.getall, k), catch(d.getone, k), catch(d.__contains__, k)])
    return [its, len(d), per, canon_dict(d.dict_of_lists(), d, norm_dict), canon_dict(d.mixed(), d, norm_dict)]


def run_impl(cls, init, ops):
    from webob.multidict import MultiDict
    from webob.headers import ResponseHeaders
    klass = {"md": MultiDict, "rh": ResponseHeaders}[cls]
    norm = (lambda k: k.lower()) if cls == "rh" else (lambda k: k)
    d = klass(list(init))
    out = []
    for o in ops:
        d, r = apply_op(d, o)
        out.append([r, observe(d, norm)])
    return out


# ---------------------------------------------------------------- reference (the statement's list model)
class Ref:
    """Ordered list of pairs; key equality through `norm`."""

    def __init__(self, items, norm):
        self.l = list(items)
        self.n = norm

    def hit(self, k):
        return [i for i, (kk, _) in enumerate(self.l) if self.n(kk) == self.n(k)]

    def apply(self, o):
        t = o[0]
        l = self.l
        if t == "set":
            self.l = [kv for kv in l if self.n(kv[0]) != self.n(o[1])] + [(o[1], o[2])]
            return None
        if t == "add":
            l.append((o[1], o[2]))
            return None
        if t == "del":
            if not self.hit(o[1]):
                return Err("KeyError")
            self.l = [kv for kv in l if self.n(kv[0]) != self.n(o[1])]
            return None
        if t == "pop":
            h = self.hit(o[1])
            if h:
                return l.pop(h[0])[1]
            return o[3] if o[2] else Err("KeyError")
        if t == "popitem":
            return list(l.pop()) if l else Err("IndexError")
        if t == "setdefault":
            h = self.hit(o[1])
            if h:
                return l[h[0]][1]
            l.append((o[1], o[2]))
            return o[2]
        if t in ("update", "update_dict"):
            pairs = o[1] if t == "update" else list(dict(o[1]).items())
            for k, v in pairs:
                self.apply(("set", k, v))
            return None
        if t == "update_md":
            for k, _ in o[1]:
                self.apply(("set", k, [v for kk, v in o[1] if kk == k][-1]))
            return None
        if t == "extend":
            l.extend(list(dict(o[1]).items()) if o[2] == "dict" else o[1])
            return None
        if t == "extend_self":
            l.extend(list(l))
            return None
        if t == "clear":
            self.l = []
            return None
        if t == "copy":
            return None
        raise ValueError(o)

    def observe(self, dict_norm):
        l = self.l
        per = []
        for k in PROBE:
            vs = [l[i][1] for i in self.hit(k)]
            per.append([vs[-1] if vs else Err("KeyError"), vs, vs[0] if len(vs) == 1 else Err("KeyError"), bool(vs)])
        dol = []
        for k, v in l:
            nk = dict_norm(k)
            for e in dol:
                if e[0] == nk:
                    e[1].append(v)
                    break
            else:
                dol.append([nk, [v]])
        mixed = [[k, vs[0] if len(vs) == 1 else vs] for k, vs in dol]
        return [[list(kv) for kv in l], len(l), per, dol, mixed]


def extra_observations(d):
    """Observations outside the Coq model's `observe`, checked by the oracle only."""
    return [list(d.keys()), list(d.values()), list(iter(d)), [d.get(k) for k in PROBE], [d.get(k, "dflt") for k in PROBE],
            bool(d), [k in d for k in PROBE]]


def ref_extra(ref):
    l = ref.l
    last = lambda k: ([l[i][1] for i in ref.hit(k)] or [None])[-1]  # noqa
    lastd = lambda k: ([l[i][1] for i in ref.hit(k)] or ["dflt"])[-1]  # noqa
    return [[k for k, _ in l], [v for _, v in l], [k for k, _ in l], [last(k) for k in PROBE], [lastd(k) for k in PROBE],
            bool(l), [bool(ref.hit(k)) for k in PROBE]]


def oracle_history(cls, init, ops):
    """None if the real class agrees with the list model on every observation after every step."""
    from webob.multidict import MultiDict, GetDict
    from webob.headers import ResponseHeaders
    norm = (lambda k: k.lower()) if cls == "rh" else (lambda k: k)
    if cls == "get":
        env = {}
        d = GetDict(list(init), env)
    else:
        d = {"md": MultiDict, "rh": ResponseHeaders}[cls](list(init))
    ref = Ref(init, norm)
    for i, o in enumerate(ops):
        before = [list(kv) for kv in d.items()]
        d2, r = apply_op(d, o)
        rr = ref.apply(o)
        if o[0] == "copy":
            # the copy must be equal but independent of the original
            d2.add("zz", "9")
            if [list(kv) for kv in d.items()] != before:
                return "step %d %r: copy() is not independent of the original" % (i, o)
            d2.popitem()
        d = d2
        if r != rr:
            return "step %d %r returned %r, list model says %r" % (i, o, r, rr)
        ob, ro = observe(d, norm), ref.observe(norm)
        if ob != ro:
            return "step %d %r: observations %r differ from the list model's %r" % (i, o, ob, ro)
        ex, rex = extra_observations(d), ref_extra(ref)
        if ex != rex:
            return "step %d %r: keys/values/get/bool %r differ from the list model's %r" % (i, o, ex, rex)
    return None


# ---------------------------------------------------------------- GetDict: write-back and refused writes
def cgop(o):
    if o[0] == "badadd":
        return "(GBadAdd %s)" % cstr(o[1])
    if o[0] == "badset":
        return "(GBadSet %s)" % cstr(o[1])
    return "(GOk %s)" % cop(o)


def _qs_pairs(env):
    from urllib.parse import parse_qsl
    return [list(kv) for kv in parse_qsl(env.get("QUERY_STRING", ""), keep_blank_values=True)]


def _gd_new(init):
    from urllib.parse import urlencode
    from webob.multidict import GetDict
    env = {"QUERY_STRING": urlencode(list(init))}
    return GetDict(list(init), env), env


def _gd_apply(d, o):
    if o[0] == "badadd":
        return catch(d.add, o[1], None)
    if o[0] == "badset":
        return catch(d.__setitem__, o[1], None)
    return apply_op(d, o)[1]


def run_getdict_impl(init, ops):
    d, env = _gd_new(init)
    out = []
    for o in ops:
        r = _gd_apply(d, o)
        out.append([r, [[list(kv) for kv in d.items()], _qs_pairs(env)]])
    return out


def oracle_getdict(init, ops):
    """Statement on the real GetDict: an operation that raises changes nothing; otherwise the list model; and
    QUERY_STRING always decodes to the items."""
    d, env = _gd_new(init)
    ref = Ref(init, lambda k: k)
    for i, o in enumerate(ops):
        before = [list(kv) for kv in d.items()]
        r = _gd_apply(d, o)
        now = [list(kv) for kv in d.items()]
        if isinstance(r, Err):
            if now != before:
                return "step %d %r raised %s but req.GET changed from %r to %r" % (i, o, r, before, now)
            if o[0] not in ("badadd", "badset"):
                rr = ref.apply(o)
                if rr != r:
                    return "step %d %r raised %s, list model says %r" % (i, o, r, rr)
        else:
            rr = ref.apply(o)
            if r != rr:
                return "step %d %r returned %r, list model says %r" % (i, o, r, rr)
        if now != [list(kv) for kv in ref.l]:
            return "step %d %r: req.GET holds %r, the list model %r" % (i, o, now, [list(kv) for kv in ref.l])
        if _qs_pairs(env) != now:
            return "step %d %r: QUERY_STRING decodes to %r but req.GET holds %r" % (i, o, _qs_pairs(env), now)
    return None


def rand_gd_history(rng, maxlen):
    init, ops = rand_history(rng, maxlen)
    ops = [o for o in ops if o[0] not in ("copy", "extend_self")]
    out = []
    for o in ops:
        out.append(o)
        if rng.random() < 0.25:
            out.append((rng.choice(["badadd", "badset"]), rng.choice(KEYS)))
    if rng.random() < 0.5:
        out.insert(rng.randrange(len(out) + 1), (rng.choice(["badadd", "badset"]), rng.choice(KEYS)))
    return init, out


# ---------------------------------------------------------------- generators
def op_universe():
    u = []
    for k in KEYS:
        for v in VALS:
            u.append(("set", k, v))
            u.append(("add", k, v))
        u.append(("del", k))
        u.append(("pop", k, False, None))
        u.append(("pop", k, True, "9"))
        u.append(("setdefault", k, "3"))
    u.append(("pop", "a", True, None))
    u.append(("popitem",))
    u.append(("clear",))
    u.append(("copy",))
    u.append(("update", [("a", "5"), ("A", "6"), ("a", "7")]))
    u.append(("update", [("b", "5")]))
    u.append(("update_dict", [("A", "5"), ("b", "6")]))
    u.append(("update_md", [("a", "5"), ("b", "6"), ("a", "7")]))
    u.append(("extend", [("a", "5"), ("A", "6")], "list"))
    u.append(("extend", [("b", "5"), ("b", "6")], "md"))
    u.append(("extend", [("a", "5"), ("b", "6")], "dict"))
    u.append(("extend", [("A", "8")], "iter"))
    u.append(("extend_self", "self"))
    u.append(("extend_self", "items"))
    return u


def rand_pairs(rng, n=3):
    return [(rng.choice(KEYS + ["Content-Type", "content-type", "\xc9t\xe9", "\xe9T\xc9"]), rng.choice(VALS + ["", "x y"]))
            for _ in range(rng.randrange(n + 1))]


def rand_op(rng):
    keys = KEYS + ["Content-Type", "content-type", "CONTENT-TYPE", "\xc9t\xe9", "\xe9T\xc9", "c"]
    t = rng.choice(["set", "set", "add", "add", "del", "pop", "pop", "popitem", "setdefault", "update", "update_dict",
                    "update_md", "extend", "extend_self", "clear", "copy"])
    k = rng.choice(keys)
    v = rng.choice(VALS + ["", "v w", "\xff"])
    if t in ("set", "add"):
        return (t, k, v)
    if t == "del":
        return (t, k)
    if t == "pop":
        has = rng.random() < 0.5
        return (t, k, has, rng.choice([None, "9"]) if has else None)
    if t == "setdefault":
        return (t, k, v)
    if t in ("update", "update_dict", "update_md"):
        return (t, rand_pairs(rng))
    if t == "extend":
        return (t, rand_pairs(rng), rng.choice(["list", "dict", "md", "iter"]))
    if t == "extend_self":
        return (t, rng.choice(["self", "items", "iter"]))
    return (t,)


def rand_history(rng, maxlen):
    init = rand_pairs(rng, 4)
    ops = [rand_op(rng) for _ in range(rng.randrange(1, maxlen + 1))]
    return init, ops


# ---------------------------------------------------------------- Response.headers / headerlist
def crop(o):
    t = o[0]
    if t == "via":
        return "(RVia %s)" % cop(o[1])
    if t == "append":
        return "(RAppend %s %s)" % (cstr(o[1]), cstr(o[2]))
    if t == "delfirst":
        return "RDelFirst"
    if t == "setlist":
        return "(RSetList %s)" % citems(o[1])
    if t == "setheaders":
        return "(RSetHeaders %s)" % citems(list(dict(o[1]).items()) if o[2] == "dict" else o[1])
    if t == "dellist":
        return "RDelList"
    if t == "stale":
        return "(RStale %d%%nat %s %s)" % (o[1], cstr(o[2]), cstr(o[3]))
    raise ValueError(o)


def run_resp_impl(init, ops):
    from webob import Response
    from webob.multidict import MultiDict
    resp = Response()
    resp.headerlist = list(init)
    cells = [resp.headerlist]
    out = []
    for o in ops:
        t = o[0]
        r = None
        if t == "via":
            if o[1][0] == "copy":
                r = None       # copying the view does not touch the response
            else:
                _, r = apply_op(resp.headers, o[1])
        elif t == "append":
            resp.headerlist.append((o[1], o[2]))
        elif t == "delfirst":
            del resp.headerlist[0:1]
        elif t == "setlist":
            form = o[2]
            resp.headerlist = {"list": list(o[1]), "tuple": tuple(o[1]), "iter": iter(list(o[1]))}[form]
            cells.append(resp.headerlist)
        elif t == "setheaders":
            resp.headers = {"dict": dict(o[1]), "md": MultiDict(o[1]), "list": list(o[1])}[o[2]]
            cells.append(resp.headerlist)
        elif t == "dellist":
            del resp.headerlist
            cells.append(resp.headerlist)
        elif t == "stale":
            if o[1] < len(cells):
                cells[o[1]].append((o[2], o[3]))
        out.append([r, [list(kv) for kv in resp.headerlist], observe(resp.headers, lambda k: k.lower())])
    return out


def rand_rop(rng, ncells):
    t = rng.choice(["via", "via", "via", "append", "delfirst", "setlist", "setheaders", "dellist", "stale"])
    k = rng.choice(["a", "A", "b", "Content-Type", "content-type"])
    v = rng.choice(VALS)
    if t == "via":
        o = rand_op(rng)
        while o[0] == "copy":
            o = rand_op(rng)
        return ("via", o)
    if t == "append":
        return (t, k, v)
    if t == "setlist":
        return (t, rand_pairs(rng), rng.choice(["list", "tuple", "iter"]))
    if t == "setheaders":
        return (t, rand_pairs(rng), rng.choice(["dict", "md", "list"]))
    if t == "stale":
        return (t, rng.randrange(ncells + 1), k, v)
    return (t,)


def rand_resp_history(rng, maxlen):
    init = rand_pairs(rng, 3)
    ops = []
    ncells = 1
    for _ in range(rng.randrange(1, maxlen + 1)):
        o = rand_rop(rng, ncells)
        if o[0] in ("setlist", "setheaders", "dellist"):
            ncells += 1
        ops.append(o)
    return init, ops


def oracle_resp(init, ops):
    """Response.headers must show exactly Response.headerlist after every step (two-way live view)."""
    out = run_resp_impl(init, ops)
    for i, (r, hl, obs) in enumerate(out):
        if obs[0] != hl:
            return "step %d %r: resp.headers shows %r but resp.headerlist is %r" % (i, ops[i], obs[0], hl)
    return None


# ---------------------------------------------------------------- Nested / NoVars
def nested_obs(ds):
    from webob.multidict import MultiDict, NestedMultiDict
    n = NestedMultiDict(*[MultiDict(list(d)) for d in ds])
    ident = lambda k: k  # noqa
    per = [[catch(n.__getitem__, k), catch(n.getall, k), catch(n.getone, k), catch(n.__contains__, k)] for k in PROBE]
    return [[list(kv) for kv in n.items()], len(n), per, canon_dict(n.dict_of_lists(), n, ident),
            canon_dict(n.mixed(), n, ident)]


def oracle_nested(ds):
    from webob.multidict import MultiDict, NestedMultiDict
    n = NestedMultiDict(*[MultiDict(list(d)) for d in ds])
    flat = [kv for d in ds for kv in d]
    ref = Ref(flat, lambda k: k)
    ro = ref.observe(lambda k: k)
    # first part wins for d[k]
    for j, k in enumerate(PROBE):
        for d in ds:
            vs = [v for kk, v in d if kk == k]
            if vs:
                ro[2][j][0] = vs[-1]
                break
    ob = nested_obs(ds)
    if ob != ro:
        return "NestedMultiDict observations %r differ from the concatenation model %r" % (ob, ro)
    if list(n.keys()) != [k for k, _ in flat] or list(n.values()) != [v for _, v in flat] or bool(n) != bool(flat):
        return "NestedMultiDict keys/values/bool differ from the concatenation"
    for name, args in [("__setitem__", ("a", "1")), ("add", ("a", "1")), ("__delitem__", ("a",)), ("clear", ()),
                       ("setdefault", ("a", "1")), ("pop", ("a",)), ("popitem", ()), ("update", ([("a", "1")],))]:
        r = catch(getattr(n, name), *args)
        if r != Err("KeyError"):
            return "NestedMultiDict.%s did not raise KeyError (got %r)" % (name, r)
    if [list(kv) for kv in n.items()] != [list(kv) for kv in flat]:
        return "NestedMultiDict changed by a refused mutator"
    c = n.copy()
    if type(c) is not MultiDict or list(c.items()) != flat:
        return "NestedMultiDict.copy() is not the flat MultiDict"
    # the nested view is live: a later change of a part is seen, and reading never changes the parts
    parts = [MultiDict(list(d)) for d in ds]
    n2 = NestedMultiDict(*parts)
    before = [list(p_.items()) for p_ in parts]
    nested_probe = [list(n2.items()), len(n2), [n2.getall(k) for k in PROBE], n2.mixed(), n2.dict_of_lists()]
    if [list(p_.items()) for p_ in parts] != before:
        return "reading a NestedMultiDict changed one of its parts"
    if parts:
        parts[-1].add("zz", "9")
        if list(n2.items()) != flat + [("zz", "9")] or n2.getall("zz") != ["9"] or len(n2) != len(flat) + 1:
            return "NestedMultiDict does not show a pair added to one of its parts afterwards"
        c.add("yy", "1")
        if "yy" in n or "yy" in n2:
            return "NestedMultiDict.copy() is not independent"
    return None


def oracle_construct(pairs):
    """Constructors copy their argument (except view_list, which aliases by contract); reads leave a dict unchanged."""
    from webob.multidict import MultiDict
    from webob.headers import ResponseHeaders
    for cls in (MultiDict, ResponseHeaders):
        src = list(pairs)
        d = cls(src)
        d.add("k", "v")
        if src != list(pairs):
            return "%s(list) shares the caller's list" % cls.__name__
        d2 = cls(d)
        d2.add("k2", "v2")
        if "k2" in d:
            return "%s(other) shares the other's items" % cls.__name__
        lst = list(pairs)
        v = cls.view_list(lst)
        v.add("w", "1")
        if lst[-1] != ("w", "1"):
            return "%s.view_list does not alias the list" % cls.__name__
        e = cls(list(pairs))
        snap = list(e.items())
        for _ in range(2):
            _ = (list(e.keys()), list(e.values()), e.mixed(), e.dict_of_lists(), [e.getall(k) for k in PROBE],
                 [e.get(k) for k in PROBE], len(e), e.copy())
        if list(e.items()) != snap:
            return "read-only calls changed a %s" % cls.__name__
        m1, m2 = e.mixed(), e.mixed()
        if m1 != m2 or (m1 is m2 and m1):
            return "%s.mixed() is not a fresh, repeatable result" % cls.__name__
        for k, val in list(m1.items()):
            if isinstance(val, list):
                val.append("tamper")
        if e.mixed() != m2 or list(e.items()) != snap:
            return "mutating the result of mixed() changed the %s" % cls.__name__
    return None


ANYVALS = [None, 0, "", "x", ["l"], ("t",), False]


def rand_any_history(rng, maxlen):
    """Histories whose values are arbitrary Python objects (None, numbers, lists...): the list model does not care
    what a value is, and neither may the implementation (e.g. a stored None is a value, not an absent key)."""
    def pairs(n=3):
        return [(rng.choice(KEYS), rng.choice(ANYVALS)) for _ in range(rng.randrange(n + 1))]
    ops = []
    for _ in range(rng.randrange(1, maxlen + 1)):
        t = rng.choice(["set", "add", "del", "pop", "popitem", "setdefault", "update", "extend", "copy"])
        k = rng.choice(KEYS + ["c"])
        v = rng.choice(ANYVALS)
        if t in ("set", "add", "setdefault"):
            ops.append((t, k, v))
        elif t == "del":
            ops.append((t, k))
        elif t == "pop":
            has = rng.random() < 0.5
            ops.append((t, k, has, rng.choice(ANYVALS) if has else None))
        elif t == "update":
            ops.append((t, pairs()))
        elif t == "extend":
            ops.append((t, pairs(), rng.choice(["list", "md", "iter"])))
        else:
            ops.append((t,))
    return pairs(4), ops


def oracle_novars():
    from webob.multidict import NoVars
    n = NoVars("why")
    checks = [
        (len(n), 0), (list(n.keys()), []), (list(n.items()), []), (list(n.values()), []), (list(iter(n)), []),
        (n.get("a"), None), (n.get("a", 5), 5), (n.getall("a"), []), (n.mixed(), {}), (n.dict_of_lists(), {}),
        ("a" in n, False), (n.copy() is n, True), (bool(n), False),
        (catch(n.__getitem__, "a"), Err("KeyError")), (catch(n.getone, "a"), Err("KeyError")),
        (catch(n.__setitem__, "a", "1"), Err("KeyError")), (catch(n.add, "a", "1"), Err("KeyError")),
        (catch(n.setdefault, "a", "1"), Err("KeyError")), (catch(n.update, {"a": "1"}), Err("KeyError")),
        (catch(n.__delitem__, "a"), Err("KeyError")), (catch(n.clear), Err("KeyError")),
        (catch(n.pop, "a"), Err("KeyError")), (catch(n.popitem), Err("KeyError")),
    ]
    for i, (got, want) in enumerate(checks):
        if got != want:
            return "NoVars check #%d: got %r, expected %r" % (i, got, want)
    return None


# ---------------------------------------------------------------- the check
def classify(msg):
    return "multimap-model"


MODELLED = [
    "webob.multidict:MultiDict.__getitem__", "webob.multidict:MultiDict.__setitem__", "webob.multidict:MultiDict.add",
    "webob.multidict:MultiDict.getall", "webob.multidict:MultiDict.getone", "webob.multidict:MultiDict.mixed",
    "webob.multidict:MultiDict.dict_of_lists", "webob.multidict:MultiDict.__delitem__", "webob.multidict:MultiDict.__contains__",
    "webob.multidict:MultiDict.clear", "webob.multidict:MultiDict.copy", "webob.multidict:MultiDict.setdefault",
    "webob.multidict:MultiDict.pop", "webob.multidict:MultiDict.popitem", "webob.multidict:MultiDict.update",
    "webob.multidict:MultiDict.extend", "webob.multidict:MultiDict.view_list", "webob.multidict:NestedMultiDict",
    "webob.headers:ResponseHeaders", "webob.response:Response._headerlist__get", "webob.response:Response._headerlist__set",
    "webob.response:Response._headerlist__del", "webob.response:Response._headers__get", "webob.response:Response._headers__set",
]
MODELLED += ["webob.multidict:GetDict.on_change", "webob.multidict:GetDict.__setitem__", "webob.multidict:GetDict.add",
             "webob.multidict:GetDict.__delitem__", "webob.multidict:GetDict.clear", "webob.multidict:GetDict.setdefault",
             "webob.multidict:GetDict.pop", "webob.multidict:GetDict.popitem", "webob.multidict:GetDict.update",
             "webob.multidict:GetDict.extend"]
ORACLE_ONLY = ["webob.multidict:NoVars", "webob.multidict:GetDict.copy", "webob.multidict:GetDict.__repr__"]


def run(ctx):
    ctx.modelled(MODELLED)
    ctx.extra["oracle_only"] = ORACLE_ONLY
    ctx.build(["Props/C08.vo"])
    rng = ctx.sub_rng("corr")
    n = ctx.scale(500, 2500)
    maxlen = ctx.scale(10, 14)
    probe = clist(cstr(k) for k in PROBE)

    # ---- correspondence: model vs implementation
    for cls, fn in (("md", "run_multidict"), ("rh", "run_respheaders")):
        cases = []
        for _ in range(n):
            init, ops = rand_history(rng, maxlen)
            out = run_impl(cls, init, ops)
            cases.append((cpair(citems(init), clist(cop(o) for o in ops)), out, {"class": cls, "init": init, "ops": ops}))
        bad = ctx.corr(cls, IMPORTS, "(fun c => %s %s (fst c) (snd c))" % (fn, probe), cases, in_type="(items * list op)")
        for i in bad[:5]:
            case = cases[i][2]
            msg = oracle_history(cls, case["init"], case["ops"])
            if msg:
                ctx.fail("multimap-model:" + cls, msg, case, True, "corr")
            else:
                ctx.broken.append("correspondence %s: model and implementation disagree on %s" % (cls, json.dumps(case)))
    cases = []
    for _ in range(n):
        init, ops = rand_resp_history(rng, maxlen)
        out = run_resp_impl(init, ops)
        cases.append((cpair(citems(init), clist(crop(o) for o in ops)), out, {"class": "response", "init": init, "ops": ops}))
    bad = ctx.corr("response-headers", IMPORTS, "(fun c => run_response_headers %s (fst c) (snd c))" % probe, cases,
                   in_type="(items * list rop)")
    for i in bad[:5]:
        case = cases[i][2]
        msg = oracle_resp(case["init"], case["ops"])
        if msg:
            ctx.fail("headers-view", msg, case, True, "corr")
        else:
            ctx.broken.append("correspondence response-headers: model and implementation disagree on %s" % json.dumps(case))
    cases = []
    for _ in range(n // 2):
        ds = [rand_pairs(rng, 3) for _ in range(rng.randrange(0, 4))]
        cases.append((clist(citems(d) for d in ds), nested_obs(ds), {"class": "nested", "parts": ds}))
    bad = ctx.corr("nested", IMPORTS, "(fun ds => observe_nested %s ds)" % probe, cases, in_type="(list items)")
    for i in bad[:5]:
        case = cases[i][2]
        msg = oracle_nested(case["parts"])
        if msg:
            ctx.fail("nested-concat", msg, case, True, "corr")
        else:
            ctx.broken.append("correspondence nested: model and implementation disagree on %s" % json.dumps(case))

    # ---- GetDict: write-back and refused writes (model C08_GetDict.v) vs the real class
    cases = []
    for _ in range(n):
        init, ops = rand_gd_history(rng, maxlen)
        out = run_getdict_impl(init, ops)
        cases.append((cpair(citems(init), clist(cgop(o) for o in ops)), out, {"class": "getdict", "init": init, "ops": ops}))
    bad = ctx.corr("getdict", IMPORTS + ["Webob.Model.C08_GetDict"], "(fun c => run_getdict (fst c) (snd c))", cases,
                   in_type="(items * list gop)")
    for i in bad[:5]:
        case = cases[i][2]
        msg = oracle_getdict(case["init"], case["ops"])
        if msg:
            ctx.fail("getdict:write-back", msg, case, True, "corr")
        else:
            ctx.broken.append("correspondence getdict: model and implementation disagree on %s" % json.dumps(case))
    r5 = ctx.sub_rng("oracle-getdict")
    m5 = ctx.scale(3000, 40000)
    for _ in range(m5):
        init, ops = rand_gd_history(r5, 30)
        msg = oracle_getdict(init, ops)
        if msg:
            ctx.fail("getdict:write-back", msg, {"class": "getdict", "init": init, "ops": ops}, True, "getdict-writeback")
    ctx.oracle_count("getdict-writeback", m5, m5)

    # ---- oracle: the list model against the implementation, exhaustive small histories then random deeper
    U = op_universe()
    depth = ctx.scale(2, 3)
    for cls in ("md", "rh", "get"):
        cnt = 0
        for d in range(1, depth + 1):
            for ops in itertools.product(U, repeat=d):
                for init in ([], [("a", "1"), ("A", "2"), ("a", "2")]):
                    cnt += 1
                    msg = oracle_history(cls, init, list(ops))
                    if msg:
                        ctx.fail("multimap-model:" + cls, msg, {"class": cls, "init": init, "ops": list(ops)}, True)
        ctx.oracle_count("exhaustive-" + cls, cnt, cnt)
        r2 = ctx.sub_rng("oracle-" + cls)
        m = ctx.scale(1500, 30000)
        for _ in range(m):
            init, ops = rand_history(r2, 40)
            msg = oracle_history(cls, init, ops)
            if msg:
                ctx.fail("multimap-model:" + cls, msg, {"class": cls, "init": init, "ops": ops}, True)
        ctx.oracle_count("random-" + cls, m, m)
    r3 = ctx.sub_rng("oracle-resp")
    m = ctx.scale(2000, 40000)
    for _ in range(m):
        init, ops = rand_resp_history(r3, 25)
        msg = oracle_resp(init, ops)
        if msg:
            ctx.fail("headers-view", msg, {"class": "response", "init": init, "ops": ops}, True)
    ctx.oracle_count("response-view", m, m)
    for _ in range(m // 4):
        ds = [rand_pairs(r3, 3) for _ in range(r3.randrange(0, 4))]
        msg = oracle_nested(ds)
        if msg:
            ctx.fail("nested-concat", msg, {"class": "nested", "parts": ds}, True)
    ctx.oracle_count("nested", m // 4, m // 4)
    r4 = ctx.sub_rng("oracle-anyvalues")
    m4 = ctx.scale(2500, 40000)
    for _ in range(m4):
        init, ops = rand_any_history(r4, 12)
        msg = oracle_history("md", init, ops)
        if msg:
            ctx.fail("multimap-model:md:non-str-values", msg, {"class": "md", "init": init, "ops": ops}, True)
        ds = [[(r4.choice(KEYS), r4.choice(ANYVALS)) for _ in range(r4.randrange(0, 4))] for _ in range(r4.randrange(0, 4))]
        msg = oracle_nested(ds)
        if msg:
            ctx.fail("nested-concat:non-str-values", msg, {"class": "nested", "parts": ds}, True)
    ctx.oracle_count("any-values", 2 * m4, 2 * m4)
    for _ in range(ctx.scale(300, 3000)):
        pairs = rand_pairs(r3, 4)
        msg = oracle_construct(pairs)
        if msg:
            ctx.fail("construct-or-read-mutates", msg, {"class": "construct", "pairs": pairs}, True)
    ctx.oracle_count("construct", ctx.scale(300, 3000), ctx.scale(300, 3000))
    msg = oracle_novars()
    if msg:
        ctx.fail("novars", msg, {"class": "novars"}, True)
    ctx.oracle_count("novars", 1, 1)
    ctx.extra["rule"] = ("correspondence: random operation histories (length<=%d) over keys with case variants, each compared "
                         "step by step (return value + all observations) between the Gallina model and the real class; "
                         "oracle: every history of depth<=%d over a %d-op universe x 2 initial lists, plus random histories "
                         "of length<=40, against the Python list-of-pairs model; all counted cases are distinct histories "
                         "with at least one mutating step" % (maxlen, depth, len(U)))
    ctx.extra["exhaustive"] = False
    ctx.assume += ["keys and values are str; unhashable or non-str keys are outside the model",
                   "str.lower is modelled for code points < 256 only"]


def replay(ctx, path):
    data = json.load(open(path))
    case = data["case"]
    cls = case.get("class")
    if cls in ("md", "rh", "get"):
        ops = [tuple(tuple(x) if isinstance(x, list) and x and isinstance(x[0], str) and False else x for x in o) for o in case["ops"]]
        ops = [tuple([o[0]] + [[tuple(p) for p in a] if isinstance(a, list) else a for a in o[1:]]) for o in case["ops"]]
        msg = oracle_history(cls, [tuple(p) for p in case["init"]], ops)
    elif cls == "getdict":
        ops = [tuple([o[0]] + [[tuple(p) for p in a] if isinstance(a, list) else a for a in o[1:]]) for o in case["ops"]]
        msg = oracle_getdict([tuple(p) for p in case["init"]], ops)
    elif cls == "response":
        def fix(o):
            if o[0] == "via":
                return ("via", tuple([o[1][0]] + [[tuple(p) for p in a] if isinstance(a, list) else a for a in o[1][1:]]))
            return tuple([o[0]] + [[tuple(p) for p in a] if isinstance(a, list) else a for a in o[1:]])
        msg = oracle_resp([tuple(p) for p in case["init"]], [fix(o) for o in case["ops"]])
    elif cls == "nested":
        msg = oracle_nested([[tuple(p) for p in d] for d in case["parts"]])
    elif cls == "construct":
        msg = oracle_construct([tuple(p_) for p_ in case["pairs"]])
    elif cls == "novars":
        msg = oracle_novars()
    else:
        print("replay: nothing executable in this file (broken obligation): %s" % data.get("what"))
        return 1
    if msg:
        print("VIOLATION property=C08 replay=%s" % path)
        print("  " + msg)
        return 1
    print("replay passes on the current tree")
    return 0
