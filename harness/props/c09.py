"""C09 — query and form decoding match urlencoded/multipart formats and write back.

Tie to the source: correspondence of coq/Model/C09_QueryCodec.v (unquote, parse_qsl_text, on_change,
the request.GET state machine, transcode_query), coq/Lib/C09_Utf8.v and coq/Model/C09_Multipart.v
(_encode_multipart framing, reference splitter vs cgi.FieldStorage) with the real webob functions, plus
an oracle that evaluates the property text on the public API: request.GET against an independent
reference x-www-form-urlencoded decoder, write-back after every mutation, Request.blank(POST=...)
round trips (urlencoded and multipart), params order, and request.decode(charset).
"""
import itertools
import json
import mimetypes
import re
import urllib.parse

from harness import fw
from harness.fw import Err, catch, cstr, clist, cpair, copt

IMPORTS = ["Webob.Lib.PyStr", "Webob.Lib.C09_Utf8", "Webob.Model.MultiDict", "Webob.Model.C09_QueryCodec",
           "Webob.Model.C09_Multipart", "Webob.Model.C09_Held"]

UDE = Err("UnicodeDecodeError")


# ===================================================================== the statement's reference decoder
_HEX = frozenset(b"0123456789abcdefABCDEF")


def ref_unquote(b):
    """%XX (two hex digits) is an octet; any other '%' stands for itself."""
    out = bytearray()
    i, n = 0, len(b)
    while i < n:
        c = b[i]
        if c == 0x25 and i + 2 < n and b[i + 1] in _HEX and b[i + 2] in _HEX:
            out.append(int(b[i + 1:i + 3], 16))
            i += 3
        else:
            out.append(c)
            i += 1
    return bytes(out)


def ref_decode_qs(qs, cs="utf-8"):
    """Reference application/x-www-form-urlencoded decoder of the property text (octets are UTF-8, or charset cs
    for a query submitted in cs).  qs: WSGI native string (latin-1).  Returns list of [name, value] or
    Err(UnicodeDecodeError)."""
    raw = qs.encode("latin-1")
    out = []
    for field in re.split(b"[&;]", raw):
        if not field:
            continue
        name, _, value = field.partition(b"=")
        try:
            out.append([ref_unquote(name.replace(b"+", b" ")).decode(cs),
                        ref_unquote(value.replace(b"+", b" ")).decode(cs)])
        except UnicodeDecodeError:
            return UDE
    return out


def ref_selfcheck(qs):
    """The reference itself against urllib (which knows one separator and ASCII input only)."""
    if ";" in qs or any(ord(c) > 127 for c in qs):
        return None
    try:
        want = [list(kv) for kv in urllib.parse.parse_qsl(qs, keep_blank_values=True, encoding="utf-8",
                                                          errors="strict")]
    except UnicodeDecodeError:
        want = UDE
    got = ref_decode_qs(qs)
    if got != want:
        return "reference decoder %r differs from urllib.parse.parse_qsl %r on %r" % (got, want, qs)
    return None


# ===================================================================== implementation adaptors
def new_request(qs):
    from webob import Request
    env = {"QUERY_STRING": qs, "REQUEST_METHOD": "GET", "SCRIPT_NAME": "", "PATH_INFO": "/",
           "SERVER_NAME": "localhost", "SERVER_PORT": "80", "wsgi.url_scheme": "http"}
    return Request(env), env


def impl_get(qs):
    req, _ = new_request(qs)
    return catch(lambda: [list(kv) for kv in req.GET.items()])


def impl_parse(qs):
    from webob.util import parse_qsl_text
    return catch(lambda: [list(kv) for kv in parse_qsl_text(qs)])


def impl_unquote(b):
    from webob.util import unquote
    return catch(unquote, b)


def impl_on_change(items):
    from webob.multidict import GetDict
    env = {}
    d = GetDict(list(items), env)
    r = catch(d.on_change)
    return r if isinstance(r, Err) else env["QUERY_STRING"]


def impl_transcode(cs, q):
    from webob.request import Transcoder
    return catch(Transcoder(cs).transcode_query, q)


# ===================================================================== oracle: GET decoding
_MALFORMED = re.compile(r"%(?![0-9a-fA-F]{2})")


def classify_query(qs, got, want):
    malformed = bool(_MALFORMED.search(qs.replace("+", " ")))
    if isinstance(got, Err) and got.name == "ValueError" and malformed:
        return "unquote:malformed-escape-raises"
    if isinstance(got, Err) and got != want:
        return "query-decode:raises-" + got.name
    if malformed:
        return "unquote:malformed-escape-decoded"
    return "query-decode:pairs-differ"


def oracle_query(qs, via_request=True):
    """None if request.GET decodes qs exactly like the reference decoder."""
    want = ref_decode_qs(qs)
    got = impl_get(qs) if via_request else impl_parse(qs)
    if got != want:
        return classify_query(qs, got, want), "QUERY_STRING %r: request.GET gives %r, reference decoder gives %r" % (
            qs, got, want)
    return None


# ===================================================================== GET histories (mutation + write-back)
def citems(l):
    return clist(cpair(cstr(k), cstr(v)) for k, v in l)


def cop(o):
    t = o[0]
    if t == "set":
        return "(OSet %s %s)" % (cstr(o[1]), cstr(o[2]))
    if t == "add":
        return "(OAdd %s %s)" % (cstr(o[1]), cstr(o[2]))
    if t == "del":
        return "(ODel %s)" % cstr(o[1])
    if t == "pop":
        if not o[2]:
            return "(OPop %s None)" % cstr(o[1])
        return "(OPop %s (Some %s))" % (cstr(o[1]), copt(None if o[3] is None else cstr(o[3])))
    if t == "popitem":
        return "OPopItem"
    if t == "setdefault":
        return "(OSetDefault %s (Some %s))" % (cstr(o[1]), cstr(o[2]))
    if t in ("update", "update_dict"):
        pairs = o[1] if t == "update" else list(dict(o[1]).items())
        return "(OUpdate %s)" % citems(pairs)
    if t == "update_md":
        return "(OUpdateMD %s)" % citems(o[1])
    if t == "extend":
        pairs = list(dict(o[1]).items()) if o[2] == "dict" else o[1]
        return "(OExtend %s)" % citems(pairs)
    if t == "clear":
        return "OClear"
    if t == "copy":
        return "OCopy"
    # argument shapes that are other spellings of the same list-model operation
    if t == "update_kw":
        return "(OUpdate %s)" % citems(list(dict(o[1]).items()))
    if t == "update_both":
        return "(OUpdate %s)" % citems(list(o[1]) + list(dict(o[2]).items()))
    if t == "extend_kw":          # MultiDict.extend(**kw) hands the keywords to update(): set semantics
        return "(OUpdate %s)" % citems(list(dict(o[1]).items()))
    if t == "extend_none":
        return "(OExtend [])"
    if t == "extend_self":
        return "OExtendSelf"
    if t == "update_empty":
        return "(OUpdate [])"
    if t == "pop_identity":
        return "(OPop %s (Some (Some %s)))" % (cstr(o[1]), cstr("dflt"))
    if t == "setdefault_nodefault":
        return "(OSetDefault %s None)" % cstr(o[1])
    raise ValueError(o)


def crq(o):
    if o[0] == "delqs":
        return "(RSetQS (@nil N))"
    if o[0] == "setqs":
        return "(RSetQS %s)" % cstr(o[1])
    return "(RGet %s)" % cop(o)


def apply_op(d, o):
    """Apply op to a real GetDict; returns the return value or Err."""
    from webob.multidict import MultiDict
    t = o[0]
    if t == "set":
        return catch(d.__setitem__, o[1], o[2])
    if t == "add":
        return catch(d.add, o[1], o[2])
    if t == "del":
        return catch(d.__delitem__, o[1])
    if t == "pop":
        return catch(d.pop, o[1], o[3]) if o[2] else catch(d.pop, o[1])
    if t == "popitem":
        r = catch(d.popitem)
        return list(r) if isinstance(r, tuple) else r
    if t == "setdefault":
        return catch(d.setdefault, o[1], o[2])
    if t == "update":
        return catch(d.update, list(o[1]))
    if t == "update_dict":
        return catch(d.update, dict(o[1]))
    if t == "update_md":
        return catch(d.update, MultiDict(o[1]))
    if t == "extend":
        arg = {"list": list(o[1]), "dict": dict(o[1]), "md": MultiDict(o[1]), "iter": iter(list(o[1]))}[o[2]]
        return catch(d.extend, arg)
    if t == "clear":
        return catch(d.clear)
    if t == "copy":
        c = d.copy()
        c.add("zz", "untracked")        # a copy must not write back
        return None
    if t == "update_kw":
        return catch(lambda: d.update(**dict(o[1])))
    if t == "update_both":
        return catch(lambda: d.update(list(o[1]), **dict(o[2])))
    if t == "extend_kw":
        return catch(lambda: d.extend(**dict(o[1])))
    if t == "extend_both":
        return catch(lambda: d.extend(list(o[1]), **dict(o[2])))
    if t == "extend_none":
        return catch(d.extend, None)
    if t == "extend_self":          # the argument aliases the GetDict itself
        return catch(d.extend, d if o[1] == 0 else (d.items() if o[1] == 1 else iter(list(d.items()))))
    if t == "update_empty":
        return catch(d.update)
    if t == "pop_identity":
        # the default is an object of the caller's (or the very object stored): it must come back as it is
        stored = [v for k, v in d.items() if k == o[1]]
        dflt = stored[0] if stored else _SENTINEL
        r = catch(d.pop, o[1], dflt)
        if r is _SENTINEL:
            return "dflt"
        return r if (isinstance(r, Err) or not stored or r is stored[0]) else Err("NotTheStoredObject")
    if t == "setdefault_nodefault":
        # only issued for keys that exist (a missing key would store None: outside the text domain, see oracle_outside)
        return catch(d.setdefault, o[1]) if o[1] in d else None
    raise ValueError(o)


class _Sentinel:
    pass


_SENTINEL = _Sentinel()


def ref_apply(l, o):
    """The list-of-pairs model (C08) of one operation: (new list, return value)."""
    t = o[0]
    hit = lambda k: [i for i, kv in enumerate(l) if kv[0] == k]  # noqa
    if t == "set":
        return [kv for kv in l if kv[0] != o[1]] + [[o[1], o[2]]], None
    if t == "add":
        return l + [[o[1], o[2]]], None
    if t == "del":
        if not hit(o[1]):
            return l, Err("KeyError")
        return [kv for kv in l if kv[0] != o[1]], None
    if t == "pop":
        h = hit(o[1])
        if h:
            return l[:h[0]] + l[h[0] + 1:], l[h[0]][1]
        return l, (o[3] if o[2] else Err("KeyError"))
    if t == "popitem":
        return (l[:-1], list(l[-1])) if l else (l, Err("IndexError"))
    if t == "setdefault":
        h = hit(o[1])
        if h:
            return l, l[h[0]][1]
        return l + [[o[1], o[2]]], o[2]
    if t in ("update", "update_dict"):
        pairs = o[1] if t == "update" else list(dict(o[1]).items())
        for k, v in pairs:
            l, _ = ref_apply(l, ("set", k, v))
        return l, None
    if t == "update_md":
        for k, _ in o[1]:
            l, _ = ref_apply(l, ("set", k, [v for kk, v in o[1] if kk == k][-1]))
        return l, None
    if t == "extend":
        return l + [list(kv) for kv in (list(dict(o[1]).items()) if o[2] == "dict" else o[1])], None
    if t == "clear":
        return [], None
    if t == "copy":
        return l, None
    if t == "update_kw":
        return ref_apply(l, ("update", list(dict(o[1]).items())))
    if t == "update_both":
        return ref_apply(l, ("update", list(o[1]) + list(dict(o[2]).items())))
    if t == "extend_kw":
        return ref_apply(l, ("update", list(dict(o[1]).items())))
    if t == "extend_both":          # the positional part is appended, the keywords are then set
        l, _ = ref_apply(l, ("extend", list(o[1]), "list"))
        return ref_apply(l, ("update", list(dict(o[2]).items())))
    if t == "extend_none":
        return l, None
    if t == "extend_self":
        return l + [list(kv) for kv in l], None
    if t == "update_empty":
        return l, None
    if t == "pop_identity":
        return ref_apply(l, ("pop", o[1], True, "dflt"))
    if t == "setdefault_nodefault":
        h = [kv for kv in l if kv[0] == o[1]]
        return l, (h[0][1] if h else None)
    raise ValueError(o)


def set_qs(req, env, o):
    """A raw edit of the query string: through the environ, through the query_string attribute, or by deleting the key."""
    if o[0] == "delqs":
        env.pop("QUERY_STRING", None)
        return ""
    if len(o) > 2 and o[2] == "attr":
        req.query_string = o[1]
    else:
        env["QUERY_STRING"] = o[1]
    return o[1]


def run_get_history(qs0, ops):
    """Observations after each step: [return value / exception, list(req.GET.items()) / exception, QUERY_STRING]."""
    req, env = new_request(qs0)
    out = []
    for o in ops:
        if o[0] in ("setqs", "delqs"):
            set_qs(req, env, o)
            ret = None
        else:
            g = catch(lambda: req.GET)
            ret = g if isinstance(g, Err) else apply_op(g, o)
        items = catch(lambda: [list(kv) for kv in req.GET.items()])
        out.append([ret, items, env.get("QUERY_STRING", "")])
    return out


def oracle_history(qs0, ops):
    """After every step: request.GET == list model of the mutation applied to the reference decoding, and a
    brand-new Request parsing the current QUERY_STRING sees the same ordered pairs."""
    req, env = new_request(qs0)
    cur = ref_decode_qs(qs0)
    r0 = oracle_query(qs0)
    if r0:
        return r0
    for i, o in enumerate(ops):
        if o[0] in ("setqs", "delqs"):
            cur = ref_decode_qs(set_qs(req, env, o))
            ret = want_ret = None
        else:
            g = catch(lambda: req.GET)
            if isinstance(cur, Err):
                if g != cur:
                    return classify_query(env.get("QUERY_STRING", ""), g, cur), \
                        "step %d: request.GET on %r gives %r, reference %r" % (i, env.get("QUERY_STRING", ""), g, cur)
                continue
            if isinstance(g, Err):
                return classify_query(env.get("QUERY_STRING", ""), g, cur), \
                    "step %d: request.GET on %r raises %r, reference %r" % (i, env.get("QUERY_STRING", ""), g, cur)
            ret = apply_op(g, o)
            cur, want_ret = ref_apply(cur, o)
            if ret != want_ret:
                return "mutation:return-value", "step %d %r returned %r, list model says %r" % (i, o, ret, want_ret)
        qs = env.get("QUERY_STRING", "")
        items = catch(lambda: [list(kv) for kv in req.GET.items()])
        if items != cur:
            if o[0] not in ("setqs", "delqs"):
                key = "mutation:items"
            elif impl_get(qs) == cur:
                key = "get-cache:stale-after-query-string-assignment"
            else:
                key = classify_query(qs, items, cur)
            return key, "step %d %r: request.GET shows %r, expected %r" % (i, o, items, cur)
        wrote = o[0] not in ("setqs", "delqs", "copy") and not isinstance(ret, Err)
        if wrote and (not isinstance(qs, str) or any(ord(c) > 127 for c in qs)):
            return "mutation:query-string-not-ascii", "step %d %r: QUERY_STRING %r" % (i, o, qs)
        fresh = impl_get(qs)
        if fresh != cur:
            return "mutation:write-back", ("step %d %r: request.GET shows %r but a fresh parse of QUERY_STRING %r "
                                           "gives %r" % (i, o, items, qs, fresh))
    return None


TEXTS = ["a", "b", "A", "", "x y", "k&", "=;", "+ %", "%41", "%zz", "\xe9", "€", "\U0001f600", "\x00\r\n", '"\\',
         "a=b&c=d;e", "日本", "~._-", "\x7f\x80\xff", "'()*!"]


def rand_text(rng):
    if rng.random() < 0.7:
        return rng.choice(TEXTS)
    n = rng.randrange(0, 6)
    return "".join(rng.choice("ab&;=+% \r\n\x00\"\\\xe9€\U0001f600퟿￿\U0010ffff~/?#") for _ in range(n))


def rand_pairs(rng, n=3):
    return [(rand_text(rng), rand_text(rng)) for _ in range(rng.randrange(n + 1))]


def rand_op(rng, with_setqs=True):
    kinds = ["set", "set", "add", "add", "del", "pop", "pop", "popitem", "setdefault", "update", "update_dict",
             "update_md", "extend", "clear", "copy"] + (["setqs"] if with_setqs else [])
    t = rng.choice(kinds)
    k, v = rand_text(rng), rand_text(rng)
    if t in ("set", "add", "setdefault"):
        return (t, k, v)
    if t == "del":
        return (t, k)
    if t == "pop":
        has = rng.random() < 0.5
        return (t, k, has, rng.choice([None, "dflt"]) if has else None)
    if t in ("update", "update_dict", "update_md"):
        return (t, rand_pairs(rng))
    if t == "extend":
        return (t, rand_pairs(rng), rng.choice(["list", "dict", "md", "iter"]))
    if t == "setqs":
        r = rng.random()
        if r < 0.1:
            return ("delqs",)
        return (t, rand_qs(rng, 12), "attr") if r < 0.4 else (t, rand_qs(rng, 12))
    return (t,)


def rand_op_shapes(rng, model=True):
    """Other argument shapes of the same methods (keywords, both, None, no argument, identity defaults).
    model=True: only shapes that are ONE operation of the Gallina op type (extend(list, **kw) is two)."""
    t = rng.choice(["update_kw", "update_both", "extend_kw", "extend_none", "update_empty", "pop_identity",
                    "pop_identity", "extend_self"] + ([] if model else ["extend_both", "extend_both"]))
    if t == "extend_self":
        return (t, rng.randrange(3))
    if t in ("update_kw", "extend_kw"):
        return (t, rand_pairs(rng))
    if t in ("update_both", "extend_both"):
        return (t, rand_pairs(rng, 2), rand_pairs(rng, 2))
    if t == "pop_identity":
        return (t, rand_text(rng))
    return (t,)


QS_ALPHA = ["%", "+", "&", ";", "=", "a", "4", "z", "\xc3", "\xa9"]
QS_ALPHA2 = ["%", "2", "B", "6", "3", "b", "+", "="]
QS_CHUNKS = QS_ALPHA + ["%C3%A9", "%c3%a9", "%E2%82%AC", "%F0%9F%98%80", "%41", "%2B", "%26", "%3d", "%25", "%0", "%g1",
                        "%1g", "%+5", "%5 ", "% 5", "%-1", "%0x", "%_1", "%1_", "%u20ac", "%%", "F", "f", "0", "9", "G",
                        "%c3%A9", "%C3%a9", "%e2%82%aC", "%aB", "%Ab", "%fF", "%Ff", "%eD%a0%80",
                        " ", "\x00", "\xff", "%ED%A0%80", "%C0%80", "%F4%90%80%80", "b", "k", "\xe2\x82\xac", "%e9"]


def rand_qs(rng, maxlen):
    return "".join(rng.choice(QS_CHUNKS) for _ in range(rng.randrange(maxlen + 1)))


def rand_valid_qs(rng):
    return urllib.parse.urlencode([(k.encode("utf-8"), v.encode("utf-8")) for k, v in rand_pairs(rng, 4)])


def rand_history(rng, maxlen, with_setqs=True):
    qs0 = rand_qs(rng, 8) if rng.random() < 0.5 else rand_valid_qs(rng)
    return qs0, [rand_op_shapes(rng) if rng.random() < 0.2 else rand_op(rng, with_setqs)
                 for _ in range(rng.randrange(1, maxlen + 1))]


def small_op_universe():
    u = []
    for k in ("a", "&=", "\xe9"):
        for v in ("1", "+ %;"):
            u += [("set", k, v), ("add", k, v)]
        u += [("del", k), ("pop", k, False, None), ("pop", k, True, "9"), ("setdefault", k, "3")]
    u += [("popitem",), ("clear",), ("copy",), ("update", [("a", "5"), ("&=", "6"), ("a", "7")]),
          ("update_dict", [("\xe9", "5")]), ("update_md", [("a", "5"), ("b", "6"), ("a", "7")]),
          ("extend", [("a", "5"), ("&=", "€")], "list"), ("extend", [("b", "5")], "dict"),
          ("extend", [("b", "5"), ("b", "6")], "md"), ("extend", [("=", "8")], "iter"),
          ("setqs", "a=%zz;b=+"), ("setqs", "")]
    return u


def fix_op(o):
    """JSON round trip turns tuples into lists."""
    o = list(o)
    if o[0] in ("update", "update_dict", "update_md", "extend", "update_kw", "extend_kw", "update_both", "extend_both"):
        o[1] = [tuple(p) for p in o[1]]
    if o[0] in ("update_both", "extend_both"):
        o[2] = [tuple(p) for p in o[2]]
    return tuple(o)


# ===================================================================== POST round trips
def guess_mime(fn):
    """The MIME type _encode_multipart writes for an upload: guessed from the file NAME (its last path component),
    never by reading the name as a URL."""
    import os
    return mimetypes.guess_type(os.path.basename(fn))[0]


def field_lit(f):
    name, v = f
    if isinstance(v, str):
        return "(%s, MText %s)" % (cstr(name), cstr(v))
    fn, content = v
    mime = guess_mime(fn)
    return "(%s, MFile %s %s %s)" % (cstr(name), cstr(fn), copt(None if mime is None else cstr(mime)), cstr(content))


def canon_post(md):
    out = []
    for k, v in md.items():
        if hasattr(v, "filename") and hasattr(v, "file"):
            v.file.seek(0)
            out.append([k, v.filename, v.file.read()])
        else:
            out.append([k, v])
    return out


def want_post(fields):
    return [[k, v] if isinstance(v, str) else [k, v[0], bytes(v[1])] for k, v in fields]


def post_roundtrip(fields, mode="multipart", form="list", qs="q=1&r=%C3%A9"):
    """None if Request.blank(POST=fields) is recovered intact by request.POST and params = GET + POST."""
    from webob import Request
    from webob.multidict import MultiDict
    kw = {}
    if mode != "auto":
        kw["content_type"] = {"multipart": "multipart/form-data",
                              "urlencoded": "application/x-www-form-urlencoded"}[mode]
    data = {"list": lambda: list(fields), "tuple": lambda: tuple(fields), "md": lambda: MultiDict(fields)}[form]()
    want = want_post(fields)
    try:
        req = Request.blank("/?" + qs, POST=data, **kw)
        got = canon_post(req.POST)
        get = [list(kv) for kv in req.GET.items()]
        params = canon_post(req.params)
        ctype = req.content_type
    except Exception as e:  # noqa
        return "Request.blank(POST=%r, %s, %s) / request.POST raised %s: %s" % (fields, mode, form, type(e).__name__, e)
    if got != want:
        return "Request.blank(POST=%r) [%s, %s, sent as %s]: request.POST gives %r" % (fields, mode, form, ctype, got)
    if params != get + want:
        return "params %r is not GET %r followed by POST %r" % (params, get, want)
    return None


def classify_post(fields, mode):
    files = [(k, v) for k, v in fields if not isinstance(v, str)]
    if any(k.endswith("\\") for k, _ in files):
        return "multipart:name-trailing-backslash-file"
    if any(v[0] == "" for _, v in files):
        return "multipart:empty-filename-not-an-upload"
    if any((mimetypes.guess_type(v[0])[0] or "").lower().startswith("multipart/") for _, v in files):
        return "multipart:filename-read-as-data-url"
    if mode != "urlencoded" and any('"' in s or "\\" in s for k, v in fields
                                    for s in ([k] if isinstance(v, str) else [k, v[0]])):
        return "multipart:quote-backslash-in-name"
    if mode == "auto" and files:
        return "post:list-with-files-sent-urlencoded"
    return "post-roundtrip:" + mode


def oracle_post(fields, mode, form):
    msg = post_roundtrip(fields, mode, form)
    if not msg:
        return None
    # shrink to a single offending field where possible, so that the key names one defect
    for f in fields:
        m1 = post_roundtrip([f], mode, form)
        if m1:
            return classify_post([f], mode), m1, [f]
    return classify_post(fields, mode), msg, fields


NAME_CHUNKS = ["a", "b", "name", "", " ", ";", "=", "&", '"', "\\", '\\"', "\\\\", '";x="', "\x00", "\t", "\xe9",
               "€", "\U0001f600", "%41", "+", ":", "/", "[]", "'", "\x0b", "\x0c", "\x1c", "\x85", " ",
               "filename=", "; filename=\"x\"", "--", "\x7f", "", "\U0010ffff"]
VALUE_CHUNKS = NAME_CHUNKS + ["\r", "\n", "\r\n", "\r\n\r\n", "\r\n--", "value", "x" * 40]
LONG_CHUNKS = ["x" * 400, "\r\n", "\r", "\n", "\xe9" * 300, "line\r\n" * 90, "y" * 1001, "\n\r", "--"]
EXTS = ["", ".txt", ".png", ".bin", ".tar.gz", ".HTML", ".js", ".unknown"]


def rand_name(rng, maxn=3):
    return "".join(rng.choice(NAME_CHUNKS) for _ in range(rng.randrange(maxn + 1)))


def rand_value(rng, maxn=4):
    if rng.random() < 0.06:        # > 1000 characters with CR / LF: cgi switches to a temporary file there
        return "".join(rng.choice(LONG_CHUNKS) for _ in range(rng.randrange(3, 9)))
    return "".join(rng.choice(VALUE_CHUNKS) for _ in range(rng.randrange(maxn + 1)))


def rand_bytes(rng):
    r = rng.random()
    if r < 0.15:
        return b""
    if r < 0.6:
        return bytes(rng.choice(b"\r\n-ab\x00\xff\"\\") for _ in range(rng.randrange(12)))
    if r < 0.97:
        return rng.randbytes(rng.randrange(60))
    return rng.randbytes(rng.randrange(60000, 140000))     # crosses cgi's 64 KiB readline


URLISH_FILENAMES = ["data:multipart/mixed,x", "data:multipart/form-data;boundary=q,x", "data:text/html;x,", "data:message/rfc822,x",
                    "DATA:Multipart/Mixed,y.png", "http://h/x.png", "x:y.png", "data:,", "data:a/b", "//h/p.tar.gz", "C:\\dir\\f.txt"]


def rand_filename(rng, allow_empty=False):
    if allow_empty and rng.random() < 0.03:
        return ""
    if rng.random() < 0.08:
        return rng.choice(URLISH_FILENAMES)
    while True:
        fn = rand_name(rng, 2) + rng.choice(EXTS)
        if fn:
            return fn


def rand_fields(rng, files=True, maxn=4, trailing_backslash=False, empty_filename=False):
    out = []
    for _ in range(rng.randrange(maxn + 1)):
        name = rand_name(rng)
        if files and rng.random() < 0.4:
            if name.endswith("\\") and not trailing_backslash:
                name += "x"
            out.append((name, (rand_filename(rng, empty_filename), rand_bytes(rng))))
        else:
            out.append((name, rand_value(rng)))
    return out


DIRECTED_FIELDS = [
    [("a", "b")], [], [("", "")], [("a", "1"), ("a", "2"), ("b", "3"), ("a", "1")],
    [('a"b', "c")], [("a\\b", "c")], [("a\\\\b", "c")], [('a\\"b', "c")], [('a";b', "c")], [('a";x="', "c")], [("a\\", "c")],
    [("a\\", ("f.txt", b"zz"))], [("a\\\\", ("f.txt", b"zz"))], [("a", ("f\\", b"zz"))], [("a", ('f";x="y', b"zz"))],
    [("a", ("f\\\\x\\\"y", b"zz"))], [("a;b=c", ("x;y=z.png", b"\x89PNG\r\n\x1a\n"))],
    [("f", ("data:multipart/mixed,x", b"hello"))], [("a", "1"), ("f", ("data:multipart/form-data;boundary=q,x", b"--q\r\n")), ("b", "2")],
    [("f", ("data:text/html;x,", b"<p>"))], [("f", ("http://h/x.png", b"1"))], [("f", ("", b"hello"))], [("a", "1"), ("f", ("", b"")), ("b", "2")],
    [("f", ("x.bin", b""))], [("f", ("x.bin", b"\r"))], [("f", ("x.bin", b"\n"))], [("f", ("x.bin", b"\r\n"))],
    [("f", ("x.bin", b"--"))], [("f", ("x.bin", b"\r\n--"))], [("f", ("x.bin", b"--\r\n"))],
    [("f", ("x.bin", bytes(range(256)) * 3))], [("f", ("x.bin", b"x" * 65535 + b"\r"))],
    [("f", ("x.bin", b"x" * 65535 + b"\r\n--"))], [("f", ("x.bin", b"x" * 65536 + b"\n"))],
    [("f", ("x.bin", b"x" * 70000 + b"\r\n" + b"y" * 70000))],
    [("a", "x\r\ny")], [("a", "x\ry")], [("a", "x\ny")], [("a", "\r")], [("a", "\n")], [("a", "\r\n")], [("a", "--")],
    [("a", "x" * 65535 + "\r\ny")], [("a", "\xe9" * 40000)], [("a\x00b", "c\x00d")], [("\xe9", "\xfc\u20ac\U0001f600")],
    [("a=b&c", "d=e&f;g+h%41")], [(" a ", " b ")], [("a", ("  .txt ", b" "))],
    [("t", "1"), ("f", ("x", b"1")), ("t", "2"), ("f", ("y", b"2")), ("\u65e5\u672c", ("\u8868.png", b"\x00\xff"))],
]


def fix_fields(fields):
    out = []
    for k, v in fields:
        if isinstance(v, str):
            out.append((k, v))
        elif isinstance(v, dict):                 # jsonable(bytes)
            out.append((k, bytes.fromhex(v["bytes"])))
        else:
            fn, c = v
            out.append((k, (fn, bytes.fromhex(c["bytes"]) if isinstance(c, dict) else c)))
    return out


# ===================================================================== multipart model correspondences
def _mp_ctype(boundary, fields):
    """The boundary parameter in one of its spellings (chosen by the case itself, so it is reproducible)."""
    forms = [f for f in CFG_CT_MULTIPART if f and "%s" in f]
    return forms[(len(boundary) + len(fields) + sum(len(k) for k, _ in fields)) % len(forms)] % boundary


def impl_encode_multipart(boundary, fields):
    from webob.request import _encode_multipart
    r = catch(_encode_multipart, list(fields), _mp_ctype(boundary, fields))
    return r if isinstance(r, Err) else r[1]


def impl_decode_multipart(boundary, body):
    from webob import Request

    def go():
        forms = [f for f in CFG_CT_MULTIPART if f and "%s" in f]
        req = Request.blank("/", POST=body, content_type=forms[len(body) % len(forms)] % boundary)
        return canon_post(req.POST)
    return catch(go)


def rand_boundary(rng, fields):
    while True:
        b = rng.choice(["B", "Bq7", "----WebKitFormBoundary", "x-y_z"]) + "%06x" % rng.randrange(16 ** 6)
        bb = b.encode()
        if not any(bb in (v.encode("utf-8") if isinstance(v, str) else v[1]) for _, v in fields):
            return b


# ===================================================================== request.decode(charset)
CS_TEXT = {
    "latin-1": ["a", "b c", "\xe9", "\xff\xa0", "k&=;+%", "\x00", "~", "na\xefve"],
    "cp1252": ["a", "b c", "\xe9", "€", "“q”", "k&=;+%", "Œ™"],
    "shift_jis": ["a", "b c", "日本", "ソ", "表", "十", "ｶﾅ", "k&=;+%", "あい"],
    "euc-jp": ["a", "日本語", "k&=;+%", "ソ表"],
    "koi8-r": ["a", "привет", "k&=;+%"],
    "big5": ["a", "中文", "k&=;+%"],
    "iso-8859-15": ["a", "€œ", "k&=;+%"],
    "utf-16": ["a", "€", "k&=;+%"],
}


def cs_pairs(rng, cs, n=3):
    t = CS_TEXT[cs]
    mk = lambda: "".join(rng.choice(t) for _ in range(rng.randrange(1, 3)))  # noqa
    return [(mk(), mk() if rng.random() < 0.9 else "") for _ in range(rng.randrange(1, n + 1))]


def cs_urlencode(pairs, cs, raw):
    """Independent construction of a query in charset cs: percent-encode everything (raw=False) or only
    what must be (raw=True: the other octets travel as latin-1 characters, as a WSGI server passes them)."""
    def q(s):
        b = s.encode(cs)
        if not raw:
            return urllib.parse.quote_plus(b)
        return "".join("+" if c == 0x20 else ("%%%02X" % c if c in b"&;=+%#" or c < 0x21 or c == 0x7f else chr(c))
                       for c in b)
    return "&".join(q(k) + "=" + q(v) for k, v in pairs)


def oracle_decode_query(pairs, cs, raw, explicit):
    """A query and a urlencoded form submitted in cs; request.decode(cs) must yield the same pairs."""
    from webob import Request
    qs = cs_urlencode(pairs, cs, raw)
    want = [list(p) for p in pairs]
    try:
        req = Request.blank("/", environ={"QUERY_STRING": qs}, POST=qs.encode("latin-1"),
                            content_type="application/x-www-form-urlencoded; charset=%s" % cs)
        req.environ["QUERY_STRING"] = qs
        d = req.decode(cs) if explicit else req.decode()
        get = [list(kv) for kv in d.GET.items()]
        post = [list(kv) for kv in d.POST.items()]
        params = [list(kv) for kv in d.params.items()]
        charset = d.charset
    except Exception as e:  # noqa
        return "decode:raises", "decode(%r) of query/form %r raised %s: %s" % (cs, qs, type(e).__name__, e)
    if get != want:
        return "decode:query", "decode(%r) of QUERY_STRING %r gives GET %r, submitted %r" % (cs, qs, get, want)
    if post != want:
        return "decode:form", "decode(%r) of urlencoded body %r gives POST %r, submitted %r" % (cs, qs, post, want)
    if params != want + want or charset != "UTF-8":
        return "decode:params", "decode(%r): params %r / charset %r" % (cs, params, charset)
    return None


def oracle_decode_raw(qs, cs):
    """request.decode(cs) on an arbitrary query string and the same string as urlencoded body: whenever the
    reference decoder reads it in cs as pairs (all names non-empty), the decoded request shows those pairs —
    with or without '=' in it."""
    from webob import Request
    want = ref_decode_qs(qs, cs)
    if isinstance(want, Err) or any(not k for k, _ in want):
        return None
    try:
        body = qs.encode("latin-1")
        req = Request.blank("/", environ={"QUERY_STRING": qs}, POST=body,
                            content_type="application/x-www-form-urlencoded; charset=%s" % cs)
        d = req.decode(cs)
        get = catch(lambda: [list(kv) for kv in d.GET.items()])
        post = catch(lambda: [list(kv) for kv in d.POST.items()])
    except Exception as e:  # noqa
        get = post = Err(type(e).__name__)
    if get != want or post != want:
        key = "decode:bare-names-not-transcoded" if "=" not in qs else ("decode:query" if get != want else "decode:form")
        return key, "decode(%r) of query / urlencoded body %r gives GET %r POST %r, submitted %r" % (cs, qs, get, post, want)
    return None


def cs_multipart_body(fields, cs, boundary):
    out = b""
    for name, val in fields:
        out += b"--" + boundary.encode() + b"\r\n" + ('Content-Disposition: form-data; name="%s"' % name).encode(cs)
        if isinstance(val, str):
            data = val.encode(cs)
        else:
            out += ('; filename="%s"' % val[0]).encode(cs) + b"\r\nContent-Type: application/octet-stream"
            data = val[1]
        out += b"\r\n\r\n" + data + b"\r\n"
    return out + b"--" + boundary.encode() + b"--\r\n"


CT_FORMS = ["multipart/form-data; boundary=%(b)s; charset=%(cs)s",
            "multipart/form-data; charset=%(cs)s; boundary=%(b)s",
            "multipart/form-data; boundary=%(b)s"]


def oracle_decode_multipart(fields, cs, ctform, boundary="BoUnD42"):
    from webob import Request
    body = cs_multipart_body(fields, cs, boundary)
    ct = CT_FORMS[ctform] % {"b": boundary, "cs": cs}
    want = want_post(fields)
    try:
        req = Request.blank("/?x=1", method="POST", body=body, content_type=ct)
        d = req.decode(cs)
        got = canon_post(d.POST)
        params = canon_post(d.params)
    except Exception as e:  # noqa
        return "decode:multipart-raises", "decode(%r) of multipart form (%s) raised %s: %s" % (cs, ct, type(e).__name__, e)
    if got != want:
        key = "decode:multipart-boundary-param" if ctform == 0 else "decode:multipart"
        return key, "decode(%r) of multipart form sent as %r gives POST %r, submitted %r" % (cs, ct, got, want)
    if params != [["x", "1"]] + want:
        return "decode:params", "decode(%r) multipart: params %r" % (cs, params)
    return None


def cs_fields(rng, cs):
    t = [x for x in CS_TEXT[cs] if x != "\x00"]
    mk = lambda: "".join(rng.choice(t) for _ in range(rng.randrange(1, 3)))  # noqa
    out = []
    for _ in range(rng.randrange(1, 4)):
        if rng.random() < 0.4:
            out.append((mk(), (mk() + rng.choice(EXTS[1:]), bytes(rng.randrange(256) for _ in range(rng.randrange(20))))))
        else:
            out.append((mk(), mk() + rng.choice(["", "\r\n", "\n", " "]) + rng.choice(["", mk()])))
    return out


# ===================================================================== held GetDict objects (model: C09_Held.v)
def chq(o):
    if o[0] == "delqs":
        return "(HSetQS (@nil N))"
    if o[0] == "setqs":
        return "(HSetQS %s)" % cstr(o[1])
    if o[0] == "held":
        return "(HHeld %d%%nat %s)" % (o[1], cop(o[2]))
    return "(HGet %s)" % cop(o)


def run_held_history(qs0, ops, check=False):
    """ONE Request; every GetDict request.GET ever handed out is kept (heap, in order of creation) and may be
    mutated later.  check=False: observations for the correspondence.  check=True: the property oracle."""
    req, env = new_request(qs0)
    heap, exp = [], []

    def reg(g):
        for j, h in enumerate(heap):
            if h is g:
                return j
        heap.append(g)
        exp.append(ref_decode_qs(env.get("QUERY_STRING", "")))
        return len(heap) - 1
    out = []
    for i, o in enumerate(ops):
        ret, j, op = None, None, None
        if o[0] in ("setqs", "delqs"):
            set_qs(req, env, o)
        elif o[0] == "held":
            if o[1] < len(heap):
                j, op = o[1], fix_op(o[2])
        else:
            g = catch(lambda: req.GET)
            if isinstance(g, Err):
                ret = g
            else:
                j, op = reg(g), fix_op(o)
        if j is not None:
            ret = apply_op(heap[j], op)
            if check and not isinstance(exp[j], Err):
                exp[j], want_ret = ref_apply(exp[j], op)
                if ret != want_ret:
                    return "mutation:return-value", "step %d %r returned %r, list model says %r" % (i, o, ret, want_ret)
        v = catch(lambda: req.GET)
        items = v if isinstance(v, Err) else [list(kv) for kv in heap[reg(v)].items()]
        cells = [[list(kv) for kv in h.items()] for h in heap]
        out.append([ret, items, env.get("QUERY_STRING", ""), cells])
        if check:
            want = ref_decode_qs(env.get("QUERY_STRING", ""))
            if items != want:
                wrote = j is not None and op[0] != "copy" and not isinstance(ret, Err)
                key = ("live:held-getdict-write-back" if o[0] == "held" else "mutation:write-back") if wrote else \
                    classify_query(env.get("QUERY_STRING", ""), items, want)
                return key, ("step %d %r: request.GET shows %r but a fresh parse of QUERY_STRING %r gives %r"
                             % (i, o, items, env.get("QUERY_STRING", ""), want))
            if cells != exp:
                return "live:held-getdict-items", "step %d %r: the GetDict objects show %r, list model %r" % (i, o, cells, exp)
            if j is not None and op[0] != "copy" and not isinstance(ret, Err) and items != exp[j]:
                return "live:held-getdict-write-back", ("step %d %r: the mutated GetDict shows %r but request.GET %r"
                                                        % (i, o, exp[j], items))
    return None if check else out


def rand_held_history(rng, maxlen):
    qs0 = rand_valid_qs(rng) if rng.random() < 0.6 else rand_qs(rng, 8)
    ops = []
    for _ in range(rng.randrange(2, maxlen + 1)):
        if rng.random() < 0.35:
            ops.append(("held", rng.randrange(4), rand_op(rng, False)))
        else:
            o = rand_op(rng, True)
            if o[0] == "setqs" and rng.random() < 0.6:
                o = ("setqs", rand_valid_qs(rng))
            ops.append(o)
    return qs0, ops


def fix_hop(o):
    return ("held", o[1], fix_op(o[2])) if o[0] == "held" else fix_op(o)


# ===================================================================== ONE long-lived Request (statefulness)
def make_live_request(qs, fields, mode):
    from webob import Request
    kw = {}
    if mode != "none":
        kw["POST"] = list(fields)
        kw["content_type"] = {"multipart": "multipart/form-data",
                              "urlencoded": "application/x-www-form-urlencoded"}[mode]
    return Request.blank("/", environ={"QUERY_STRING": qs}, **kw)


def live_snapshot(req):
    """Observable state of the request, taken WITHOUT moving the body stream (a rewind would hide a dependence of
    later calls on the stream position)."""
    env = req.environ
    raw = env["wsgi.input"]
    try:
        pos = raw.tell()
        raw.seek(0)
        data = raw.read()
        raw.seek(pos)
    except Exception:  # noqa
        data = None
    return [env.get("QUERY_STRING"), env.get("CONTENT_TYPE"), env.get("CONTENT_LENGTH"), env.get("REQUEST_METHOD"), data]


def live_views(req):
    """What one Request shows: GET, POST, params (exceptions canonicalised)."""
    return [catch(lambda: [list(kv) for kv in req.GET.items()]), catch(lambda: canon_post(req.POST)),
            catch(lambda: canon_post(req.params))]


def oracle_live(case):
    """ONE Request (and the GetDicts obtained from it) used for a whole history of reads, mutations, raw
    QUERY_STRING edits, body replacements, copy(), copy_get() and decode(cs).  After every step every view must
    equal what the reference says (= what a brand-new, identically constructed Request shows), read-only calls
    must leave QUERY_STRING / CONTENT_* / body untouched, and copies must be independent."""
    fields, mode = fix_fields(case["fields"]), case["mode"]
    req = make_live_request(case["qs0"], fields, mode)
    env = req.environ
    cur_get = ref_decode_qs(case["qs0"])
    cur_post = want_post(fields) if mode != "none" else []
    held = []              # [GetDict object, expected items] for every GetDict ever handed out
    cur_fields, cur_mode = fields, mode

    def expected_of(g):
        for e in held:
            if e[0] is g:
                return e
        held.append([g, [list(kv) for kv in cur_get]])
        return held[-1]

    def check_views(r, what, get=None, post=None):
        get = cur_get if get is None else get
        post = cur_post if post is None else post
        v = live_views(r)
        want_params = get if isinstance(get, Err) else get + post
        if v[0] != get:
            return "live:get", "%s: GET shows %r, expected %r" % (what, v[0], get)
        if v[1] != post:
            return "live:post", "%s: POST shows %r, expected %r" % (what, v[1], post)
        if v[2] != want_params:
            return "live:params", "%s: params shows %r, expected GET+POST %r" % (what, v[2], want_params)
        return None

    for i, a in enumerate(case["acts"]):
        t = a[0]
        what = "step %d %r" % (i, a)
        if t in ("rget", "rpost", "rparams", "rall", "hread"):
            before = live_snapshot(req)
            if t == "rget":
                got = catch(lambda: [list(kv) for kv in req.GET.items()])
                if got != cur_get:
                    return "live:get", "%s: GET shows %r, expected %r" % (what, got, cur_get)
            elif t == "rpost":
                for n in (1, 2):            # twice: cached per body object, and files must be readable again
                    got = catch(lambda: canon_post(req.POST))
                    if got != cur_post:
                        return "live:post", "%s (read #%d): POST shows %r, expected %r" % (what, n, got, cur_post)
            elif t == "rparams":
                got = catch(lambda: canon_post(req.params))
                want = cur_get if isinstance(cur_get, Err) else cur_get + cur_post
                if got != want:
                    return "live:params", "%s: params shows %r, expected %r" % (what, got, want)
            elif t == "rall":
                r = check_views(req, what)
                if r:
                    return r
            elif held:
                g, exp = held[a[1] % len(held)]
                got = [list(kv) for kv in g.items()]
                if got != exp:
                    return "live:held-getdict-items", "%s: held GetDict shows %r, expected %r" % (what, got, exp)
            after = live_snapshot(req)
            if after != before:
                return "live:state-changed-by-read", "%s: read-only access changed %r into %r" % (what, before, after)
        elif t in ("setqs", "delqs"):
            cur_get = ref_decode_qs(set_qs(req, env, a))
        elif t in ("mut", "hmut"):
            if t == "mut":
                if isinstance(cur_get, Err):
                    continue
                g = catch(lambda: req.GET)
                if isinstance(g, Err):
                    return "live:get", "%s: request.GET raised %r, expected %r" % (what, g, cur_get)
                e = expected_of(g)
                if e[1] != cur_get:
                    return "live:get", "%s: request.GET is a GetDict showing %r, expected %r" % (what, e[1], cur_get)
            else:
                if not held:
                    continue
                e = held[a[2] % len(held)]
                g = e[0]
            op = fix_op(a[1])
            ret = apply_op(g, op)
            exp, want_ret = ref_apply(e[1], op)
            if ret != want_ret:
                return "mutation:return-value", "%s returned %r, list model says %r" % (what, ret, want_ret)
            e[1] = exp
            got = [list(kv) for kv in g.items()]
            if got != exp:
                return "mutation:items", "%s: the GetDict shows %r, expected %r" % (what, got, exp)
            if op[0] != "copy" and not isinstance(ret, Err):
                cur_get = [list(kv) for kv in exp]     # the mutated GetDict took over QUERY_STRING
                fresh = impl_get(env.get("QUERY_STRING", ""))
                if fresh != exp:
                    key = "mutation:write-back" if t == "mut" else "live:held-getdict-write-back"
                    return key, "%s: GetDict shows %r but a fresh parse of QUERY_STRING %r gives %r" % (
                        what, got, env.get("QUERY_STRING", ""), fresh)
                now = catch(lambda: [list(kv) for kv in req.GET.items()])
                if now != exp:
                    return "live:get", "%s: afterwards request.GET shows %r, expected %r" % (what, now, exp)
        elif t == "hold":
            if not isinstance(cur_get, Err):
                g = catch(lambda: req.GET)
                if not isinstance(g, Err):
                    expected_of(g)
        elif t == "body":
            f2, m2 = fix_fields(a[1]), a[2]
            r2 = make_live_request("", f2, m2)
            env["CONTENT_TYPE"] = r2.environ["CONTENT_TYPE"]
            env["REQUEST_METHOD"] = "POST"
            req.body = r2.body
            cur_post, cur_fields, cur_mode = want_post(f2), f2, m2
            r = check_views(req, what + " (body replaced)")
            if r:
                return ("live:post-stale-after-body-replaced", r[1]) if r[0] == "live:post" else r
        elif t in ("copy", "copy_get"):
            before = live_snapshot(req)
            c = req.copy() if t == "copy" else req.copy_get()
            r = check_views(c, what + " (the copy)", post=(None if t == "copy" else []))
            if r:
                return "live:copy-differs", r[1]
            if not isinstance(cur_get, Err):
                op = fix_op(a[1])
                cg = c.GET
                apply_op(cg, op)
                exp_c, _ = ref_apply([list(kv) for kv in cur_get], op)
                fresh_c = impl_get(c.environ.get("QUERY_STRING", ""))
                if fresh_c != exp_c:
                    shared = getattr(cg, "env", None) is not c.environ
                    return ("live:copy-shares-getdict" if shared else "live:copy-write-back"), ("%s: the copy's GET shows %r but its QUERY_STRING %r parses to %r"
                                                    % (what, [list(kv) for kv in cg.items()], c.environ.get("QUERY_STRING", ""),
                                                       fresh_c))
            if t == "copy":
                c.body = b"x=changed"
            after = live_snapshot(req)
            if after != before:
                key = "live:copy-shares-getdict" if after[1:] == before[1:] else "live:copy-not-independent"
                return key, "%s: using the copy changed the original from %r to %r" % (what, before, after)
            now = catch(lambda: [list(kv) for kv in req.GET.items()])
            if now != cur_get:
                return "live:copy-not-independent", "%s: afterwards the original's GET shows %r, expected %r" % (
                    what, now, cur_get)
        elif t == "decode":
            cs = a[1]
            before = live_snapshot(req)
            fresh = make_live_request(env.get("QUERY_STRING", ""), cur_fields, cur_mode)
            want = catch(lambda: live_views(fresh.decode(cs)))
            for n in (1, 2):                # decode() is a pure function of the request: twice gives the same
                got = catch(lambda: live_views(req.decode(cs)))
                if got != want:
                    return "live:decode-differs-from-fresh", (
                        "%s: decode(%r) #%d of the used Request shows %r, of a brand-new identical Request %r"
                        % (what, cs, n, got, want))
            if not isinstance(got, Err) and not isinstance(cur_get, Err) and cs.lower() != "utf-8":
                d = req.decode(cs)
                dg = catch(lambda: d.GET)
                if not isinstance(dg, Err):
                    dg.add("zz", "1")           # the decoded request is a new request
            after = live_snapshot(req)
            if after != before:
                key = "live:copy-shares-getdict" if after[1:] == before[1:] else "live:decode-changed-original"
                return key, "%s: decode(%r) / using its result changed the original from %r to %r" % (
                    what, cs, before, after)
            now = catch(lambda: [list(kv) for kv in req.GET.items()])
            if now != cur_get:
                return "live:decode-changed-original", "%s: afterwards the original's GET shows %r, expected %r" % (
                    what, now, cur_get)
        else:
            raise ValueError(a)
    return check_views(req, "at the end of the history")


def rand_live_case(rng, maxlen):
    mode = rng.choice(["urlencoded", "multipart", "multipart", "none"])
    fields = [] if mode == "none" else rand_fields(rng, files=(mode == "multipart"), maxn=3)
    qs0 = rand_valid_qs(rng) if rng.random() < 0.75 else rand_qs(rng, 8)
    acts = []
    for _ in range(rng.randrange(2, maxlen + 1)):
        t = rng.choice(["rget", "rpost", "rparams", "rall", "rall", "mut", "mut", "mut", "setqs", "hold", "hold", "hmut",
                        "hmut", "hread", "body", "copy", "copy_get", "decode"])
        if t == "mut":
            acts.append((t, rand_op_shapes(rng, False) if rng.random() < 0.2 else rand_op(rng, False)))
        elif t == "hmut":
            acts.append((t, rand_op_shapes(rng, False) if rng.random() < 0.2 else rand_op(rng, False), rng.randrange(8)))
        elif t == "hread":
            acts.append((t, rng.randrange(8)))
        elif t == "setqs":
            q = rand_valid_qs(rng) if rng.random() < 0.7 else rand_qs(rng, 8)
            r = rng.random()
            acts.append(("delqs",) if r < 0.1 else ((t, q, "attr") if r < 0.4 else (t, q)))
        elif t == "body":
            m2 = rng.choice(["urlencoded", "multipart"])
            acts.append((t, rand_fields(rng, files=(m2 == "multipart"), maxn=2), m2))
        elif t in ("copy", "copy_get"):
            acts.append((t, rand_op(rng, False)))
        elif t == "decode":
            acts.append((t, rng.choice(["latin-1", "latin-1", "UTF-8", "utf8", "cp1252", "shift_jis"])))
        else:
            acts.append((t,))
    return {"kind": "live", "qs0": qs0, "fields": fields, "mode": mode, "acts": acts}


DIRECTED_LIVE = [
    # a held GetDict survives a raw QUERY_STRING edit and takes QUERY_STRING over when it is mutated
    {"qs0": "a=1&b=2", "fields": [], "mode": "none",
     "acts": [("hold",), ("setqs", "c=3"), ("rget",), ("hread", 0), ("hmut", ("pop", "a", True, None), 0), ("rall",),
              ("setqs", "c=3"), ("hmut", ("pop", "zz", True, "d"), 0), ("rall",), ("hold",), ("setqs", "a=1&b=2"),
              ("hmut", ("del", "b"), 0), ("hmut", ("setdefault", "b", "9"), 1), ("rall",)]},
    # same mutation twice / nothing-changed mutations must still write back
    {"qs0": "a=%31;b=+", "fields": [], "mode": "none",
     "acts": [("mut", ("pop", "zz", True, "d")), ("rget",), ("setqs", "a=%31;b=+"), ("mut", ("setdefault", "a", "x")),
              ("rget",), ("setqs", "x=%zz"), ("mut", ("update", [])), ("rget",), ("mut", ("extend", [], "list")), ("rall",)]},
    # copies share nothing with the original, before and after GET was read
    {"qs0": "a=1", "fields": [("x", "\xe9")], "mode": "urlencoded",
     "acts": [("copy", ("add", "q", "1")), ("rget",), ("copy", ("add", "q", "2")), ("copy_get", ("set", "a", "3")),
              ("mut", ("add", "m", "1")), ("copy_get", ("clear",)), ("rall",)]},
    # decode() more than once, after reads and copies, then the body is replaced
    {"qs0": "a=%C3%A9", "fields": [("x", "\xe9\r\n"), ("f", ("a.txt", b"\xff\r\n--"))], "mode": "multipart",
     "acts": [("decode", "latin-1"), ("decode", "latin-1"), ("rpost",), ("decode", "cp1252"), ("copy", ("add", "q", "1")),
              ("decode", "latin-1"), ("body", [("n", "v" * 1200 + "\r\nw")], "multipart"), ("rpost",), ("decode", "latin-1"),
              ("body", [("n", "2")], "urlencoded"), ("rall",), ("decode", "shift_jis"), ("rall",)]},
    {"qs0": "", "fields": [("t", "x" * 1100 + "\r" + "y" * 1100 + "\n"), ("t", "\r\n" * 600)], "mode": "multipart",
     "acts": [("rpost",), ("rparams",), ("copy", ("add", "a", "b")), ("rpost",), ("decode", "latin-1"), ("rall",)]},
]


# ===================================================================== caller's arguments / order independence
def oracle_args(fields, mode, form):
    """Request.blank(POST=...) must not mutate what the caller passed (containers, value tuples/lists, file objects'
    contents, the environ dict), and passing the same objects again must give the same request."""
    import io
    from webob import Request
    from webob.multidict import MultiDict
    base, _, vform = form.partition("-")          # list|tuple|dict|md  -  ''|fileobj|listval
    fileobjs = []

    def val(v):
        if isinstance(v, str):
            return v
        if vform == "fileobj":
            fileobjs.append(io.BytesIO(v[1]))
            return (v[0], fileobjs[-1])
        return [v[0], v[1]] if vform == "listval" else (v[0], v[1])
    if base == "dict":
        seen = set()
        fields = [f for f in fields if not (f[0] in seen or seen.add(f[0]))]
    pairs = [(k, val(v)) for k, v in fields]
    data = {"list": list, "tuple": tuple, "dict": dict, "md": MultiDict}[base](pairs)
    environ = {"QUERY_STRING": "q=1", "HTTP_X_A": "b"}

    def view():
        return list(data.items()) if hasattr(data, "items") else list(data)

    def snap():
        out = []
        for k, v in view():
            if isinstance(v, str):
                out.append((k, v))
            else:
                out.append((k, type(v).__name__, [(x.getvalue(), x.closed) if hasattr(x, "getvalue") else x for x in v]))
        return [out, [id(v) for _, v in view()], type(data).__name__, sorted(environ.items())]
    before = snap()
    kw = {"content_type": {"multipart": "multipart/form-data", "urlencoded": "application/x-www-form-urlencoded"}[mode]}
    want = want_post(fields)
    for n in (1, 2):
        for f in fileobjs:
            f.seek(0)
        try:
            req = Request.blank("/", environ=environ, POST=data, **kw)
            got = canon_post(req.POST)
            req.GET.add("w", "1")
            req.POST.add("w", "1")
        except Exception as e:  # noqa
            return "blank:raises", "Request.blank(POST=%r) use #%d raised %s: %s" % (data, n, type(e).__name__, e)
        after = snap()
        if after != before:
            return "blank:caller-argument-mutated", "Request.blank changed its arguments from %r to %r" % (before, after)
        if got != want:
            return ("blank:second-use-differs" if n == 2 else classify_post(fields, mode)), \
                "Request.blank(POST=%r) use #%d: POST %r, expected %r" % (data, n, got, want)
    return None


def order_eval(item):
    t = item[0]
    if t == "q":
        return impl_get(item[1])
    if t == "u":
        return impl_unquote(item[1].encode("latin-1"))
    if t == "w":
        return impl_on_change([tuple(p) for p in item[1]])
    if t == "m":
        f = fix_fields(item[2])
        body = impl_encode_multipart(item[1], f)
        return [body, impl_decode_multipart(item[1], body) if isinstance(body, bytes) else None]
    if t == "d":
        r = oracle_decode_query([tuple(p) for p in item[1]], item[2], item[3], True)
        return r and r[0]
    raise ValueError(item)


_ORDER_CHILD = """
import json, sys, warnings
warnings.simplefilter("ignore")
from harness import fw
from harness.props import c09
items, perm = json.load(sys.stdin)
res = {}
for j in perm:
    res[j] = fw.jsonable(c09.order_eval(items[j]))
json.dump([res[j] for j in sorted(set(perm))], sys.stdout)
"""


def _order_run(items, perm):
    """Evaluate the calls in the given order in a brand-new interpreter (module-level state starts empty)."""
    import subprocess
    import sys
    p = subprocess.run([sys.executable, "-B", "-c", _ORDER_CHILD], input=json.dumps([fw.jsonable(items), perm]),
                       capture_output=True, text=True, timeout=300)
    if p.returncode != 0:
        return {"child-failed": p.stderr[-400:]}
    return json.loads(p.stdout)


def oracle_order(items, perms):
    """The same calls in different orders, each order in a fresh process: an answer must not depend on what ran
    before it (module-level caches, tables filled lazily, state kept on compiled objects)."""
    import concurrent.futures as cf
    idx = list(range(len(items)))
    with cf.ThreadPoolExecutor(4) as ex:
        outs = list(ex.map(lambda perm: _order_run(items, perm), [idx] + [list(p) for p in perms]))
    base = outs[0]
    for perm, res in zip(perms, outs[1:]):
        if isinstance(res, dict) or isinstance(base, dict):
            return "order-dependence", "order evaluation failed: %r / %r" % (base, res)
        for j in idx:
            if res[j] != base[j]:
                return "order-dependence", ("call %r gives %r when the calls run in order %r but %r in order 0..n"
                                            % (items[j], res[j], perm, base[j]))
    return None


def _variants(rng, text, k):
    """Near-duplicates of one input: same length, same beginning — what a too-coarse cache key confuses."""
    out = [text]
    for _ in range(k):
        t = list(text)
        if t:
            pos = rng.randrange(len(t) // 2, len(t))
            t[pos] = rng.choice("ab4z%+=&;")
        out.append("".join(t))
    return out


def rand_order_items(rng, n):
    items = []
    while len(items) < n:
        t = rng.choice("qquwmd")
        if t in "qu":
            base = rand_qs(rng, 8) if rng.random() < 0.5 else rand_valid_qs(rng)
            items += [(t, v) for v in _variants(rng, base, 2)]
        elif t == "w":
            ps = rand_pairs(rng, 3)
            items += [("w", ps), ("w", [(k, v + "x") for k, v in ps]), ("w", ps[::-1])]
        elif t == "m":
            f = [(k, v[:80] if isinstance(v, str) else (v[0], v[1][:100])) for k, v in rand_fields(rng, True, 2)]
            b = rand_boundary(rng, f)
            g = [(k, (v + "2") if isinstance(v, str) else (v[0], v[1] + b"2")) for k, v in f]
            items += [("m", b, f), ("m", b, g)]
        else:
            cs = rng.choice(["latin-1", "cp1252", "shift_jis"])
            ps = cs_pairs(rng, cs)
            items += [("d", ps, cs, False), ("d", ps[::-1], cs, False), ("d", ps, cs, True)]
    return items


# ===================================================================== configurations / argument shapes / outside the domain
class _ChunkedRaw(object):
    """A non-seekable WSGI input stream (read / readline only; like a socket file it blocks until it has n octets)."""

    def __init__(self, data):
        import io
        self._b = io.BytesIO(data)

    def read(self, n=-1):
        return self._b.read(n)

    def readline(self, n=-1):
        return self._b.readline(n)

    def __iter__(self):
        return iter(self._b)


CFG_METHODS = ["POST", "PUT", "PATCH", "DELETE"]
CFG_CT_MULTIPART = [None, "multipart/form-data; boundary=%s", 'multipart/form-data; boundary="%s"',
                    "multipart/form-data; BOUNDARY=%s", "multipart/form-data; charset=utf-8; boundary=%s",
                    'multipart/form-data; boundary=%s; charset="UTF-8"',
                    # a parameter but no boundary: blank generates one and must keep it
                    "multipart/form-data; charset=utf-8", 'multipart/form-data;charset="UTF-8"', "multipart/form-data"]
CFG_CT_URLENCODED = [None, "application/x-www-form-urlencoded; charset=UTF-8", "application/x-www-form-urlencoded;charset=utf8",
                     'application/x-www-form-urlencoded; charset="utf-8"']
CFG_STREAMS = ["seekable", "nonseekable", "terminated", "late"]
CFG_LIMITS = [None, 0, 64]


def rand_cfg(rng, mode):
    return {"method": rng.choice(CFG_METHODS), "ct": rng.randrange(len(CFG_CT_MULTIPART if mode == "multipart" else
                                                                       CFG_CT_URLENCODED)),
            "stream": rng.choice(CFG_STREAMS), "limit": rng.choice(CFG_LIMITS), "qs_key": rng.random() < 0.8,
            "route": rng.choice(["kw", "kw", "headers", "both"]),
            "boundary": "cfgB%06x" % rng.randrange(16 ** 6)}


def oracle_post_cfg(fields, mode, cfg):
    """The POST round trip under every configuration the code paths read: request method, Content-Type spelling
    (explicit / quoted / upper-case boundary parameter, charset parameter), seekable vs non-seekable vs
    unterminated input, request_body_tempfile_limit of a subclass, QUERY_STRING key absent, and everything set
    AFTER construction (method, content type, body assigned to an existing GET request whose views were read)."""
    import io
    from webob import Request
    cls = Request
    if cfg["limit"] is not None:
        cls = type("LimitedRequest", (Request,), {"request_body_tempfile_limit": cfg["limit"]})
    forms = CFG_CT_MULTIPART if mode == "multipart" else CFG_CT_URLENCODED
    ct = forms[cfg["ct"] % len(forms)]
    if ct is None:
        ct = "multipart/form-data" if mode == "multipart" else "application/x-www-form-urlencoded"
    elif "%s" in ct:
        if any(cfg["boundary"].encode() in (v.encode("utf-8") if isinstance(v, str) else v[1]) for _, v in fields):
            return None
        ct = ct % cfg["boundary"]
    want = want_post(fields)
    what = "POST=%r sent as %r under %r" % (fields, ct, cfg)
    route = cfg.get("route", "kw")
    ckw = {} if route == "headers" else {"content_type": ct}
    hkw = {} if route == "kw" else {"headers": {"Content-Type": ct, "X-Other": "1"}}
    try:
        req = cls.blank("/", environ={"QUERY_STRING": "q=1&r=%C3%A9"}, POST=list(fields), method=cfg["method"],
                        **dict(ckw, **hkw))
        if cfg["stream"] in ("nonseekable", "terminated"):
            body = req.body
            req.environ["wsgi.input"] = _ChunkedRaw(body)
            req.environ["webob.is_body_seekable"] = False
            if cfg["stream"] == "terminated":
                del req.environ["CONTENT_LENGTH"]
                req.environ["wsgi.input_terminated"] = True
        elif cfg["stream"] == "late":
            body, ctype = req.body, req.environ["CONTENT_TYPE"]
            req = cls.blank("/", environ={"QUERY_STRING": "q=1&r=%C3%A9"})
            first = [catch(lambda: canon_post(req.POST)), catch(lambda: req.charset), catch(lambda: canon_post(req.params))]
            if first[0] != [] or first[2] != [["q", "1"], ["r", "\xe9"]]:
                return "config:no-form", "a GET request without body shows POST %r params %r" % (first[0], first[2])
            req.method = cfg["method"]
            req.environ["CONTENT_TYPE"] = ctype
            req.body = body
        get_want = [["q", "1"], ["r", "\xe9"]]
        if not cfg["qs_key"]:
            del req.environ["QUERY_STRING"]
            get_want = []
        got = canon_post(req.POST)
        again = canon_post(req.POST)
        get = [list(kv) for kv in req.GET.items()]
        params = canon_post(req.params)
    except Exception as e:  # noqa
        plain = oracle_post(fields, mode, "list")
        if plain:                       # the fields themselves fail under the default configuration too
            return plain[:2]
        key = "blank:content-type-parameter-loses-boundary" if "boundary" in str(e).lower() else "config:raises"
        return key, "%s: raised %s: %s" % (what, type(e).__name__, e)
    if got != want or again != want:
        plain = oracle_post(fields, mode, "list")
        if plain:
            return plain[:2]
        return "config:post-differs", "%s: request.POST gives %r (again: %r)" % (what, got, again)
    if hkw and cfg["stream"] != "late" and req.headers.get("X-Other") != "1":
        return "config:headers-lost", "%s: the other header passed to blank is gone" % what
    if get != get_want or params != get_want + want:
        return "config:params", "%s: GET %r params %r" % (what, get, params)
    return None


SHAPES = ["str-body", "bytes-body", "generator", "iterator", "dict", "md", "positional", "file-str-content",
          "text-bytes-value", "fileobj", "reader", "fieldstorage-list", "fieldstorage-dict", "empty"]


class _Reader(object):
    def __init__(self, data):
        self._d = data

    def read(self):
        return self._d


def oracle_shapes(fields, shape):
    """Every accepted spelling of the POST argument of Request.blank gives the same request.POST."""
    import io
    from webob import Request
    from webob.multidict import MultiDict
    has_files = any(not isinstance(v, str) for _, v in fields)
    want = want_post(fields)
    kw = {}
    args = ["/", {"QUERY_STRING": "q=1"}, None, None]
    try:
        if shape in ("str-body", "bytes-body"):
            if has_files:
                return None
            body = urllib.parse.urlencode([(k.encode("utf-8"), v.encode("utf-8")) for k, v in fields])
            data = body if shape == "str-body" else body.encode("ascii")
        elif shape == "generator":
            data = ((k, v) for k, v in fields)
        elif shape == "iterator":
            data = iter(list(fields))
        elif shape in ("dict", "md"):
            if shape == "dict":
                seen = set()
                fields = [f for f in fields if not (f[0] in seen or seen.add(f[0]))]
                want = want_post(fields)
            data = dict(fields) if shape == "dict" else MultiDict(fields)
        elif shape == "positional":
            data = list(fields)
        elif shape == "file-str-content":
            data = [(k, v if isinstance(v, str) else (v[0], v[1].decode("latin-1"))) for k, v in fields]
            want = [[k, v] if isinstance(v, str) else [k, v[0], v[1].decode("latin-1").encode("utf-8")] for k, v in fields]
        elif shape == "text-bytes-value":
            data = [(k, v.encode("utf-8") if isinstance(v, str) else v) for k, v in fields]
        elif shape in ("fileobj", "reader"):
            mk = io.BytesIO if shape == "fileobj" else _Reader
            data = [(k, v if isinstance(v, str) else (v[0], mk(v[1]))) for k, v in fields]
        elif shape in ("fieldstorage-list", "fieldstorage-dict"):
            src = Request.blank("/", POST=list(fields), content_type="multipart/form-data")
            items = list(src.POST.items())
            if shape == "fieldstorage-dict":
                seen = set()
                items = [f for f in items if not (f[0] in seen or seen.add(f[0]))]
                fields = [f for f in fields if f[0] in seen and not seen.discard(f[0])]
                want = want_post(fields)
                data = dict(items)
            else:
                data = items
        else:
            data = [list, tuple, dict, MultiDict][len(fields) % 4]()
            fields, want, has_files = [], [], False
        if has_files or shape in ("text-bytes-value",) and len(fields) % 2:
            kw["content_type"] = "multipart/form-data"
        req = Request.blank(*(args + [data]), **kw) if shape == "positional" else \
            Request.blank("/", environ={"QUERY_STRING": "q=1"}, POST=data, **kw)
        got = canon_post(req.POST)
        params = canon_post(req.params)
        method = req.method
    except Exception as e:  # noqa
        return "shape:raises", "Request.blank(POST=<%s of %r>) raised %s: %s" % (shape, fields, type(e).__name__, e)
    if got != want:
        return "shape:post-differs", "Request.blank(POST=<%s of %r>): request.POST gives %r, expected %r" % (
            shape, fields, got, want)
    if params != [["q", "1"]] + want or method != "POST":
        return "shape:params", "Request.blank(POST=<%s of %r>): method %r params %r" % (shape, fields, method, params)
    return None


def oracle_decode_cfg(cs, pairs, errors, late, where):
    """request.decode on a query + urlencoded form that IS validly encoded in cs, with its arguments varied: whatever
    `errors` handler is named the result is the same pairs; positional / keyword / implicit charset; quoted charset
    parameter.  late = env/attr: the Content-Type gets its charset AFTER the wrapper's charset was used once; the
    request charset is fixed at first use (documented, C01), so decode() without argument follows the first-use
    charset of THAT wrapper, decode(cs) with the explicit charset gives the pairs, and a new wrapper on the same
    environ (whose first use sees the new Content-Type) decodes implicitly to the pairs."""
    from webob import Request
    raw = [(k.encode(cs), v.encode(cs)) for k, v in pairs]
    qs = "&".join(urllib.parse.quote_plus(k) + "=" + urllib.parse.quote_plus(v) for k, v in raw)
    want = [list(p) for p in pairs]
    ct = "application/x-www-form-urlencoded; charset=%s" % (cs if late != "quoted" else '"%s"' % cs)
    what = "decode(%r, errors=%r) [%s, %s] of %r" % (cs, errors, late, where, qs)

    def views(d):
        return [[list(kv) for kv in d.GET.items()], [list(kv) for kv in d.POST.items()], d.charset]

    def explicit(req):
        return req.decode(charset=cs, errors=errors) if where == "keyword" else req.decode(cs, errors)
    try:
        if late in ("env", "attr"):
            req = Request.blank("/", environ={"QUERY_STRING": qs}, POST=qs.encode("ascii"),
                                content_type="application/x-www-form-urlencoded")
            first = req.charset                                     # first use fixes the wrapper's charset
            if late == "env":
                req.environ["CONTENT_TYPE"] = ct
            else:
                req.content_type = ct
            if req.charset != first:
                return "decode:charset-not-fixed-at-first-use", "%s: charset was %r, now %r" % (what, first, req.charset)
            d0 = req.decode()
            if (d0 is req) != (first == "UTF-8"):
                return "decode:implicit-charset", "%s: decode() does not follow the first-use charset %r" % (what, first)
            got = views(explicit(req))
            fresh = views(Request(req.environ.copy()).decode())       # a new wrapper: its first use sees cs
            if fresh[:2] != [want, want]:
                return "decode:query", "%s: a new wrapper's decode() gives %r, expected %r" % (what, fresh, want)
        else:
            req = Request.blank("/", environ={"QUERY_STRING": qs}, POST=qs.encode("ascii"), content_type=ct)
            got = views(req.decode() if (errors == "strict" and where == "implicit") else explicit(req))
    except Exception as e:  # noqa
        return "decode:raises", "%s raised %s: %s" % (what, type(e).__name__, e)
    if got[0] != want or got[1] != want or got[2] != "UTF-8":
        return ("decode:query" if got[0] != want else "decode:form"), "%s: got %r, expected GET = POST = %r" % (what, got, want)
    return None


BAD_VALUES = ["surrogate", "none", "int", "bytes", "int-key", "surrogate-key"]
BAD_METHODS = ["add", "setitem", "setdefault", "setdefault-nodefault", "update", "update-kw", "extend", "extend-dict"]


def _bad_pair(kind, key):
    return {"surrogate": (key, "x\ud800y"), "none": (key, None), "int": (key, 5), "bytes": (key, b"x"),
            "int-key": (5, "x"), "surrogate-key": (key + "\udc80", "x")}[kind]


def _refused_write(g, method, kind, key):
    """One mutation of the GetDict that cannot be written to QUERY_STRING; None if the combination does not exist."""
    k, v = _bad_pair(kind, key)
    if method == "add":
        return catch(g.add, k, v)
    if method == "setitem":
        return catch(g.__setitem__, k, v)
    if method == "setdefault":
        return None if k in g else catch(g.setdefault, k, v)
    if method == "setdefault-nodefault":        # the None default of the method itself
        return None if (kind != "none" or k in g) else catch(g.setdefault, k)
    if method == "update":          # (update is item-by-item __setitem__: a good item before the bad one would land)
        return catch(g.update, [(k, v)])
    if method == "update-kw":
        return catch(lambda: g.update(**{k: v})) if isinstance(k, str) else None
    if method == "extend":
        return catch(g.extend, [("fine", "1"), (k, v), ("fine", "2")])
    if method == "extend-dict":
        return catch(g.extend, {k: v})
    raise ValueError(method)


def oracle_outside_get(qs0, refusals, good):
    """Outside the text domain of request.GET (the theorems assume text): k = 1..3 CONSECUTIVE writes that cannot go
    to QUERY_STRING (None / int / bytes / lone surrogate / non-str key, through add / __setitem__ / setdefault /
    update / extend), with no successful write between them, optionally followed by a good write.  After EVERY step:
    the refusal is UnicodeEncodeError / AttributeError / TypeError, the held view, request.GET and a fresh Request over
    the environ all show what was there before, QUERY_STRING is untouched; the final good write lands."""
    req, env = new_request(qs0)
    before = ref_decode_qs(qs0)
    if isinstance(before, Err):
        return None
    g = req.GET
    cur_qs = qs0
    for n, (method, kind, key) in enumerate(refusals):
        # d[k] = v (and update, which is d[k] = v per item) removes the key's old pairs and appends the new one in ONE
        # write-back (GetDict.__setitem__, fix 0ef2f53): when the value is refused nothing was written, so the old pairs
        # must still be there — "unchanged", like every other refused write.
        r = _refused_write(g, method, kind, key)
        if r is None:
            continue
        what = "refused write #%d %s(%s) under key %r on %r" % (n + 1, method, kind, key, qs0)
        if not isinstance(r, Err) or r.name not in ("UnicodeEncodeError", "AttributeError", "TypeError"):
            return "outside:get-bad-value-not-refused", "%s: returned %r" % (what, r)
        if env["QUERY_STRING"] != cur_qs:
            return "outside:query-string-half-written", "%s: QUERY_STRING became %r" % (what, env["QUERY_STRING"])
        held = [list(kv) for kv in g.items()]
        now = catch(lambda: [list(kv) for kv in req.GET.items()])
        params = catch(lambda: [list(kv) for kv in req.params.items()])
        fresh = impl_get(env["QUERY_STRING"])
        if held != before or now != before or params != before or fresh != before:
            return "outside:refused-value-stays-in-view", (
                "%s: after the refusal (%r) the GetDict shows %r, request.GET %r, params %r, a fresh Request %r; before "
                "the write: %r" % (what, r, held, now, params, fresh, before))
    if good:
        r2 = catch(g.add, "ok", "1")
        want = before + [["ok", "1"]]
        items = catch(lambda: [list(kv) for kv in req.GET.items()])
        fresh = impl_get(env["QUERY_STRING"])
        if isinstance(r2, Err) or items != want or fresh != want:
            return "outside:cannot-recover", ("after %r on %r: a following good write returned %r, GET shows %r, "
                                              "QUERY_STRING %r parses to %r, expected %r"
                                              % (refusals, qs0, r2, items, env["QUERY_STRING"], fresh, want))
    return None


def oracle_outside_misc(case):
    from webob import Request
    t = case["t"]
    if t == "qs-non-wsgi":                  # code points >= 256: the stated refusal is UnicodeEncodeError
        req, env = new_request(case["qs"])
        for name, f in (("GET", lambda: list(req.GET.items())), ("params", lambda: list(req.params.items()))):
            r = catch(f)
            if r != Err("UnicodeEncodeError"):
                return "outside:non-wsgi-query-string", "%s on QUERY_STRING %r gives %r" % (name, case["qs"], r)
        if env["QUERY_STRING"] != case["qs"]:
            return "outside:non-wsgi-query-string", "QUERY_STRING changed to %r" % env["QUERY_STRING"]
        env["QUERY_STRING"] = "a=1"
        if catch(lambda: [list(kv) for kv in req.GET.items()]) != [["a", "1"]]:
            return "outside:non-wsgi-query-string", "the request does not recover after QUERY_STRING is repaired"
        return None
    fields = fix_fields(case["fields"])
    if t == "crlf-names":
        # urlencoded: line breaks in names are quoted, the whole property still holds
        flat = [(k, v) for k, v in fields if isinstance(v, str)]
        m = post_roundtrip(flat, "urlencoded", "list")
        if m:
            return "outside:crlf-name-urlencoded", m
        # multipart: cgi reads headers line by line; what must survive is everything ELSE
        try:
            got = canon_post(Request.blank("/", POST=list(fields), content_type="multipart/form-data").POST)
        except Exception as e:  # noqa
            return "outside:crlf-name-raises", "POST=%r raised %s: %s" % (fields, type(e).__name__, e)
        want = want_post(fields)
        clean = lambda f: not any(c in s for c in "\r\n" for s in ([f[0]] if len(f) == 2 else f[:2]))  # noqa
        if len(got) != len(want) or any(g != w for g, w in zip(got, want) if clean(w)):
            return "outside:crlf-name-damages-neighbours", "POST=%r gives %r" % (fields, got)
        return None
    if t == "empty-filename":
        try:
            got = canon_post(Request.blank("/", POST=list(fields), content_type="multipart/form-data").POST)
        except Exception as e:  # noqa
            return "outside:empty-filename-raises", "POST=%r raised %s: %s" % (fields, type(e).__name__, e)
        want = [[k, v] if isinstance(v, str) else ([k, v[1]] if not v[0] else [k, v[0], v[1]]) for k, v in fields]
        if got != want:
            return "outside:empty-filename", "POST=%r gives %r, expected the contents under the same names %r" % (
                fields, got, want)
        return None
    if t == "boundary-in-content":
        b = case["boundary"]
        try:
            got = canon_post(Request.blank("/", POST=list(fields),
                                           content_type="multipart/form-data; boundary=%s" % b).POST)
        except Exception as e:  # noqa
            return "outside:boundary-in-content-raises", "POST=%r raised %s: %s" % (fields, type(e).__name__, e)
        want = want_post(fields)
        n = next(i for i, (k, v) in enumerate(fields) if ("--" + b) in (v if isinstance(v, str) else v[1].decode("latin-1")))
        if got[:n] != want[:n]:
            return "outside:boundary-in-content", "the fields BEFORE the one containing the boundary changed: %r" % (got,)
        return None
    if t == "refusals":
        r = Request.blank("/", environ={"QUERY_STRING": "a=%e9"}, POST=b"b=%e9",
                          content_type="application/x-www-form-urlencoded; charset=latin-1")
        checks = [
            (catch(lambda: r.POST), Err("DeprecationWarning"), "POST of a non-UTF-8 form must ask for decode()"),
            (catch(lambda: Request.blank("/?a=1", POST=b"b=%e9", content_type="application/x-www-form-urlencoded; "
                                         "charset=latin-1").params), Err("DeprecationWarning"),
             "params of a non-UTF-8 form must ask for decode()"),
            (catch(lambda: r.decode("no-such-codec")), Err("LookupError"), "decode() with an unknown codec"),
            (catch(lambda: [list(kv) for kv in r.decode("latin-1").POST.items()]), [["b", "\xe9"]], "decode afterwards"),
            (catch(lambda: Request.blank("/", POST=[("a", "b")], content_type="text/plain")), Err("ValueError"),
             "non-form content type with non-bytes POST data"),
            (catch(lambda: Request.blank("/", POST=[("f", ("x", b"1"))], content_type="application/x-www-form-urlencoded")),
             Err("ValueError"), "files in an urlencoded form"),
            (catch(lambda: canon_post(Request.blank("/?a=1", POST=b"x=1", content_type="text/plain").POST)), [],
             "a non-form body has no POST variables"),
            (catch(lambda: canon_post(Request.blank("/?a=1", POST=b"x=1", content_type="text/plain").params)), [["a", "1"]],
             "params of a non-form request is GET"),
        ]
        for got, want, what in checks:
            if got != want:
                return "outside:refusal", "%s: got %r, expected %r" % (what, got, want)
        return None
    raise ValueError(case)


# ===================================================================== UTF-8 generators
CP_BOUNDS = [0, 0x41, 0x7f, 0x80, 0x7ff, 0x800, 0xfff, 0x1000, 0xcfff, 0xd000, 0xd7ff, 0xe000, 0xfffd, 0xffff, 0x10000,
             0x3ffff, 0x40000, 0xfffff, 0x100000, 0x10ffff]


def rand_scalar(rng):
    r = rng.random()
    if r < 0.4:
        return rng.choice(CP_BOUNDS)
    if r < 0.6:
        return rng.randrange(0x80)
    if r < 0.8:
        return rng.randrange(0x80, 0x800)
    c = rng.randrange(0x800, 0x110000)
    return c if not 0xd800 <= c <= 0xdfff else 0xe000


def rand_utf8_bytes(rng):
    r = rng.random()
    s = "".join(chr(rand_scalar(rng)) for _ in range(rng.randrange(5))).encode("utf-8")
    if r < 0.35:
        return s
    if r < 0.6 and s:                               # one byte flipped / dropped / inserted
        b = bytearray(s)
        i = rng.randrange(len(b))
        m = rng.randrange(3)
        if m == 0:
            b[i] = rng.choice([0x80, 0xbf, 0xc0, 0xc1, 0xc2, 0xe0, 0xed, 0xf0, 0xf4, 0xf5, 0xff, 0x7f, b[i] ^ 0x40])
        elif m == 1:
            del b[i]
        else:
            b.insert(i, rng.choice([0x80, 0xbf, 0xc2, 0xe0, 0xf0]))
        return bytes(b)
    if r < 0.8:                                     # structured near-misses
        return rng.choice([b"\xc0\x80", b"\xc1\xbf", b"\xe0\x80\x80", b"\xe0\x9f\xbf", b"\xe0\xa0\x80", b"\xed\x9f\xbf",
                           b"\xed\xa0\x80", b"\xed\xbf\xbf", b"\xee\x80\x80", b"\xf0\x80\x80\x80", b"\xf0\x8f\xbf\xbf",
                           b"\xf0\x90\x80\x80", b"\xf4\x8f\xbf\xbf", b"\xf4\x90\x80\x80", b"\xf5\x80\x80\x80", b"\xc2",
                           b"\xe2\x82", b"\xf0\x9f\x98", b"\xc2\xc2\x80", b"\xe2\x28\xa1", b"\xf8\x88\x80\x80\x80"]) + \
            rng.choice([b"", b"a", s])
    return bytes(rng.randrange(256) for _ in range(rng.randrange(6)))


# ===================================================================== the check
def _disagree(ctx, name, case, res):
    """A correspondence disagreement: report the property failure if there is one, else a broken tie."""
    if res:
        _fail(ctx, res[0], res[1], case, True, "corr")
    else:
        ctx.broken.append("correspondence %s: model and implementation disagree on %s" % (name, json.dumps(fw.jsonable(case))[:600]))


# every implementation object the Gallina models mirror by hand (Model/C09_QueryCodec.v, C09_Held.v, C09_Multipart.v)
MODELLED = [
    # util.py: hexval / unq_item / unquote / parse_qsl_text
    "webob.util:_hexdig", "webob.util:_hextobyte", "webob.util:unquote", "webob.util:parse_qsl_text",
    # stdlib: quote_plus_byte / quote_plus / urlencode_b (modelled, validated by the on_change correspondence)
    "urllib.parse:_ALWAYS_SAFE", "urllib.parse:quote_from_bytes", "urllib.parse:quote_plus", "urllib.parse:urlencode",
    # GetDict: on_change and the mutators that call it (rq_step / hq_apply); copy() is untracked
    "webob.multidict:GetDict.__init__", "webob.multidict:GetDict.on_change", "webob.multidict:GetDict.__setitem__",
    "webob.multidict:GetDict.add", "webob.multidict:GetDict.__delitem__", "webob.multidict:GetDict.clear",
    "webob.multidict:GetDict.setdefault", "webob.multidict:GetDict.pop", "webob.multidict:GetDict.popitem",
    "webob.multidict:GetDict.update", "webob.multidict:GetDict.extend", "webob.multidict:GetDict.copy",
    # the MultiDict operations GetDict delegates to (C08's step_i, reused)
    "webob.multidict:MultiDict.__setitem__", "webob.multidict:MultiDict.add", "webob.multidict:MultiDict.__delitem__",
    "webob.multidict:MultiDict.clear", "webob.multidict:MultiDict.setdefault", "webob.multidict:MultiDict.pop",
    "webob.multidict:MultiDict.popitem", "webob.multidict:MultiDict.update", "webob.multidict:MultiDict.extend",
    "webob.multidict:MultiDict.items",
    # request.py: get_vars / hq_get (GET and its environ cache), params_items, transcode_query, enc_part / encode_multipart
    "webob.request:BaseRequest.GET", "webob.request:BaseRequest.params", "webob.multidict:NestedMultiDict.items",
    "webob.request:Transcoder.transcode_query", "webob.request:_encode_multipart",
]
REGENERATED = []          # C09 has no coq/Gen part
# exercised by the oracle (and by the multipart-decode comparison with the reference splitter) but not mirrored in Gallina
ORACLE_ONLY = [
    "webob.request:BaseRequest.POST", "webob.request:BaseRequest.decode", "webob.request:BaseRequest.copy",
    "webob.request:BaseRequest.copy_get", "webob.request:BaseRequest.blank", "webob.request:BaseRequest.body",
    "webob.request:BaseRequest.copy_body", "webob.request:BaseRequest.make_body_seekable",
    "webob.request:environ_add_POST", "webob.request:_get_multipart_boundary", "webob.request:Transcoder.transcode_fs",
    "webob.request:Transcoder.__init__", "webob.request:BaseRequest.charset", "webob.request:detect_charset",
    "webob.request:BaseRequest.method", "webob.request:BaseRequest.content_type", "webob.request:BaseRequest.query_string",
    "webob.multidict:MultiDict.from_fieldstorage", "webob.multidict:NoVars",
    "webob.compat:cgi_FieldStorage", "webob.util:text_", "webob.util:bytes_",
    "cgi:FieldStorage", "cgi:parse_header", "mimetypes:guess_type",
]


def hash_small(t):
    """A process-independent small hash (PYTHONHASHSEED must not matter)."""
    return sum(ord(c) for x in t for c in str(x))


def _fail(ctx, key, what, case, found=True, source="oracle"):
    """Report a failure; one defect = one key, whichever oracle met it: a failure that is the nested-multipart error
    of an upload whose filename mimetypes reads as a data: URL of type multipart/* is filed under that defect."""
    if ("Invalid boundary in multipart form" in what or "Err(ValueError)" in what) and re.search(r"data:multipart/", json.dumps(fw.jsonable(case)), re.I):
        key = "multipart:filename-read-as-data-url"
    ctx.fail(key, what, case, found, source)


def run(ctx):
    ctx.modelled(MODELLED)
    ctx.extra["regenerated_from_source"] = REGENERATED
    ctx.extra["oracle_only"] = ORACLE_ONLY
    ctx.build(["Props/C09.vo"])
    T = ctx.thorough

    # ------------------------------------------------------------------ correspondence: utf-8
    rng = ctx.sub_rng("utf8")
    cases = []
    for _ in range(ctx.scale(400, 4000)):
        b = rand_utf8_bytes(rng)
        cases.append((cstr(b), catch(b.decode, "utf-8"), {"kind": "utf8-decode", "bytes": b.hex()}))
    bad = ctx.corr("utf8-decode", IMPORTS, "v_utf8_decode", cases, in_type="str")
    for i in bad[:3]:
        ctx.broken.append("utf8_decode model disagrees with CPython on %s" % cases[i][2])
    cases = []
    for _ in range(ctx.scale(300, 2000)):
        s = "".join(chr(rand_scalar(rng)) for _ in range(rng.randrange(5)))
        cases.append((cstr(s), s.encode("utf-8"), {"kind": "utf8-encode", "text": s}))
    bad = ctx.corr("utf8-encode", IMPORTS, "v_utf8_encode", cases, in_type="str")
    for i in bad[:3]:
        ctx.broken.append("utf8_encode model disagrees with CPython on %s" % cases[i][2])

    # ------------------------------------------------------------------ correspondence: unquote / parse
    rng = ctx.sub_rng("corr-query")
    qss = ["".join(t) for n in range(0, 4) for t in itertools.product(QS_ALPHA, repeat=n)]      # all strings <= 3
    qss += [rand_qs(rng, 10) for _ in range(ctx.scale(300, 6000))]
    cases = [(cstr(q.encode("latin-1")), impl_unquote(q.encode("latin-1")), {"kind": "query", "qs": q}) for q in qss]
    bad = ctx.corr("unquote", IMPORTS, "v_unquote", cases, in_type="str", shard=200)
    for i in bad[:6]:
        # unquote is applied to each side of a pair: a=<s> exposes it through request.GET
        q = "a=" + cases[i][2]["qs"].replace("&", "").replace(";", "").replace("+", "")
        _disagree(ctx, "unquote", {"kind": "query", "qs": q}, oracle_query(q))
    cases = [(cstr(q), impl_parse(q), {"kind": "query", "qs": q}) for q in qss]
    cases.append((cstr("a=€"), impl_parse("a=€"), {"kind": "query", "qs": "a=€"}))   # not a WSGI string
    bad = ctx.corr("parse_qsl_text", IMPORTS, "v_parse", cases, in_type="str", shard=200)
    for i in bad[:6]:
        _disagree(ctx, "parse_qsl_text", cases[i][2], oracle_query(cases[i][2]["qs"]))

    # ------------------------------------------------------------------ correspondence: on_change / transcode
    cases = []
    for _ in range(ctx.scale(300, 3000)):
        its = rand_pairs(rng, 4)
        cases.append((citems(its), impl_on_change(its), {"kind": "writeback", "items": its}))
    bad = ctx.corr("on_change", IMPORTS, "v_on_change", cases, in_type="items", shard=100)
    for i in bad[:4]:
        it = cases[i][2]["items"]
        _disagree(ctx, "on_change", cases[i][2], oracle_history("", [("extend", it, "list")]))
    cases = []
    for _ in range(ctx.scale(300, 3000)):
        q = rand_qs(rng, 10)
        cases.append((cstr(q), impl_transcode("latin-1", q), {"kind": "query", "qs": q}))
    bad = ctx.corr("transcode_query", IMPORTS, "v_transcode_latin1", cases, in_type="str")
    for i in bad[:4]:
        q = cases[i][2]["qs"]
        _disagree(ctx, "transcode_query", {"kind": "decode-raw", "qs": q, "cs": "latin-1"},
                  oracle_decode_raw(q, "latin-1") or oracle_query(q))

    # Transcoder(charset, errors).transcode_query: `errors` does not reach the query path (parse_qsl_text decodes
    # strictly), so ONE model function answers for every handler
    for errs in ("strict", "replace", "ignore"):
        cases = []
        for _ in range(ctx.scale(100, 1000)):
            q = rand_qs(rng, 8)
            from webob.request import Transcoder
            cases.append((cstr(q), catch(Transcoder("ascii", errs).transcode_query, q), {"kind": "query", "qs": q}))
        bad = ctx.corr("transcode_query-ascii-" + errs, IMPORTS, "v_transcode_ascii", cases, in_type="str")
        for i in bad[:3]:
            q = cases[i][2]["qs"]
            _disagree(ctx, "transcode_query-ascii-" + errs, {"kind": "decode-raw", "qs": q, "cs": "ascii"},
                      oracle_decode_raw(q, "ascii") or oracle_query(q))

    # ------------------------------------------------------------------ correspondence: request.GET histories
    cases = []
    for _ in range(ctx.scale(300, 2400)):
        qs0, ops = rand_history(rng, ctx.scale(8, 16))
        cases.append((cpair(cstr(qs0), clist(crq(o) for o in ops)), run_get_history(qs0, ops),
                      {"kind": "history", "qs0": qs0, "ops": ops}))
    bad = ctx.corr("request-get", IMPORTS, "(fun c => run_request_get (fst c) (snd c))", cases, in_type="(str * list rq_op)",
                   shard=40)
    for i in bad[:6]:
        c = cases[i][2]
        _disagree(ctx, "request-get", c, oracle_history(c["qs0"], c["ops"]))

    # ------------------------------------------------------------------ correspondence: held GetDict objects
    cases = []
    for _ in range(ctx.scale(250, 2000)):
        qs0, ops = rand_held_history(rng, ctx.scale(8, 14))
        cases.append((cpair(cstr(qs0), clist(chq(o) for o in ops)), run_held_history(qs0, ops),
                      {"kind": "held", "qs0": qs0, "ops": ops}))
    bad = ctx.corr("request-get-held", IMPORTS, "(fun c => run_request_held (fst c) (snd c))", cases,
                   in_type="(str * list hq_op)", shard=30)
    for i in bad[:6]:
        c = cases[i][2]
        _disagree(ctx, "request-get-held", c, run_held_history(c["qs0"], c["ops"], check=True))

    # ------------------------------------------------------------------ correspondence: multipart framing
    rng = ctx.sub_rng("corr-multipart")
    enc_cases, dec_cases = [], []
    for _ in range(ctx.scale(300, 2000)):
        fields = [(k, v[:300] if isinstance(v, str) else (v[0], v[1][:200])) for k, v in
                  rand_fields(rng, True, 3, trailing_backslash=rng.random() < 0.03)]
        b = rand_boundary(rng, fields)
        body = impl_encode_multipart(b, fields)
        jc = {"kind": "post", "fields": fields, "mode": "multipart", "form": "list"}
        enc_cases.append((cpair(cstr(b), clist(field_lit(f) for f in fields)), body, jc))
        if isinstance(body, bytes):
            dec_cases.append((cpair(cstr(b), cstr(body)), impl_decode_multipart(b, body), jc))
    bad = ctx.corr("encode_multipart", IMPORTS, "v_encode_multipart", enc_cases, in_type="(str * list mp_field)", shard=40)
    for i in bad[:6]:
        c = enc_cases[i][2]
        r = oracle_post(c["fields"], "multipart", "list")
        _disagree(ctx, "encode_multipart", dict(c, fields=r[2]) if r else c, r and r[:2])
    bad = ctx.corr("multipart-decode", IMPORTS, "v_ref_decode", dec_cases, in_type="(str * list N)", shard=40)
    for i in bad[:6]:
        c = dec_cases[i][2]
        r = oracle_post(c["fields"], "multipart", "list")
        _disagree(ctx, "multipart-decode", dict(c, fields=r[2]) if r else c, r and r[:2])

    # ------------------------------------------------------------------ oracle: GET decoding
    n_ex = ctx.scale(5, 6)
    cnt = nt = 0
    for n in range(0, n_ex + 1):
        for t in itertools.product(QS_ALPHA, repeat=n):
            qs = "".join(t)
            cnt += 1
            nt += ("%" in qs or "+" in qs or ";" in qs)
            r = oracle_query(qs, via_request=(n <= 4 or cnt % 7 == 0))
            if r:
                _fail(ctx, r[0], r[1], {"kind": "query", "qs": qs}, True, "get-exhaustive")
            if n <= 4:
                m = ref_selfcheck(qs)
                if m:
                    ctx.broken.append(m)
    ctx.oracle_count("get-exhaustive", cnt, nt)
    cnt = 0
    for n in range(0, ctx.scale(5, 6) + 1):          # escapes that produce the separators themselves
        for t in itertools.product(QS_ALPHA2, repeat=n):
            qs = "".join(t)
            cnt += 1
            r = oracle_query(qs, via_request=(cnt % 5 == 0))
            if r:
                _fail(ctx, r[0], r[1], {"kind": "query", "qs": qs}, True, "get-exhaustive-2")
    ctx.oracle_count("get-exhaustive-2", cnt, cnt)
    rng = ctx.sub_rng("oracle-query")
    m = ctx.scale(30000, 250000)
    for _ in range(m):
        qs = rand_qs(rng, 14)
        r = oracle_query(qs)
        if r:
            _fail(ctx, r[0], r[1], {"kind": "query", "qs": qs}, True, "get-random")
        s = ref_selfcheck(qs)
        if s:
            ctx.broken.append(s)
    ctx.oracle_count("get-random", m, m)

    # ------------------------------------------------------------------ oracle: mutation sequences and write-back
    U = small_op_universe()
    depth = ctx.scale(2, 3)
    cnt = 0
    for d in range(1, depth + 1):
        for ops in itertools.product(U, repeat=d):
            for qs0 in ("", "a=1&%26%3D=2;a=%C3%A9"):
                cnt += 1
                r = oracle_history(qs0, list(ops))
                if r:
                    _fail(ctx, r[0], r[1], {"kind": "history", "qs0": qs0, "ops": list(ops)}, True, "mutation-exhaustive")
    ctx.oracle_count("mutation-exhaustive", cnt, cnt)
    rng = ctx.sub_rng("oracle-history")
    m = ctx.scale(4000, 30000)
    for _ in range(m):
        qs0, ops = rand_history(rng, 25)
        r = oracle_history(qs0, ops)
        if r:
            _fail(ctx, r[0], r[1], {"kind": "history", "qs0": qs0, "ops": ops}, True, "mutation-random")
    ctx.oracle_count("mutation-random", m, m)

    # ------------------------------------------------------------------ oracle: ONE long-lived Request / held GetDicts
    rng = ctx.sub_rng("oracle-live")
    cnt = 0
    for c in DIRECTED_LIVE:
        cnt += 1
        case = dict(c, kind="live")
        r = oracle_live(case)
        if r:
            _fail(ctx, r[0], r[1], case, True, "live-request")
    m = ctx.scale(5000, 60000)
    for _ in range(m):
        case = rand_live_case(rng, ctx.scale(14, 24))
        r = oracle_live(case)
        if r:
            _fail(ctx, r[0], r[1], case, True, "live-request")
    ctx.oracle_count("live-request", cnt + m, cnt + m)
    m = ctx.scale(4000, 40000)
    for _ in range(m):
        qs0, ops = rand_held_history(rng, 20)
        r = run_held_history(qs0, ops, check=True)
        if r:
            _fail(ctx, r[0], r[1], {"kind": "held", "qs0": qs0, "ops": ops}, True, "held-getdict")
    # every 3-step interleaving of {mutation through a stale GetDict, raw edit, mutation through request.GET}
    HU = [("held", 0, ("pop", "a", True, None)), ("held", 0, ("pop", "zz", True, "d")), ("held", 0, ("add", "k&", "+ %")),
          ("held", 1, ("setdefault", "a", "x")), ("held", 1, ("del", "a")), ("held", 0, ("copy",)), ("setqs", "a=%31;b=+"),
          ("setqs", "c=3"), ("setqs", ""), ("pop", "a", True, None), ("add", "\xe9", "1"), ("clear",), ("copy",),
          ("update", []), ("del", "nope")]
    cnt = 0
    for d in range(1, ctx.scale(3, 4) + 1):
        for ops in itertools.product(HU, repeat=d):
            cnt += 1
            r = run_held_history("a=1&b=2", list(ops), check=True)
            if r:
                _fail(ctx, r[0], r[1], {"kind": "held", "qs0": "a=1&b=2", "ops": list(ops)}, True, "held-getdict")
    ctx.oracle_count("held-getdict", m + cnt, m + cnt)

    # ------------------------------------------------------------------ oracle: caller's arguments, call order
    rng = ctx.sub_rng("oracle-args")
    m = ctx.scale(1500, 15000)
    for _ in range(m):
        mode = rng.choice(["multipart", "multipart", "urlencoded"])
        fields = rand_fields(rng, files=(mode == "multipart"), maxn=4)
        form = rng.choice(["list", "tuple", "dict", "md"]) + rng.choice(["", "-fileobj", "-listval"])
        r = oracle_args(fields, mode, form)
        if r:
            _fail(ctx, r[0], r[1], {"kind": "args", "fields": fields, "mode": mode, "form": form}, True, "blank-args")
    ctx.oracle_count("blank-args", m, m)
    m = ctx.scale(10, 80)
    n_calls = 0
    for _ in range(m):
        items = rand_order_items(rng, 30)
        idx = list(range(len(items)))
        perms = [idx[::-1], rng.sample(idx, len(idx))]
        n_calls += 3 * len(items)
        r = oracle_order(items, perms)
        if r:
            _fail(ctx, r[0], r[1], {"kind": "order", "items": items, "perms": perms}, True, "call-order")
    ctx.oracle_count("call-order", n_calls, n_calls)

    # ------------------------------------------------------------------ oracle: configurations, argument shapes
    rng = ctx.sub_rng("oracle-config")
    m = ctx.scale(2500, 25000)
    for _ in range(m):
        mode = rng.choice(["multipart", "multipart", "urlencoded"])
        fields = rand_fields(rng, files=(mode == "multipart"), maxn=3)
        cfg = rand_cfg(rng, mode)
        r = oracle_post_cfg(fields, mode, cfg)
        if r:
            _fail(ctx, r[0], r[1], {"kind": "post-cfg", "fields": fields, "mode": mode, "cfg": cfg}, True, "config-post")
    ctx.oracle_count("config-post", m, m)
    m = ctx.scale(2000, 20000)
    for j in range(m):
        fields = rand_fields(rng, files=rng.random() < 0.6, maxn=3)
        shape = SHAPES[j % len(SHAPES)]
        r = oracle_shapes(fields, shape)
        if r:
            _fail(ctx, r[0], r[1], {"kind": "shape", "fields": fields, "shape": shape}, True, "blank-shapes")
    ctx.oracle_count("blank-shapes", m, m)
    m = ctx.scale(1500, 15000)
    for _ in range(m):
        cs = rng.choice(["latin-1", "cp1252", "shift_jis"])
        errors = rng.choice(["strict", "strict", "replace", "ignore"])
        pairs = cs_pairs(rng, cs)               # always validly encoded in cs: `errors` must make no difference
        late = rng.choice([None, "env", "attr", "quoted"])
        where = rng.choice(["positional", "keyword", "implicit"])
        r = oracle_decode_cfg(cs, pairs, errors, late, where)
        if r:
            _fail(ctx, r[0], r[1], {"kind": "decode-cfg", "cs": cs, "pairs": pairs, "errors": errors, "late": late,
                                  "where": where}, True, "decode-config")
    ctx.oracle_count("decode-config", m, m)

    # ------------------------------------------------------------------ oracle: outside the modelled domains
    rng = ctx.sub_rng("oracle-outside")
    m = ctx.scale(600, 6000)
    cnt = 0
    for _ in range(m):
        qs0 = rand_valid_qs(rng)
        refusals = [(rng.choice(BAD_METHODS), rng.choice(BAD_VALUES), rand_text(rng)) for _ in range(rng.randrange(1, 4))]
        good = rng.random() < 0.7
        cnt += 1
        r = oracle_outside_get(qs0, refusals, good)
        if r:
            _fail(ctx, r[0], r[1], {"kind": "outside-get", "qs0": qs0, "refusals": refusals, "good": good}, True,
                  "outside-domain")
    # every pair / triple of refusal kinds in a row on a small query (methods rotate)
    kinds2 = [(m, k) for m in BAD_METHODS for k in BAD_VALUES]
    for a, b in itertools.product(kinds2, repeat=2):
        if (hash_small(a) + hash_small(b)) % ctx.scale(6, 1) and a != b:
            continue
        for good in (True, False):
            cnt += 1
            refusals = [(a[0], a[1], "g"), (b[0], b[1], "h")]
            r = oracle_outside_get("a=1&b=%C3%A9", refusals, good)
            if r:
                _fail(ctx, r[0], r[1], {"kind": "outside-get", "qs0": "a=1&b=%C3%A9", "refusals": refusals, "good": good},
                      True, "outside-domain")
    misc = [{"t": "qs-non-wsgi", "qs": q} for q in ("a=€", "\u0100", "a=1&b=\U0001f600", "%41=\u20ac;x")] + \
        [{"t": "refusals", "fields": []}]
    for _ in range(ctx.scale(300, 3000)):
        fields = rand_fields(rng, True, 4)
        i = rng.randrange(len(fields) + 1)
        brk = rng.choice(["\r\n", "\n", "\r", "\r\nX-Y: z", '"\r\n\r\ninj\r\n'])
        bad = ("b" + brk + rand_name(rng, 1), "2") if rng.random() < 0.6 else \
            ("f", ("x" + brk + "y.txt", b"2"))
        misc.append({"t": "crlf-names", "fields": fields[:i] + [bad] + fields[i:]})
        misc.append({"t": "empty-filename", "fields": fields[:i] + [("e", ("", rand_bytes(rng)[:50]))] + fields[i:]})
        b = "xB%04x" % rng.randrange(16 ** 4)
        clean = [f for f in fields if b.encode() not in (f[1].encode("utf-8") if isinstance(f[1], str) else f[1][1])]
        hit = ("h", "x\r\n--%s\r\ny" % b) if rng.random() < 0.5 else ("h", ("h.bin", b"\n--" + b.encode() + b"--"))
        misc.append({"t": "boundary-in-content", "boundary": b, "fields": clean[:i] + [hit] + clean[i:]})
    for case in misc:
        cnt += 1
        r = oracle_outside_misc(case)
        if r:
            _fail(ctx, r[0], r[1], dict(case, kind="outside-misc"), True, "outside-domain")
    ctx.oracle_count("outside-domain", cnt, cnt)

    # ------------------------------------------------------------------ oracle: POST round trips
    rng = ctx.sub_rng("oracle-post")
    m = ctx.scale(6000, 50000)
    nfile = 0
    for j in range(m):
        mode = rng.choice(["multipart", "multipart", "auto", "urlencoded"])
        fields = rand_fields(rng, files=(mode != "urlencoded"), maxn=4, trailing_backslash=(j % 97 == 0),
                             empty_filename=True)
        fields = [(k.replace("\r", "").replace("\n", ""),
                   v if isinstance(v, str) else (v[0].replace("\r", "").replace("\n", ""), v[1])) for k, v in fields]
        form = rng.choice(["list", "list", "md", "tuple"])
        nfile += any(not isinstance(v, str) for _, v in fields)
        r = oracle_post(fields, mode, form)
        if r:
            _fail(ctx, r[0], r[1], {"kind": "post", "fields": r[2], "mode": mode, "form": form}, True, "post-roundtrip")
    ctx.oracle_count("post-roundtrip", m, nfile)
    cnt = 0
    for fields in DIRECTED_FIELDS:
        for mode in ("multipart", "auto") + (() if any(not isinstance(v, str) for _, v in fields) else ("urlencoded",)):
            for form in ("list", "md"):
                cnt += 1
                r = oracle_post(fields, mode, form)
                if r:
                    _fail(ctx, r[0], r[1], {"kind": "post", "fields": r[2], "mode": mode, "form": form}, True,
                             "post-directed")
    ctx.oracle_count("post-directed", cnt, cnt)
    # framing stress: every content over a CR/LF/dash alphabet up to a small length, as file and as text
    cnt = 0
    for n in range(0, ctx.scale(4, 6) + 1):
        for t in itertools.product(b"\r\n-a", repeat=n):
            content = bytes(t)
            cnt += 1
            fields = [("f", ("x.bin", content)), ("t", content.decode("ascii")), ("g", ("y", content + b"\r\n"))]
            r = oracle_post(fields, "multipart", "list")
            if r:
                _fail(ctx, r[0], r[1], {"kind": "post", "fields": r[2], "mode": "multipart", "form": "list"}, True,
                         "post-framing")
    ctx.oracle_count("post-framing", cnt, cnt)

    # ------------------------------------------------------------------ oracle: request.decode(charset)
    rng = ctx.sub_rng("oracle-decode")
    css = ["latin-1", "cp1252", "shift_jis"] + (["euc-jp", "koi8-r", "big5", "iso-8859-15", "utf-16"] if T else [])
    m = ctx.scale(300, 2000)
    cnt = 0
    for cs in css:
        for _ in range(m):
            pairs = cs_pairs(rng, cs)
            raw = rng.random() < 0.4 and cs not in ("utf-16",)
            cnt += 1
            r = oracle_decode_query(pairs, cs, raw, rng.random() < 0.5)
            if r:
                _fail(ctx, r[0], r[1], {"kind": "decode-query", "pairs": pairs, "cs": cs, "raw": raw}, True, "decode")
        for _ in range(m // 2):
            if cs == "utf-16":
                break
            fields = cs_fields(rng, cs)
            ctform = rng.randrange(3)
            cnt += 1
            r = oracle_decode_multipart(fields, cs, ctform)
            if r:
                _fail(ctx, r[0], r[1], {"kind": "decode-multipart", "fields": fields, "cs": cs, "ctform": ctform}, True,
                         "decode")
    # arbitrary query strings read in cs (with and without '=', bare names, ';', malformed escapes)
    alpha = ["k", "%E9", "%e9", "&", ";", "=", "+", "x", "%41", "%zz", "\xe9", "%82%A0", "%"]
    for n in range(1, ctx.scale(3, 4) + 1):
        for t in itertools.product(alpha, repeat=n):
            qs = "".join(t)
            for cs in ("latin-1", "cp1252") + (("shift_jis",) if "%82%A0" in qs else ()):
                cnt += 1
                r = oracle_decode_raw(qs, cs)
                if r:
                    _fail(ctx, r[0], r[1], {"kind": "decode-raw", "qs": qs, "cs": cs}, True, "decode")
    ctx.oracle_count("decode", cnt, cnt)

    ctx.extra["rule"] = (
        "correspondence: every string of length <= 3 over {%% + & ; = a 4 z 0xC3 0xA9} plus random chunk strings "
        "(malformed escapes, multi-byte escapes, raw high octets) for unquote / parse_qsl_text / transcode_query; random "
        "item lists for on_change; random histories (C08 op set + external QUERY_STRING assignment) for request.GET, "
        "compared step by step; random field lists (names with quotes, backslashes, separators, NUL; CR/LF-heavy "
        "contents) for _encode_multipart bytes and for cgi.FieldStorage vs the Gallina reference splitter; CPython "
        "utf-8 codec vs Lib/C09_Utf8 on boundary code points and damaged encodings.  oracle: all query strings of "
        "length <= %d over that alphabet and %d random ones against an independent reference decoder (itself "
        "cross-checked with urllib on ';'-free input); all op sequences of depth <= %d over a %d-op universe x 2 "
        "initial queries and random histories of length <= 25 with a fresh re-parse after every step; POST round "
        "trips in urlencoded/multipart/auto mode as list/tuple/MultiDict, all CR/LF/dash contents up to length %d; "
        "decode(cs) for %s; ONE long-lived Request per history (reads, mutations, held GetDicts, raw edits, body "
        "replacement, copy/copy_get/decode) compared with fresh objects after every step, caller-argument immutability of "
        "Request.blank, and the same calls in different orders in fresh interpreters.  non-trivial = contains an escape/'+'/';' (queries), has a file (POST), every history"
        % (n_ex, ctx.scale(30000, 250000), depth, len(U), ctx.scale(4, 6), ", ".join(css)))
    ctx.extra["exhaustive"] = False
    ctx.assume += [
        "QUERY_STRING is a WSGI native string (code points < 256); anything else raises UnicodeEncodeError in "
        "qs.encode('latin-1') and is outside the property",
        "text is a sequence of Unicode scalar values (a lone surrogate makes str.encode('utf8') raise)",
        "a file upload has a non-empty filename; names and filenames contain no CR/LF",
        "multipart theorem: the delimiter CRLF--boundary does not occur inside a part before its end (early_free); "
        "generated boundaries never occur in generated contents",
        "Transcoder theorem: the source codec returns text (scalar values) — true of CPython codecs with errors='strict'",
    ]
    ctx.trusted += [
        "urllib.parse.quote_plus/urlencode, str.encode/bytes.decode('utf-8'), mimetypes.guess_type: modelled "
        "(Model/C09_QueryCodec.v, Lib/C09_Utf8.v) and validated by correspondence, not verified",
        "cgi.FieldStorage / cgi.parse_header: not modelled; the Gallina reference splitter is compared with it on "
        "bodies produced by webob's encoder only (multipart-decode correspondence)",
        "Spec/C09_FormSpec.v is trusted to say what the property text says; its Python twin ref_decode_qs is "
        "cross-checked with urllib.parse.parse_qsl",
        "Webob.Model.MultiDict / Proofs.C08_multidict (C08) for the MultiDict operations GetDict inherits",
    ]


# ===================================================================== replay
def replay(ctx, path):
    data = json.load(open(path))
    case = data["case"]
    kind = case.get("kind") if isinstance(case, dict) else None
    r = None
    if kind == "query":
        r = oracle_query(case["qs"])
    elif kind == "history":
        r = oracle_history(case["qs0"], [fix_op(o) for o in case["ops"]])
    elif kind == "writeback":
        r = oracle_history("", [("extend", [tuple(p) for p in case["items"]], "list")])
    elif kind == "post":
        r = oracle_post(fix_fields(case["fields"]), case["mode"], case["form"])
    elif kind == "live":
        r = oracle_live(case)
    elif kind == "held":
        r = run_held_history(case["qs0"], [fix_hop(o) for o in case["ops"]], check=True)
    elif kind == "args":
        r = oracle_args(fix_fields(case["fields"]), case["mode"], case["form"])
    elif kind == "order":
        r = oracle_order(case["items"], case["perms"])
    elif kind == "post-cfg":
        r = oracle_post_cfg(fix_fields(case["fields"]), case["mode"], case["cfg"])
    elif kind == "shape":
        r = oracle_shapes(fix_fields(case["fields"]), case["shape"])
    elif kind == "decode-cfg":
        r = oracle_decode_cfg(case["cs"], [tuple(p) for p in case["pairs"]], case["errors"], case["late"], case["where"])
    elif kind == "outside-get":
        r = oracle_outside_get(case["qs0"], [tuple(x) for x in case["refusals"]], case["good"])
    elif kind == "outside-misc":
        r = oracle_outside_misc(case)
    elif kind == "decode-raw":
        r = oracle_decode_raw(case["qs"], case["cs"])
    elif kind == "decode-query":
        r = oracle_decode_query([tuple(p) for p in case["pairs"]], case["cs"], case["raw"], True)
    elif kind == "decode-multipart":
        r = oracle_decode_multipart(fix_fields(case["fields"]), case["cs"], case["ctform"])
    else:
        print("replay: nothing executable in this file (broken obligation): %s" % data.get("what"))
        return 1
    if r:
        print("VIOLATION property=C09 replay=%s" % path)
        print("  (%s) %s" % (r[0], r[1][:800]))
        return 1
    print("replay passes on the current tree")
    return 0
