"""C18 — error responses (webob.exc) escape all caller/request text and follow Accept.

Ties to the source
  * gen(ctx): the class table of webob.exc (every WSGIHTTPException subclass in module order: code, title,
    normalised explanation, body template text, custom-template flag, empty_body, status_map membership
    flags), the live status_map, the html/plain outer templates and the offer list of generate_response
    are read from the LIVE module and written to coq/Gen/C18_exctable.v.  The theorems of Props/C18.v that
    quantify over "every class" are sweeps over exactly this table, re-checked by the kernel on every run.
  * correspondence of Model/C18_ExcBody.v with the real code: html_escape, strip_tags,
    string.Template.safe_substitute, json.dumps (str), the Accept choice, and the whole
    req.get_response(exc) path (status, Content-Type, body bytes) for every class.
  * oracle: the property statement evaluated on req.get_response(exc): status line, format chosen from an
    independently computed negotiation, html.parser event stream equal to that of a neutral (marker)
    instantiation with the raw caller text substituted back, JSON parsed and compared to the expected
    three-key dict, plain text free of tags, HEAD / 204 / 205 / 304 empty, explicit body verbatim,
    status_map <-> classes.
"""
import ast
import html
import inspect
import itertools
import json
import os
import re
import string
from html.parser import HTMLParser

from harness import fw
from harness.fw import Err, cstr, clist, cpair, copt, cbool, cN

IMPORTS = ["Webob.Lib.PyStr", "Webob.Model.C18_ExcBody", "Webob.Gen.C18_exctable"]
GEN = os.path.join(fw.COQ, "Gen", "C18_exctable.v")
EMPTY_CODES = (204, 205, 304)


# =========================================================================== gen: class table from the live module
def class_rows():
    from webob import exc
    base = exc.WSGIHTTPException.body_template_obj
    fam = (exc.HTTPOk, exc.HTTPRedirection, exc.HTTPClientError, exc.HTTPServerError)
    excl = (exc.HTTPRedirection, exc.HTTPClientError, exc.HTTPServerError)
    rows, problems = [], []
    for name, v in vars(exc).items():
        if not (isinstance(v, type) and issubclass(v, exc.HTTPException)):
            continue
        if not issubclass(v, exc.WSGIHTTPException):
            if getattr(v, "code", None):
                problems.append("class %s has a code but is not a WSGIHTTPException" % name)
            continue
        if v.html_template_obj is not exc.WSGIHTTPException.html_template_obj or \
                v.plain_template_obj is not exc.WSGIHTTPException.plain_template_obj:
            problems.append("class %s overrides the outer html/plain template (not modelled)" % name)
        code = getattr(v, "code", None) or 0
        if not isinstance(code, int) or not isinstance(v.title, str) or not isinstance(v.explanation, str):
            problems.append("class %s: code/title/explanation of unexpected type" % name)
            continue
        rows.append({"name": name, "code": code, "title": v.title, "expl": v.explanation,
                     "tmpl": v.body_template_obj.template, "custom": v.body_template_obj is not base,
                     "empty": bool(v.empty_body), "family": issubclass(v, fam), "excluded": v in excl,
                     "public": not name.startswith("_")})
    return rows, problems


def live_offers():
    """the literal offer list inside WSGIHTTPException.generate_response"""
    from webob import exc
    src = inspect.getsource(exc.WSGIHTTPException.generate_response)
    tree = ast.parse("class _X:\n" + src if src.startswith("    ") else src)
    for node in ast.walk(tree):
        if isinstance(node, ast.Call) and getattr(node.func, "attr", "") == "acceptable_offers":
            for kw in node.keywords:
                if kw.arg == "offers":
                    return ast.literal_eval(kw.value)
            if node.args:
                return ast.literal_eval(node.args[0])
    return None


def gen(ctx):
    from webob import exc
    rows, problems = class_rows()
    offers = None
    try:
        offers = live_offers()
    except Exception as e:  # noqa
        problems.append("offer list of generate_response not readable: %r" % e)
    if offers != ["text/html", "application/json"]:
        problems.append("generate_response offers are %r, the model assumes ['text/html', 'application/json']" % (offers,))
    out = ["(* GENERATED from the live webob.exc module of the tree under check by harness/props/c18.py - do not edit *)",
           "From Coq Require Import NArith List String.",
           "Require Import Webob.Lib.Val Webob.Model.C18_ExcBody.",
           "Import ListNotations.", "Local Open Scope N_scope.", "Local Open Scope string_scope.",
           "Definition classes : list excls := ["]
    lines = []
    for r in rows:
        lines.append("  mkCls %s %d %s %s\n    %s %s %s %s %s %s" % (
            cstr(r["name"]), r["code"], cstr(r["title"]), cstr(r["expl"]), cstr(r["tmpl"]),
            cbool(r["custom"]), cbool(r["empty"]), cbool(r["family"]), cbool(r["excluded"]), cbool(r["public"])))
    out.append(";\n".join(lines))
    out.append("].")
    sm = [(k, v.__name__) for k, v in exc.status_map.items()]
    out.append("Definition status_map_live : list (N * str) := [\n  %s]." %
               ";\n  ".join("(%d, %s)" % (k, cstr(n)) for k, n in sm))
    out.append("Definition cfg : tcfg := mkCfg\n  %s\n  %s." % (
        cstr(exc.WSGIHTTPException.html_template_obj.template), cstr(exc.WSGIHTTPException.plain_template_obj.template)))
    fw.write_if_changed(GEN, "\n".join(out) + "\n")
    ctx.extra["class_table"] = {"classes": len(rows), "status_map": len(sm),
                                "custom_templates": sorted(r["name"] for r in rows if r["custom"]),
                                "empty_body": sorted(r["name"] for r in rows if r["empty"])}
    return problems


# =========================================================================== running the implementation
def accept_model_input(value):
    """What the real Accept parser makes of HTTP_ACCEPT (parsing itself is C03's subject)."""
    from webob.acceptparse import create_accept_header, AcceptValidHeader
    h = create_accept_header(header_value=value)
    if not isinstance(h, AcceptValidHeader):
        return None
    return [(mr.partition(";")[0].lower(), int(round(q * 1000)), bool(params)) for mr, q, params, _ in h.parsed]


def c_accept(a):
    if a is None:
        return "AInvalid"
    return "(AValid %s)" % clist("(mkRange %s %s %s)" % (cstr(ts), cN(q), cbool(p)) for ts, q, p in a)


class HtmlObj:
    """a value that declares itself safe HTML (html_escape honours __html__ by design)"""

    def __init__(self, s):
        self.s = s

    def __html__(self):
        return self.s

    def __str__(self):
        return self.s


class StrObj:
    """an arbitrary object whose str() is the text"""

    def __init__(self, s):
        self.s = s

    def __str__(self):
        return self.s


def pyval(x):
    """JSON-able encoding of values outside the model's domain (str / None)"""
    if isinstance(x, dict):
        if "$int" in x:
            return x["$int"]
        if "$bytes" in x:
            return bytes.fromhex(x["$bytes"])
        if "$html" in x:
            return HtmlObj(x["$html"])
        if "$obj" in x:
            return StrObj(x["$obj"])
        if "$tuple" in x:
            return tuple(x["$tuple"])
        if "$none" in x:
            return None
    return x


def is_text(x):
    return x is None or isinstance(x, str)


def text_of(x):
    """what str() / the escapers make of a value that is not a str (for markers and messages)"""
    v = pyval(x)
    if v is None:
        return ""
    if isinstance(v, bytes):
        return v.decode("utf-8", "replace")
    return str(v)


def after_of(case, what, default):
    for a in case.get("after") or []:
        if a[0] == what:
            default = a[1]
    return default


def effective(case):
    """what the case text says the instance looks like when it is called (class data, sub-class overrides,
    constructor arguments, assignments after construction) - independent of the implementation"""
    from webob import exc
    base = getattr(exc, case["cls"])
    sub = case.get("sub") or {}
    ef = {"code": sub.get("code", base.code), "title": sub.get("title", base.title),
          "explanation": after_of(case, "explanation", sub.get("explanation", base.explanation)),
          "empty": bool(after_of(case, "empty_body", sub.get("empty_body", base.empty_body))),
          "detail": after_of(case, "detail", case.get("detail")),
          "comment": after_of(case, "comment", case.get("comment"))}
    t = after_of(case, "body_template", None)
    if t is None:
        t = case.get("tmpl")
    if t is None:
        t = sub.get("template")
    if t is None:
        ef["template"], ef["custom"] = base.body_template_obj.template, base.body_template_obj.template != _default_template()
    else:
        ef["template"], ef["custom"] = t, True
    return ef


def exc_class(case):
    from webob import exc
    base = getattr(exc, case["cls"])
    if case.get("via_status_map") and exc.status_map.get(base.code) is base:
        base = exc.status_map[base.code]
    sub = case.get("sub")
    if sub:
        attrs = {k: sub[k] for k in ("code", "title", "explanation", "empty_body", "default_content_type", "default_charset")
                 if k in sub}
        if "template" in sub:
            attrs["body_template_obj"] = string.Template(sub["template"])
        return type("Sub" + base.__name__, (base,), attrs)
    return base


def shape_headers(hs, how):
    from webob.multidict import MultiDict
    from webob.headers import ResponseHeaders
    pairs = [tuple(h) for h in hs or []]
    if how == "dict":
        return dict(pairs)
    if how == "tuple":
        return tuple(pairs)
    if how == "multidict":
        return MultiDict(pairs)
    if how == "respheaders":
        return ResponseHeaders(pairs)
    if how == "iter":
        return iter(pairs)
    if how == "empty-list":
        return pairs
    return pairs or None


def alt_json_formatter(body, status, title, environ):
    return {"m": body, "s": status, "t": title, "p": environ.get("PATH_INFO")}


def build_exc(case):
    from webob import exc
    cls = exc_class(case)
    move = issubclass(cls, exc._HTTPMove)
    kw = {}
    headers = shape_headers(case.get("headers"), case.get("headers_shape"))
    detail, comment = pyval(case.get("detail")), pyval(case.get("comment"))
    if case.get("positional"):
        args = [detail, headers, comment, case.get("tmpl")]
        if move and case.get("location") is not None:
            args.append(case["location"])
    else:
        args = []
        kw.update(detail=detail, headers=headers, comment=comment)
        if case.get("tmpl") is not None:
            kw["body_template"] = case["tmpl"]
        if move and case.get("location") is not None:
            kw["location"] = case["location"]
    if move and case.get("location") is None and case.get("add_slash"):
        kw["add_slash"] = True
    raw = None if case.get("body") is None else bytes.fromhex(case["body"])
    how = case.get("body_how") or "after"
    if not move:
        kw.update(case.get("kw") or {})
        if case.get("json_formatter"):
            kw["json_formatter"] = alt_json_formatter
        if raw is not None and how != "after":
            if how == "kw_body":
                kw["body"] = raw
            elif how == "kw_text":
                try:
                    kw["text"] = raw.decode("utf-8")
                except UnicodeDecodeError:
                    kw["body"] = raw
            elif how == "app_iter":
                kw["app_iter"] = [raw]
            elif how == "app_iter2":
                kw["app_iter"] = [raw[:len(raw) // 2], raw[len(raw) // 2:]]
            elif how == "app_iter_gen":
                kw["app_iter"] = (x for x in [raw[:1], raw[1:]])
    try:
        e = cls(*args, **kw)
    except TypeError:
        if "text" not in kw:
            raise
        kw["body"] = kw.pop("text").encode("utf-8")     # no charset on this class: text= is refused, body= is not
        e = cls(*args, **kw)
    if raw is not None and (move or how == "after"):
        e.body = raw
    for a in case.get("after") or []:
        if a[0] == "header":
            e.headers[a[1]] = a[2]
        elif a[0] == "body_template":
            e.body_template_obj = string.Template(a[1])
        elif a[0] == "json_formatter":
            e.json_formatter = alt_json_formatter
        else:
            setattr(e, a[0], pyval(a[1]))
    return cls, e


def build_req(case):
    from webob import Request
    req = Request.blank(case.get("url") or "/p/q?x=1")
    req.environ["REQUEST_METHOD"] = case.get("method") or "GET"
    for k, v in (case.get("environ") or {}).items():
        req.environ[k] = pyval(v)
    if case.get("accept") is not None:
        if case.get("accept_via_property"):
            try:
                req.accept = case["accept"]
            except Exception:  # noqa
                pass
        req.environ["HTTP_ACCEPT"] = case["accept"]
    return req


def answer(e, req, via=None):
    """the ways a WSGI stack reaches the exception"""
    from webob import exc, Response
    if via == "generate_response":
        return req.get_response(e.generate_response)
    if via == "wsgi_response":
        return req.get_response(e.wsgi_response)
    if via == "wrapper":
        return req.get_response(exc.HTTPException("wrapped", e))
    if via == "raise":
        try:
            raise e
        except exc.HTTPException as caught:
            return req.get_response(caught)
    if via == "middleware":
        def app(environ, start_response):
            raise e
        status, headers, app_iter, exc_info = req.call_application(exc.HTTPExceptionMiddleware(app), catch_exc_info=True)
        return Response(status=status, headerlist=list(headers), app_iter=app_iter)
    if via == "call_application":
        status, headers, app_iter = req.call_application(e)
        return Response(status=status, headerlist=list(headers), app_iter=app_iter)
    return req.get_response(e)


def resolved_location(cls, resp):
    """a redirect carries the location resolved for the request only while serving it (and restores the
    application's value afterwards): read it off the emitted Location header; None for other classes"""
    from webob import exc
    if issubclass(cls, exc._HTTPMove):
        return resp.headers.get("Location") or ""
    return None


def serving_headers(cls, e, resp):
    """the instance's header list as _make_body saw it while `resp` was produced"""
    hs = [(k, v) for k, v in e.headers.items()]
    loc = resolved_location(cls, resp)
    if loc is not None:
        hs = [h for h in hs if h[0].lower() != "location"] + [("Location", loc)]
    return hs


class Serving:
    """put the resolved location back on the instance while reference texts are read from it"""

    def __init__(self, cls, e, resp):
        self.e, self.loc = e, resolved_location(cls, resp)

    def __enter__(self):
        if self.loc is not None:
            self.saved = self.e.location
            self.e.location = self.loc
        return self.e

    def __exit__(self, *a):
        if self.loc is not None:
            self.e.location = self.saved


def run_case(case):
    """-> (cls, exc object after the call, request, response)"""
    cls, e = build_exc(case)
    req = build_req(case)
    resp = answer(e, req, case.get("iface"))
    return cls, e, req, resp


def observe(case):
    try:
        cls, e, req, resp = run_case(case)
        return [resp.status, resp.content_type, resp.body]
    except Exception as ex:  # noqa
        return Err(type(ex).__name__)


def in_model_domain(case):
    """the Gallina model speaks about str / None texts, str environ values, latin-1 header names, a status line
    made of the class's code and title, the stock json_formatter and bodies given as bytes"""
    vals = [case.get("detail"), case.get("comment")] + [a[1] for a in case.get("after") or [] if a[0] in ("detail", "comment")]
    if not all(is_text(v) for v in vals):
        return False
    if not all(isinstance(v, str) for v in (case.get("environ") or {}).values()):
        return False
    for st in case.get("history") or []:
        if not all(isinstance(v, str) for v in (st.get("environ") or {}).values()):
            return False
    names = [h[0] for h in case.get("headers") or []] + [a[1] for a in case.get("after") or [] if a[0] == "header"]
    if any(ord(ch) > 255 for n in names for ch in n):
        return False
    if case.get("json_formatter") or any(a[0] in ("status", "json_formatter") for a in case.get("after") or []):
        return False
    if case.get("body") is not None and (case.get("body_how") or "after") == "app_iter_gen":
        return False
    return True


def class_literal(case, e):
    """None: the class is looked up in the regenerated table; else the instance's own class data (sub-classes,
    attributes assigned after construction)"""
    from webob import exc
    if not case.get("sub") and not any(a[0] in ("explanation", "body_template", "empty_body") for a in case.get("after") or []):
        return None
    return "(mkCls %s %d %s %s %s %s %s true false true)" % (
        cstr(case["cls"]), e.code, cstr(e.title), cstr(e.explanation), cstr(e.body_template_obj.template),
        cbool(exc.WSGIHTTPException.body_template_obj is not e.body_template_obj), cbool(bool(e.empty_body)))


def instance_literals(case):
    """(class literal, template option, detail, comment, explicit body) of the instance as constructed"""
    cls, e = build_exc(case)
    ocl = class_literal(case, e)
    tmpl = None if ocl is not None or case.get("tmpl") is None else cstr(case["tmpl"])
    explicit = None
    if case.get("body") is not None and isinstance(e.app_iter, list):
        explicit = cstr(b"".join(e.app_iter))       # the body the application supplied, as the instance holds it
    return copt(ocl), copt(tmpl), cstr(e.detail or ""), cstr(e.comment or ""), copt(explicit)


def model_literal(case):
    """Coq input of the `call` correspondence: the state the body is made from, read off the real objects."""
    ocl, tmpl, detail, comment, explicit = instance_literals(case)
    cls, e, req, resp = run_case(case)
    headers = serving_headers(cls, e, resp)
    environ = [(k, v) for k, v in req.environ.items() if isinstance(v, str)]
    acc = accept_model_input(req.environ.get("HTTP_ACCEPT", ""))
    inp = "(mkInp %s %s %s %s)" % (detail, comment, clist(cpair(cstr(k), cstr(v)) for k, v in headers),
                                   clist(cpair(cstr(k), cstr(v)) for k, v in environ))
    return "(%s, %s, %s, %s, %s, %s, %s)" % (cstr(case["cls"]), ocl, tmpl, inp, c_accept(acc),
                                             cbool(req.environ["REQUEST_METHOD"] == "HEAD"), explicit)


PICK_CLS = ("match ocl with Some c => Some c | None => option_map (fun c => with_template c t) (find_class classes nm) end")
CALL_FN = ("(fun c => match c with (nm, ocl, t, i, a, hd, ex) => match %s with "
           "Some cl => resp_val (call cfg cl i a hd ex) | None => VNone end end)" % PICK_CLS)
CALL_TY = "(str * option excls * option str * inp * accept_in * bool * option str)"


# =========================================================================== generators
ALPHA = ["<", ">", "&", '"', "'", "-", "!", "$", "{", "}", "\xe9", "\r", "\n", " ", "a", "b", "r", "B", "/", "_",
         "1", ";", "#", "\\", "\t", "=", "\u20ac", "\U0001f600", "\x80", "\x00", "\x7f", "\u017f", "\u212a"]
ATTACKS = ["<script>alert(1)</script>", "-->", "<a<br>b>", '"><b>', "' onload='x", "${detail}", "--!>", "<!--", "--", "-", "$$",
           "<i <BR/> >x", "<<br>>",
           "${body}", "$body", "${status}", "<br/>", "<BR >", "<bR\n/>x", "]]>", "&amp;", "&#60;", "&lt;", "\r\n",
           "<!-->", "<!--->", "-->-->", "<a href=\"x\">", "</body>", "</html>", "<", ">", "<<>>", "><", "\xe9\xff",
           "\u20ac\U0001f600", "${HTTP_ACCEPT}", "$", "${", "<br", "<!-- x -->y", "a<b>c</b>d", "&", "&#x27;", "'\"",
           "<!-- -->", "--><script>", "\x85\x9f", "x\x00y", "<brx>", "<b\n>", "<\r>"]
CORE = ["<", ">", "&", '"', "'", "-", "!", "$", "{", "}", "\xe9", "\r", "\n"]


def rand_text(rng, maxlen=8):
    r = rng.random()
    if r < 0.12:
        return ""
    if r < 0.45:
        return rng.choice(ATTACKS)
    if r < 0.6:
        return rng.choice(ATTACKS) + rng.choice(ATTACKS)
    return "".join(rng.choice(ALPHA) for _ in range(rng.randrange(1, maxlen + 1)))


def is_clean(s):
    """text whose html.unescape(html-escaped form) is the text itself (the C1 range, most C0 controls and the
    non-characters are re-mapped or dropped by HTML5 character-reference decoding)"""
    for ch in s:
        o = ord(ch)
        if 0x80 <= o <= 0x9f or o in (0x0b, 0x7f) or o < 9 or 0x0e <= o <= 0x1f or 0xd800 <= o <= 0xdfff \
                or 0xfdd0 <= o <= 0xfdef or (o & 0xfffe) == 0xfffe or o == 0x0d:
            return False
    return True


def class_names():
    from webob import exc
    return [n for n, v in vars(exc).items() if isinstance(v, type) and issubclass(v, exc.WSGIHTTPException)]


ENV_KEYS = ["HTTP_X_FOO", "CONTENT_TYPE", "QUERY_STRING", "HTTP_REFERER", "detail", "html_comment", "X_lower"]
HDR_KEYS = ["X_Hdr", "Allow", "x_foo", "HTTP_X_FOO", "Detail", "Location", "Server", "X-Dash", "\xc9t\xe9", "Content-Type",
            "content-type"]
CT_VALUES = ["image/png", "text/plain; charset=latin-1", "text/html; charset=utf-16", "application/json", "text/plain",
             "text/html; charset=UTF-8", "application/octet-stream", "text/xml;charset=ascii"]
TMPL_NAMES = ["explanation", "detail", "comment", "html_comment", "REQUEST_METHOD", "HTTP_ACCEPT", "HTTP_X_FOO",
              "CONTENT_TYPE", "QUERY_STRING", "PATH_INFO", "HTTP_REFERER", "MISSING", "x_hdr", "allow", "x_foo",
              "http_x_foo", "location", "server", "status", "body", "title", "X_lower", "x_lower", "Detail", "_", "a1"]
TMPL_JUNK = ["$", "$$", "${", "${}", "${1a}", "$1", "$\xe9", "${a\u017f}", "$\u212a", "${a b}", "${a", "$a}", "$$$a", "${a}}",
             "$_", "${_}", "$A9_", "$a.b", "${a-b}", "$$ {a}", "$ {a}"]


def rand_template(rng):
    """an arbitrary template text (any placement of placeholders) - correspondence only"""
    parts = []
    for _ in range(rng.randrange(1, 7)):
        r = rng.random()
        if r < 0.3:
            parts.append("${%s}" % rng.choice(TMPL_NAMES))
        elif r < 0.45:
            parts.append("$%s" % rng.choice(TMPL_NAMES))
        elif r < 0.6:
            parts.append(rng.choice(TMPL_JUNK))
        elif r < 0.8:
            parts.append(rng.choice(["<p>", "</p>", "<br />", " ", "\n", "<!-- ", " -->", "<a href=\"", "\">", "x", "\xe9",
                                     "\u20ac", "<b title='", "'>"]))
        else:
            parts.append(rand_text(rng, 4))
    return "".join(parts)


def slot(rng):
    n = rng.choice(TMPL_NAMES[:17])
    return "${%s}" % n if rng.random() < 0.7 else "$%s " % n


def rand_wf_template(rng):
    """a custom template whose placeholders stand in character data, quoted attribute values or a comment"""
    parts = []
    for _ in range(rng.randrange(1, 6)):
        k = rng.randrange(7)
        if k == 0:
            parts.append("text " + slot(rng) + " more\n")
        elif k == 1:
            parts.append("<p>" + slot(rng) + "</p>")
        elif k == 2:
            parts.append('<a href="' + slot(rng) + '">' + slot(rng) + "</a>")
        elif k == 3:
            parts.append("<i title='" + slot(rng) + "' class=\"c\">x</i>")
        elif k == 4:
            parts.append("<!-- " + slot(rng) + " -->")
        elif k == 5:
            parts.append("${html_comment}")
        else:
            parts.append(rng.choice(["$$", "<br />", "${MISSING}", "$ ", "<hr/>", "\xe9"]))
    return "".join(parts)


# ---- Accept headers rendered from a structure (so the oracle has an independent reading)
MEDIA = [("text", "html"), ("application", "json"), ("text", "*"), ("application", "*"), ("*", "*"), ("text", "plain"),
         ("image", "png"), ("application", "xml"), ("TEXT", "HTML"), ("Application", "JSON"), ("text", "HTML"),
         ("application", "xhtml+xml"), ("Text", "*"), ("*", "html"), ("*", "json")]
QS = [None, "1", "1.0", "1.000", "0", "0.0", "0.000", "0.5", "0.50", "0.500", "0.9", "0.1", "0.001", "0.999", "0.3", "0.7"]


def rand_accept_struct(rng):
    n = rng.choice([0, 1, 1, 2, 2, 3, 4, 5])
    out = []
    for _ in range(n):
        t, s = rng.choice(MEDIA)
        params = []
        if rng.random() < 0.2:
            params.append((rng.choice(["level", "charset", "Q2"]), rng.choice(["1", "utf-8", '"a b"'])))
        out.append((t, s, params, rng.choice(QS), rng.random() < 0.15))
    return out


def render_accept(rng, st):
    els = []
    for t, s, params, q, ext in st:
        e = "%s/%s" % (t, s)
        for k, v in params:
            e += rng.choice([";", "; ", " ;", " ; "]) + "%s=%s" % (k, v)
        if q is not None:
            e += rng.choice([";", "; ", " ;"]) + rng.choice(["q", "Q"]) + "=" + q
            if ext:
                e += ";ext=1"
        els.append(e)
    sep = rng.choice([",", ", ", " , ", ",  ", ",\t"])
    v = sep.join(els)
    if els and rng.random() < 0.1:
        # RFC 7230 #rule: empty elements are allowed, but a single leading comma directly followed by an
        # element is not in the grammar (C03's subject); ", ," and ",," are
        v = rng.choice([", ,", ",,", ""]) + v + rng.choice([",", ", ,"])
    return v


def qnum(q):
    return 1000 if q is None else int(round(float(q) * 1000))


def ref_quality(st, ty, sub):
    """RFC 7231 5.3.2 for an offer without parameters: the most specific matching range governs, the first
    of equally specific ones."""
    best = None
    for t, s, params, q, _ in st:
        t, s = t.lower(), s.lower()
        if t == ty and s == sub:
            if params:
                continue
            sp = 3
        elif t == ty and s == "*":
            sp = 2
        elif t == "*" and s == "*":
            sp = 1
        else:
            continue
        if best is None or sp > best[0]:
            best = (sp, qnum(q))
    return best[1] if best else 0


def ref_format(st):
    qh, qj = ref_quality(st, "text", "html"), ref_quality(st, "application", "json")
    if qh > 0 and qh >= qj:
        return "text/html"
    if qj > 0 and qj > qh:
        return "application/json"
    return "text/plain"


INVALID_ACCEPTS = ["garbage;;;", "text/html;q=2", "<x>", "text/html, <script>", "text/html;q=0.1234", "/", "text/",
                   "text/html;;q=1", "a b", "\xe9/\xe9", "application/json;q=0.5,,<"]
FIXED_ACCEPTS = [([("text", "html", [], None, False)], "text/html"),
                 ([("application", "json", [], None, False)], "application/json"),
                 ([("*", "*", [], None, False)], "*/*"),
                 ([("text", "html", [], "0.5", False), ("application", "json", [], "0.5", False)],
                  "text/html;q=0.5, application/json;q=0.5"),
                 ([("application", "json", [], "0.5", False), ("text", "html", [], "0.5", False)],
                  "application/json;q=0.5, text/html;q=0.5"),
                 ([("text", "html", [], "0.5", False), ("application", "json", [], "0.6", False)],
                  "text/html;q=0.5, application/json;q=0.6"),
                 ([("text", "html", [], "0", False), ("*", "*", [], None, False)], "text/html;q=0, */*"),
                 ([("text", "plain", [], None, False)], "text/plain"),
                 ([("text", "html", [("level", "1")], None, False)], "text/html;level=1"),
                 ([("text", "*", [], "0.2", False), ("application", "json", [], "0.2", False)], "text/*;q=0.2,application/json;q=0.2"),
                 ([("*", "*", [], "0.1", False), ("text", "html", [], "0", False), ("application", "json", [], "0", False)],
                  "*/*;q=0.1, text/html;q=0, application/json;q=0"),
                 ([], "")]


def rand_accept(rng):
    """-> (header value or None, expected content type)"""
    r = rng.random()
    if r < 0.08:
        return None, "text/plain"           # no Accept header: webob reads it as "" (nothing acceptable)
    if r < 0.16:
        return rng.choice(INVALID_ACCEPTS), "text/html"   # AcceptInvalidHeader: every offer is acceptable
    if r < 0.4:
        st, v = rng.choice(FIXED_ACCEPTS)
        return v, ref_format(st)
    st = rand_accept_struct(rng)
    return render_accept(rng, st), ref_format(st)


def rand_case(rng, names, want=None, wf_only=False, knobs=True, outside=False):
    from webob import exc
    name = rng.choice(names)
    cls = getattr(exc, name)
    case = {"cls": name, "detail": rng.choice([None, rand_text(rng), rand_text(rng)]),
            "comment": rng.choice([None, None, rand_text(rng), rand_text(rng)]), "method": "GET"}
    r = rng.random()
    if r < 0.12:
        case["method"] = "HEAD"
    elif r < 0.2:
        case["method"] = rng.choice(["POST", "FOO<x>", "M\"'&", "<!--", "X-->"])
    if rng.random() < 0.45:
        hs = []
        for _ in range(rng.randrange(1, 4)):
            hs.append([rng.choice(HDR_KEYS), rand_text(rng).replace("\r", "").replace("\n", "") if rng.random() < 0.5 else rand_text(rng)])
            if hs[-1][0].lower() == "content-type":
                hs[-1][1] = rng.choice(CT_VALUES)
        if issubclass(cls, exc._HTTPMove):
            hs = [h for h in hs if h[0] != "Location"]
        case["headers"] = hs
    if rng.random() < 0.5:
        case["environ"] = {k: rand_text(rng) for k in rng.sample(ENV_KEYS, rng.randrange(1, 4))}
    if issubclass(cls, exc._HTTPMove) and rng.random() < 0.85:
        loc = rng.choice(["/x", "http://example.com/y", "z", ""]) + rand_text(rng).replace("\r", "").replace("\n", "")
        case["location"] = loc
    elif issubclass(cls, exc._HTTPMove) and rng.random() < 0.5:
        case["add_slash"] = True
        if "QUERY_STRING" in (case.get("environ") or {}):
            # a request line cannot contain CR/LF; add_slash copies the query string into the Location header
            case["environ"]["QUERY_STRING"] = case["environ"]["QUERY_STRING"].replace("\r", "").replace("\n", "")
    if rng.random() < 0.35:
        case["tmpl"] = rand_wf_template(rng) if (wf_only or rng.random() < 0.5) else rand_template(rng)
    acc, fmt = rand_accept(rng)
    if want is not None:
        acc = {"text/html": rng.choice(["text/html", "*/*", "text/html, application/json;q=0.9", "garbage;;;"]),
               "application/json": rng.choice(["application/json", "text/html;q=0.3, application/json;q=0.4"]),
               "text/plain": rng.choice(["text/plain", "", None, "image/png"])}[want]
        fmt = want
    case["accept"] = acc
    case["fmt"] = fmt
    if not cls.empty_body and rng.random() < 0.07:
        case["body"] = "" if rng.random() < 0.25 else (rand_text(rng).encode("utf-8", "surrogatepass").hex() or "00")
    if knobs:
        decorate(rng, case, cls, outside)
    return case


SUB_EXPLANATIONS = ["plain words", "a <b>bold</b> claim & more", "caf\xe9 \u20ac \"quoted\" 'single'", "--> <!-- x", "", "line\nbreak <br/>"]
SUB_TITLES = ["Custom Reason", "Caf\xe9", "I'm a teapot", "Nothing Here & There"]
OUTSIDE_VALUES = [{"$int": 5}, {"$int": 0}, {"$bytes": "3c623ec3a9"}, {"$bytes": "3c623eff"}, {"$obj": "<i>obj</i> & \"q\""},
                  {"$obj": "-->"}, {"$html": "<b>declared safe</b>"}, "a\ud800<", "\udcff-->", {"$tuple": ["<", 1]}, {"$none": True}]


def decorate(rng, case, cls, outside=False):
    """configurations, argument shapes and (outside=True) values outside the model's domain"""
    from webob import exc
    move = issubclass(cls, exc._HTTPMove)
    r = rng.random
    if r() < 0.2:                      # a sub-class overriding what sub-classes are meant to override
        sub = {}
        if r() < 0.6:
            sub["explanation"] = rng.choice(SUB_EXPLANATIONS)
        if r() < 0.4 and not cls.empty_body:
            sub["code"], sub["title"] = rng.choice([499, 418, 299, cls.code]), rng.choice(SUB_TITLES)
        if r() < 0.25:
            sub["template"] = rand_wf_template(rng)
        if r() < 0.1:
            sub["empty_body"] = not cls.empty_body if cls.code not in EMPTY_CODES else True
        if r() < 0.2:
            sub["default_content_type"] = rng.choice([None, "application/xml", "text/plain"])
        if r() < 0.2:
            sub["default_charset"] = rng.choice([None, "latin-1", "utf-16"])
        if sub:
            case["sub"] = sub
    if r() < 0.2:                      # assignments after construction
        after = []
        for _ in range(rng.randrange(1, 3)):
            k = rng.choice(["detail", "comment", "explanation", "body_template", "header", "content_type", "charset", "empty_body",
                            "status", "json_formatter", "location"])
            if k in ("detail", "comment"):
                after.append([k, rng.choice([None, rand_text(rng)])])
            elif k == "explanation":
                after.append([k, rng.choice(SUB_EXPLANATIONS)])
            elif k == "body_template":
                after.append([k, rng.choice([rand_wf_template(rng), _default_template()])])
            elif k == "header":
                after.append([k, rng.choice(["X_Hdr", "x_hdr", "X_HDR", "Allow"]), rand_text(rng).replace("\r", "").replace("\n", "")])
            elif k == "content_type" and not cls.empty_body:
                after.append([k, rng.choice(["application/xml", "text/plain", "image/png"])])
            elif k == "charset" and not cls.empty_body and not case.get("sub", {}).get("default_content_type", 1) is None:
                pass
            elif k == "empty_body" and r() < 0.3:
                after.append([k, True])
            elif k == "status" and not cls.empty_body:
                after.append([k, rng.choice(["%d Nothing Here" % (cls.code or 500), "%d N&M" % (cls.code or 500), {"$int": 410}])])
            elif k == "json_formatter":
                after.append([k, "alt"])
            elif k == "location" and move and case.get("location") is not None:
                after.append([k, rng.choice(["/moved", "http://example.net/n?<q>", "rel"])])
        if after:
            case["after"] = after
    if r() < 0.25:
        case["positional"] = True
    if case.get("headers") and r() < 0.5:
        case["headers_shape"] = rng.choice(["dict", "tuple", "multidict", "respheaders", "iter"])
    elif not case.get("headers") and r() < 0.1:
        case["headers_shape"] = "empty-list"
    if case.get("headers") and r() < 0.3:      # the same name again in another case: the last one fills the slot
        k, v = rng.choice(case["headers"])
        if k.lower() not in ("content-type", "location"):
            case["headers"].append([k.swapcase(), rand_text(rng).replace("\r", "").replace("\n", "")])
    if not move:
        if r() < 0.15:
            case["kw"] = rng.choice([{"content_type": "application/xml"}, {"charset": "latin-1"}, {"conditional_response": True},
                                     {"content_type": "text/plain", "charset": "utf-16"}])
        if r() < 0.05:
            case["json_formatter"] = True
    if case.get("body") is not None:
        case["body_how"] = rng.choice(["after", "kw_body", "kw_text", "app_iter", "app_iter2", "app_iter_gen"])
        if case["body_how"] == "kw_text" and (case.get("kw") or case.get("sub")):
            case["body_how"] = "kw_body"       # text= is encoded in the instance's own charset
    if case.get("tmpl") is None and r() < 0.05:
        case["tmpl"] = _default_template()     # equal to the stock template, but not the stock template object
    if r() < 0.3:
        case["iface"] = rng.choice(["wsgi_response", "wrapper", "raise", "middleware", "call_application"])
    if r() < 0.3:
        case["url"] = rng.choice(URLS)
    if r() < 0.1:
        case["via_status_map"] = True
    if r() < 0.1:
        case["accept_via_property"] = True
    if outside and r() < 0.5:
        for _ in range(rng.randrange(1, 3)):
            slot_ = rng.choice(["detail", "comment", "environ", "hdrname", "after"])
            if slot_ in ("detail", "comment"):
                case[slot_] = rng.choice(OUTSIDE_VALUES)
            elif slot_ == "environ":
                case.setdefault("environ", {})[rng.choice(["HTTP_X_FOO", "X_lower", "CONTENT_TYPE"])] = rng.choice(OUTSIDE_VALUES[:7])
            elif slot_ == "hdrname":
                case.setdefault("headers", []).append([rng.choice(["\u212a", "\u212aey", "\u0130d", "X_\u017ftr"]), rand_text(rng, 4).replace("\r", "").replace("\n", "")])
                if not case.get("tmpl") and not case.get("sub", {}).get("template"):
                    case["tmpl"] = "<p>$k ${key} ${x_str} ${i\u0307d}</p>"
                case.pop("headers_shape", None)
            else:
                case.setdefault("after", []).append([rng.choice(["detail", "comment"]), rng.choice(OUTSIDE_VALUES)])
        if move and r() < 0.1:
            case["location"] = rng.choice(["/x\r\nSet-Cookie: a=b", "\n", "http://e/\r"])
            case.pop("add_slash", None)


# =========================================================================== the oracle
class Events(HTMLParser):
    def __init__(self):
        HTMLParser.__init__(self, convert_charrefs=True)
        self.ev = []

    def handle_starttag(self, tag, attrs):
        self.ev.append(["start", tag, [list(a) for a in attrs]])

    def handle_startendtag(self, tag, attrs):
        self.ev.append(["startend", tag, [list(a) for a in attrs]])

    def handle_endtag(self, tag):
        self.ev.append(["end", tag])

    def handle_data(self, data):
        if self.ev and self.ev[-1][0] == "data":
            self.ev[-1][1] += data
        else:
            self.ev.append(["data", data])

    def handle_comment(self, data):
        self.ev.append(["comment", data])

    def handle_decl(self, decl):
        self.ev.append(["decl", decl])

    def handle_pi(self, data):
        self.ev.append(["pi", data])

    def unknown_decl(self, data):
        self.ev.append(["unknown_decl", data])


def events(text):
    p = Events()
    p.feed(text)
    p.close()
    return [e for e in p.ev if not (e[0] == "data" and e[1] == "")]


def skeleton(ev):
    out = []
    for e in ev:
        if e[0] == "data":
            continue
        if e[0] in ("start", "startend"):
            out.append([e[0], e[1], [a[0] for a in e[2]]])
        elif e[0] == "end":
            out.append(e)
        else:
            out.append([e[0]])
    return out


def subst_markers(ev, table):
    """replace every marker by the raw caller text in data, attribute values and comments"""
    keys = sorted(table, key=len, reverse=True)

    def rep(s):
        if s is None:
            return s
        for k in keys:
            if k in s:
                s = s.replace(k, table[k])
        return s
    out = []
    for e in ev:
        if e[0] == "data":
            d = rep(e[1])
            if d == "":
                continue
            if out and out[-1][0] == "data":
                out[-1][1] += d
            else:
                out.append(["data", d])
        elif e[0] in ("start", "startend"):
            out.append([e[0], e[1], [[a[0], rep(a[1])] for a in e[2]]])
        elif e[0] == "comment":
            # html.parser hands comments over raw: unescape the neutral text first (un-markered request text such
            # as PATH_INFO may need it), then put the raw caller text in
            out.append(["comment", rep(html.unescape(e[1]))])
        else:
            out.append(e)
    return out


def neutral_of(case, loc_real, req_real):
    """the same instance configuration and request with every caller/request text replaced by an inert unique
    marker;  -> (neutral case, {marker: raw text})"""
    import copy
    from webob import exc
    table = {}
    n = copy.deepcopy({k: v for k, v in case.items() if k not in ("history", "fmt")})
    n["method"], n["accept"] = "ZQMZQ", "text/html, zqazq/zqazq"
    table["ZQMZQ"] = req_real.environ["REQUEST_METHOD"]
    table["text/html, zqazq/zqazq"] = req_real.environ.get("HTTP_ACCEPT", "")

    def mark(m, v):
        table[m] = text_of(v)
        return m
    if pyval(case.get("detail")) not in (None, "", b"", 0):
        n["detail"] = mark("ZQDZQ", case["detail"])
    if pyval(case.get("comment")) not in (None, "", b"", 0):
        n["comment"] = mark("ZQCZQ", case["comment"])
    if (n.get("sub") or {}).get("explanation"):
        n["sub"]["explanation"] = mark("ZQXZQ", n["sub"]["explanation"])
    for i, a in enumerate(n.get("after") or []):
        if a[0] == "explanation" and a[1]:
            a[1] = mark("ZQY%dZQ" % i, a[1])
        elif a[0] in ("detail", "comment") and pyval(a[1]) not in (None, "", b"", 0):
            a[1] = mark("ZQA%dZQ" % i, a[1])
        elif a[0] == "header" and a[1].lower() != "content-type":
            a[2] = mark("ZQB%dZQ" % i, a[2])
        elif a[0] == "location":
            a[1] = "http://zqlzq/ZQLZQ"
    hs = []
    for i, (k, v) in enumerate(case.get("headers") or []):
        if k.lower() == "content-type":      # not a template slot (no identifier); decides how the body is encoded
            hs.append([k, v])
            continue
        hs.append([k, mark("ZQH%dZQ" % i, v)])
    n["headers"] = hs
    env = {}
    for i, (k, v) in enumerate(sorted((case.get("environ") or {}).items())):
        env[k] = mark("ZQE%dZQ" % i, v)
    n["environ"] = env
    if issubclass(getattr(exc, case["cls"]), exc._HTTPMove):
        n.pop("add_slash", None)
        n["location"] = "http://zqlzq/ZQLZQ"
        table["http://zqlzq/ZQLZQ"] = loc_real or ""
    return n, table


def expected_headers(case):
    """the extra headers the case text puts on the instance (constructor argument in its shape, assignments after
    construction), independent of the implementation"""
    pairs = [tuple(h) for h in case.get("headers") or []]
    if case.get("headers_shape") == "dict":
        pairs = list(dict(pairs).items())
    for a in case.get("after") or []:
        if a[0] == "header":
            pairs = [p_ for p_ in pairs if p_[0].lower() != a[1].lower()] + [(a[1], a[2])]
    return pairs


def ref_message(cls, case, hs, req):
    """the un-escaped body text the JSON form must carry: the instance's template filled with explanation, detail,
    comment, and (custom templates) environ / header values - computed from the case text"""
    ef = effective(case)
    comment = ef["comment"] or ""
    args = {"explanation": ef["explanation"], "detail": ef["detail"] or "", "comment": comment,
            "html_comment": "<!-- %s -->" % comment if comment else ""}
    if ef["custom"]:
        for k, v in req.environ.items():
            args[k] = v if isinstance(v, str) else str(v)
        for k, v in hs:
            args[k.lower()] = v
    return string.Template(ef["template"]).safe_substitute(args)


def _default_template():
    from webob import exc
    return exc.WSGIHTTPException.body_template_obj.template


def has_ct_header(case):
    return any(k.lower() == "content-type" for k, _ in case.get("headers") or [])


def all_values(case):
    vals = [case.get("detail"), case.get("comment")] + [a[1] for a in case.get("after") or [] if a[0] in ("detail", "comment")]
    vals += list((case.get("environ") or {}).values())
    for st in case.get("history") or []:
        vals += list((st.get("environ") or {}).values())
    return vals


def loose(case):
    """some text is outside the model's domain (not a str / None): the exact-content oracles do not apply"""
    return not all(is_text(v) for v in all_values(case))


def declared_safe(case):
    return any(isinstance(v, dict) and "$html" in v for v in all_values(case))


def outside_statement(case, ex):
    """failures on inputs the statement does not quantify over (recorded in design_notes/C18.md):
    bytes that are not UTF-8 as detail/comment (JSON / plain form: UnicodeDecodeError from exc.no_escape);
    a lone surrogate anywhere in the text of a plain-text body (UnicodeEncodeError from the UTF-8 encoding)"""
    if isinstance(ex, UnicodeDecodeError):
        for v in all_values(case):
            if isinstance(v, dict) and "$bytes" in v:
                try:
                    bytes.fromhex(v["$bytes"]).decode("utf-8")
                except UnicodeDecodeError:
                    return True
    if isinstance(ex, UnicodeEncodeError) and ex.encoding.lower().replace("-", "") == "utf8":
        return True
    return False


def classify_exception(case, ex):
    if isinstance(ex, ValueError) and "Control characters are not allowed in location" in str(ex):
        return None
    if outside_statement(case, ex):
        return None
    if has_ct_header(case) and ((isinstance(ex, TypeError) and "without a charset" in str(ex))
                                or isinstance(ex, (UnicodeEncodeError, LookupError))):
        return ("content-type-header:generation-raises",
                "an extra Content-Type header (no charset / another charset) makes the error response raise %r" % ex)
    return ("raises:" + type(ex).__name__, "building/sending the error response raised %r" % ex)


def oracle_case(case):
    """The property on one request answered by a fresh instance.  None, or (key, message)."""
    from webob import exc
    loc = case.get("location")
    if loc is not None and ("\r" in loc or "\n" in loc) and issubclass(getattr(exc, case["cls"]), exc._HTTPMove):
        # the stated refusal: a redirect never accepts a location with CR / LF
        try:
            build_exc(case)
        except ValueError:
            return None
        except Exception as ex:  # noqa
            return ("location:crlf-other-exception", "location %r: %r instead of ValueError" % (loc, ex))
        return ("location:crlf-accepted", "a redirect accepted the location %r" % loc)
    try:
        cls, e, req, resp = run_case(case)
    except Exception as ex:  # noqa
        return classify_exception(case, ex)
    return oracle_resp(case, cls, e, req, resp)


def oracle_resp(case, cls, e, req, resp, check_made=True):
    """The property on one response `resp` to `req`; `e` is the instance the reference texts are taken from
    (in a history: the fresh replica, and byte equality with its answer is checked by the caller)."""
    body = resp.body
    ef = effective(case)
    want_status = "%d %s" % (ef["code"], ef["title"])
    st = pyval(after_of(case, "status", None))
    if isinstance(st, str):
        want_status = st
    if isinstance(st, int):
        if not resp.status.startswith("%d " % st):
            return ("status-line", "status line %r after status = %r" % (resp.status, st))
        want_status = resp.status
    elif resp.status != want_status:
        return ("status-line", "status line %r, the class says %r" % (resp.status, want_status))
    for k, v in expected_headers(case):
        if k.lower() in ("content-type", "content-length", "location"):
            continue
        if v not in resp.headers.getall(k):
            return ("extra-header:not-sent", "the extra header %r: %r given to the exception is not on the response: %r"
                    % (k, v, resp.headerlist))
    method = req.environ["REQUEST_METHOD"]
    if method == "HEAD":
        if body != b"":
            return ("head:body-not-empty", "HEAD response carries a body of %d bytes: %r" % (len(body), body[:80]))
        return None
    if int(resp.status[:3]) in EMPTY_CODES or ef["empty"]:
        if body != b"" and case.get("body") is None:
            return ("bodyless-class:body-not-empty", "%s (%s) sent a body: %r" % (cls.__name__, resp.status, body[:80]))
        return None
    if case.get("body") is not None:
        raw = bytes.fromhex(case["body"])
        if body != raw:
            key = "explicit-body:altered" if raw != b"" else "explicit-body:empty-body-replaced-by-generated"
            return (key, "explicit body %r (given as %s) was sent as %r" % (raw, case.get("body_how") or "e.body =", body[:200]))
        return None
    ctype = resp.content_type
    want = case.get("fmt")
    if want is not None and ctype != want:
        return ("format-choice:%s-instead-of-%s" % (ctype, want),
                "Accept %r: Content-Type %r, expected %r" % (case.get("accept"), ctype, want))
    if ctype not in ("text/html", "application/json", "text/plain"):
        return ("format-choice:other-type", "Content-Type %r" % ctype)
    try:
        text = body.decode(resp.charset or "utf-8")
    except Exception as ex:  # noqa
        text = None
    made = None
    try:
        with Serving(cls, e, resp):
            made = {"text/html": e.html_body, "application/json": e.json_body, "text/plain": e.plain_body}[ctype](req.environ)
    except Exception as ex:  # noqa
        if not outside_statement(case, ex):
            raise
    if text is None or (check_made and made is not None and text != made):
        key = "content-type-header:body-not-in-declared-charset" if has_ct_header(case) else "body:not-in-declared-charset"
        return (key, "the body bytes %r are not the generated text %r in the declared charset %r (Content-Type %r)"
                % (body[-40:], (made or "")[-30:], resp.charset, resp.headers.get("Content-Type")))
    if ctype == "text/html":
        return oracle_html(case, cls, resolved_location(cls, resp), req, text, want_status)
    if ctype == "application/json":
        try:
            d = json.loads(text)
        except Exception as ex:  # noqa
            return ("json:invalid", "body is not JSON: %r (%r)" % (ex, text[:200]))
        if loose(case):
            return None if isinstance(d, dict) else ("json:invalid", "JSON body is not an object: %r" % (d,))
        ref_hs = expected_headers(case)
        if resolved_location(cls, resp) is not None:
            ref_hs = [h for h in ref_hs if h[0].lower() != "location"] + [("Location", resolved_location(cls, resp))]
        msg = ref_message(cls, case, ref_hs, req)
        wantd = {"message": msg, "code": want_status, "title": ef["title"]}
        if case.get("json_formatter") or any(a[0] == "json_formatter" for a in case.get("after") or []):
            wantd = {"m": msg, "s": want_status, "t": ef["title"], "p": req.environ.get("PATH_INFO")}
        if d != wantd:
            return ("json:wrong-content", "JSON body %r, expected %r" % (d, wantd))
        return None
    # text/plain
    if not text.startswith(want_status + "\n\n"):
        return ("plain:status-prefix", "plain body does not start with the status line: %r" % text[:80])
    m = re.search(r"<[^>]*>", text[len(want_status) + 2:])
    if m:
        return ("plain:tag-survives", "markup %r survives in the plain-text body %r" % (m.group(0)[:60], text[:300]))
    return None


_MOVES = []


def MOVE_NAMES():
    if not _MOVES:
        from webob import exc
        _MOVES.extend(n for n in class_names() if issubclass(getattr(exc, n), exc._HTTPMove))
    return _MOVES


def oracle_html(case, cls, loc, req, text, want_status):
    ncase, table = neutral_of(case, loc, req)
    try:
        _, _, _, nresp = run_case(ncase)
    except Exception as ex:  # noqa
        return ("raises:neutral-" + type(ex).__name__, "neutral instantiation raised %r" % ex)
    if nresp.content_type != "text/html":
        return ("format-choice:neutral", "neutral instantiation was not served as HTML")
    ntext = nresp.body.decode("utf-8")
    if want_status not in text:
        return ("html:status-missing", "the HTML form does not carry the status line: %r" % text[:200])
    if declared_safe(case):
        return None          # an object with __html__ is inserted as the markup it declares: by design
    ev, nev = events(text), events(ntext)
    if skeleton(ev) != skeleton(nev):
        which = culprit(case)
        return ("html:boundary-introduced:" + which,
                "tag/attribute/comment structure differs from the neutral instantiation: %r vs %r; body %r"
                % (skeleton(ev)[:12], skeleton(nev)[:12], text[:400]))
    if not loose(case) and all(is_clean(v) for v in table.values()):
        exp = subst_markers(nev, table)
        got = [[x[0], html.unescape(x[1])] if x[0] == "comment" else x for x in ev]
        if got != exp:
            return ("html:text-not-preserved", "text/attribute content differs from the caller text: %r vs expected %r"
                    % (got[:14], exp[:14]))
    return None


def culprit(case):
    """which slot breaks the structure (tried one at a time)"""
    for slot_name in ("detail", "comment", "location", "headers", "environ", "method", "accept", "after", "sub"):
        c2 = dict(case)
        c2.pop("fmt", None)
        c2.pop("history", None)
        if slot_name in ("after", "sub"):
            if not case.get(slot_name):
                continue
            c2.pop(slot_name)
        elif slot_name in ("headers",):
            c2["headers"] = [[k, "v"] for k, _ in case.get("headers") or []]
        elif slot_name == "environ":
            c2["environ"] = {k: "v" for k in (case.get("environ") or {})}
        elif slot_name == "method":
            c2["method"] = "GET"
        elif slot_name == "accept":
            c2["accept"] = "text/html"
        elif case.get(slot_name):
            c2[slot_name] = "v"
        else:
            continue
        try:
            cls, e, req, resp = run_case(c2)
            if resp.content_type != "text/html":
                continue
            n2, _ = neutral_of(c2, resolved_location(cls, resp), req)
            _, _, _, nresp = run_case(n2)
            if skeleton(events(resp.body.decode("utf-8"))) == skeleton(events(nresp.body.decode("utf-8"))):
                return slot_name
        except Exception:  # noqa
            continue
    return "unknown"


# =========================================================================== histories on ONE instance
def step_case(case, st):
    c = {k: v for k, v in case.items() if k != "history"}
    for k in ("accept", "fmt", "method", "environ"):
        c[k] = st.get(k)
    if st.get("url"):
        c["url"] = st["url"]
    return c


def peek(e, what):
    """reading the exception's own body between calls (it is a Response)"""
    try:
        if what == "body":
            e.body
        elif what == "text" and e.charset:
            e.text
    except UnicodeError:
        pass            # an explicit body that is not text in the instance's charset: the reader's problem


def run_history(case):
    """-> (cls, e, [(step case, request, response)]) with ONE instance answering every step"""
    cls, e = build_exc(case)
    out = []
    for st in case["history"]:
        sc = step_case(case, st)
        peek(e, st.get("peek"))
        req = build_req(sc)
        out.append((sc, req, answer(e, req, st.get("via") or case.get("iface"))))
    return cls, e, out


def canon_headers(resp, method):
    hs = [list(h) for h in resp.headerlist]
    if method == "HEAD":
        # generate_response deletes Content-Length from the instance; a later HEAD answer of the same instance then
        # lacks "Content-Length: 0".  The body is empty either way - not this property's subject.
        hs = [h for h in hs if h[0].lower() != "content-length"]
    return hs


def oracle_history(case):
    """Every answer of one long-lived instance must (a) satisfy the property and (b) be the answer a brand-new,
    identically constructed instance gives to that request.  -> list of (key, message)"""
    try:
        cls, e, steps = run_history(case)
    except Exception as ex:  # noqa
        r = classify_exception(case, ex)
        return [(r[0] + ":in-history", r[1])] if r else []
    bad = []
    for i, (sc, req, resp) in enumerate(steps):
        st = case["history"][i]
        via = st.get("via")
        # the reference for this answer: a brand-new, identically constructed instance given the same request
        try:
            cls2, e2 = build_exc(case)
            req2 = build_req(sc)
            fresh = answer(e2, req2, via or case.get("iface"))
        except Exception as ex:  # noqa
            bad.append(("raises:fresh-" + type(ex).__name__, "fresh instance raised %r" % ex))
            break
        if not (via == "generate_response" and req.environ["REQUEST_METHOD"] == "HEAD"):
            res = oracle_resp(sc, cls, e2, req, resp, check_made=False)
            if res:
                bad.append((res[0], "answer #%d of one instance (after %s): %s" % (
                    i, [h.get("fmt") if (h.get("method") or "GET") != "HEAD" else "HEAD" for h in case["history"][:i]], res[1])))
        m = req.environ["REQUEST_METHOD"]
        what = None
        if resp.status != fresh.status:
            what = "status"
        elif resp.body != fresh.body:
            what = "body:" + str(fresh.content_type)
        elif canon_headers(resp, m) != canon_headers(fresh, m):
            what = "headers"
        if what and case.get("body") == "" and what.startswith("body") and b"" in (resp.body, fresh.body):
            # an empty supplied body: whether it is sent or replaced by a generated page flips with the instance's
            # internal app_iter shape (e.g. after .body was read) - the same defect as on a fresh instance
            bad.append(("explicit-body:empty-body-replaced-by-generated",
                        "answer #%d of one instance sends %r for the supplied empty body, a new identical instance %r" % (
                            i, resp.body[:120], fresh.body[:120])))
        elif what:
            bad.append(("instance-reuse:%s-differs-from-fresh-instance" % what,
                        "answer #%d of one instance is (%r, %r, %r) but a new identical instance answers (%r, %r, %r)" % (
                            i, resp.status, canon_headers(resp, m), resp.body[:300], fresh.status, canon_headers(fresh, m),
                            fresh.body[:300])))
        if bad:
            break
    return bad


URLS = ["/p/q?x=1", "/a/b/", "http://example.org:8080/z?y=2", "/", "https://h.example/p/q/r?x=%3Cb%3E", "/p%22%3E/x"]
FORMS = [("text/html", "text/html", "GET"), ("application/json", "application/json", "GET"), ("x/y", "text/plain", "GET"),
         ("text/html", "text/html", "HEAD")]


def is_move(name):
    from webob import exc
    return issubclass(getattr(exc, name), exc._HTTPMove)


def rand_history(rng, names, wf_only=True, outside=False):
    base = rand_case(rng, names, wf_only=wf_only, outside=outside)
    if base.get("body_how") == "app_iter_gen":
        base["body_how"] = "app_iter2"          # a generator body can be sent once only
    bodyless = effective(base)["empty"]
    for k in ("accept", "fmt", "method"):
        base.pop(k, None)
    env0 = base.pop("environ", None) or {}
    steps = []
    for _ in range(rng.randrange(2, 6)):
        if rng.random() < 0.6:
            acc, fmt, method = rng.choice(FORMS)
        else:
            acc, fmt = rand_accept(rng)
            method = rng.choice(["GET", "GET", "GET", "HEAD", "POST", "M<x>"])
        st = {"accept": acc, "fmt": fmt, "method": method}
        if rng.random() < 0.5:
            st["url"] = rng.choice(URLS)
        if env0:
            st["environ"] = {k: (v if rng.random() < 0.5 else rand_text(rng)) for k, v in env0.items()}
            if base.get("add_slash") and "QUERY_STRING" in st["environ"]:
                st["environ"]["QUERY_STRING"] = st["environ"]["QUERY_STRING"].replace("\r", "").replace("\n", "")
        r = rng.random()
        if r < 0.15 and base.get("body") is None and not is_move(base["cls"]) and not bodyless:
            # (a redirect resolves its Location in __call__; generate_response alone is not its interface)
            st["via"] = "generate_response"
        if rng.random() < 0.2:
            st["peek"] = rng.choice(["body", "text"])
        steps.append(st)
        if rng.random() < 0.15:
            steps.append(dict(st))           # the same request twice
    base["history"] = steps
    return base


def history_literal(case):
    """Coq input of the `history` correspondence; only plain req.get_response(exc) steps.  The model starts from
    the header list of the instance as constructed; the location resolved for each request (an input of the model)
    is taken from what a brand-new instance emits for that request."""
    ocl, tmpl, detail, comment, explicit = instance_literals(case)
    cls, e0 = build_exc(case)
    hs = [(k, v) for k, v in e0.headers.items()]
    rs = []
    for st in case["history"]:
        sc = step_case(case, st)
        req = build_req(sc)
        _, e1 = build_exc(case)
        loc = resolved_location(cls, build_req(sc).get_response(e1))
        environ = [(k, v) for k, v in req.environ.items() if isinstance(v, str)]
        acc = accept_model_input(req.environ.get("HTTP_ACCEPT", ""))
        rs.append("(%s, %s, %s, %s)" % (clist(cpair(cstr(k), cstr(v)) for k, v in environ), c_accept(acc),
                                        cbool(req.environ["REQUEST_METHOD"] == "HEAD"),
                                        copt(None if loc is None else cstr(loc))))
    return "(%s, %s, %s, %s, %s, %s, %s, %s)" % (
        cstr(case["cls"]), ocl, tmpl, detail, comment, clist(cpair(cstr(k), cstr(v)) for k, v in hs), explicit, clist(rs))


HIST_FN = ("(fun c => match c with (nm, ocl, t, d, cm, hs, ex, rs) => match %s with "
           "Some cl => VList (map resp_val (history cfg cl d cm ex hs "
           "(map (fun r => match r with (env, a, hd, loc) => mkReq env a hd loc end) rs))) | None => VNone end end)" % PICK_CLS)
HIST_TY = ("(str * option excls * option str * str * str * list (str * str) * option str * "
           "list (list (str * str) * accept_in * bool * option str))")


def observe_history(case):
    try:
        cls, e, steps = run_history(case)
        return [[resp.status, resp.content_type, resp.body] for _, _, resp in steps]
    except Exception as ex:  # noqa
        return Err(type(ex).__name__)


def oracle_status_map():
    """status_map maps every code to its class; every concrete class is reachable through its code;
    code and title agree with the class's own documentation line."""
    from webob import exc
    bad = []
    bases = (exc.HTTPRedirection, exc.HTTPClientError, exc.HTTPServerError)
    fam = (exc.HTTPOk, exc.HTTPRedirection, exc.HTTPClientError, exc.HTTPServerError)
    for k, v in exc.status_map.items():
        if not (isinstance(v, type) and issubclass(v, exc.WSGIHTTPException)) or v.code != k:
            bad.append(("status_map:wrong-class", "status_map[%r] is %r whose code is %r" % (k, v, getattr(v, "code", None))))
    seen = {}
    for name, v in vars(exc).items():
        if not (isinstance(v, type) and issubclass(v, exc.WSGIHTTPException)) or name.startswith("_"):
            continue
        m = re.search(r"code:\s*(\d+),\s*title:\s*(.+?)\s*$", v.__doc__ or "", flags=re.M)
        if m and "code" in vars(v) and (int(m.group(1)) != v.code or m.group(2) != v.title):
            bad.append(("status-line:class-doc", "%s documents 'code: %s, title: %s' but has code=%r title=%r"
                        % (name, m.group(1), m.group(2), v.code, v.title)))
        if v in bases or not issubclass(v, fam):
            continue
        if exc.status_map.get(v.code) is not v:
            bad.append(("status_map:class-unreachable", "status_map[%r] is %r, not %s" % (v.code, exc.status_map.get(v.code), name)))
        if v.code in seen:
            bad.append(("status_map:duplicate-code", "%s and %s share code %r" % (seen[v.code], name, v.code)))
        seen[v.code] = name
    return bad


# =========================================================================== small correspondences
def corr_small(ctx, rng, n):
    from webob.util import html_escape
    from webob.exc import strip_tags
    out = {}
    texts = list(ATTACKS) + ["".join(p) for k in (1, 2) for p in itertools.product(CORE + ["a", "b", "r", "B"], repeat=k)]
    texts += [rand_text(rng, 12) for _ in range(n)]
    strip_extra = ["<br>", "<BR/>", "<bR x>y", "<br", "<b r>", "a<br\n>b", "<!--<br>-->", "<<br>>", "<brr>x", "<b<br>>", "<!<!---->--x",
                   "-<!---->->", "<!--->", "--->", "<a\n>b", "x<y", "x>y<", "<>", "<\u212ar>"]
    cases = [(cstr(t), html_escape(t), {"fn": "html_escape", "text": t}) for t in texts]
    out["html_escape"] = (ctx.corr("html_escape", IMPORTS, "(fun s => VStr (html_escape s))", cases, in_type="str"), cases)
    t2 = texts + strip_extra + ["".join(rng.choice(["<", ">", "b", "r", "B", "-", "!", "\n", "\r", " ", "x", "/"]) for _ in range(rng.randrange(1, 12)))
                                for _ in range(n)]
    cases = [(cstr(t), strip_tags(t), {"fn": "strip_tags", "text": t}) for t in t2]
    out["strip_tags"] = (ctx.corr("strip_tags", IMPORTS, "(fun s => VStr (strip_tags s))", cases, in_type="str"), cases)
    cases = [(cstr(t), json.dumps(t), {"fn": "json.dumps", "text": t}) for t in texts]
    out["json_dumps"] = (ctx.corr("json_dumps", IMPORTS, "(fun s => VStr (jstr s))", cases, in_type="str"), cases)
    cases = []
    keys = ["a", "A", "detail", "x_1", "_", "a1", "MISSING"]
    for _ in range(n):
        t = rand_template(rng) + rng.choice(["", "$", "${a}", "$a", "$$"])
        mp = {k: rand_text(rng, 4) for k in rng.sample(keys + TMPL_NAMES, rng.randrange(0, 8))}
        exp = string.Template(t).safe_substitute(mp)
        cases.append((cpair(cstr(t), clist(cpair(cstr(k), cstr(v)) for k, v in mp.items())), exp,
                      {"fn": "safe_substitute", "template": t, "mapping": mp}))
    out["safe_substitute"] = (ctx.corr("safe_substitute", IMPORTS,
                                       "(fun c => VStr (subst (tmpl_parse (fst c)) (fun n => assoc_last n (snd c))))",
                                       cases, in_type="(str * list (str * str))"), cases)
    cases = []
    for _ in range(n):
        v, _fmt = rand_accept(rng)
        a = accept_model_input(v or "")
        from webob.acceptparse import create_accept_header
        offers = create_accept_header(header_value=v or "").acceptable_offers(offers=["text/html", "application/json"])
        got = offers[0][0] if offers else "text/plain"
        cases.append((c_accept(a), got, {"fn": "choose", "accept": v}))
    out["choose"] = (ctx.corr("choose", IMPORTS,
                              "(fun a => VStr (match choose a with FHtml => A \"text/html\" | FJson => A \"application/json\" "
                              "| FPlain => A \"text/plain\" end))", cases, in_type="accept_in"), cases)
    return out


# =========================================================================== what is modelled / regenerated / oracle-only
# every implementation object coq/Model/C18_ExcBody.v mirrors by hand (the last group is stdlib code webob calls)
MODELLED = [
    "webob.util:html_escape",
    "webob.exc:lazify", "webob.exc:_lazified", "webob.exc:no_escape", "webob.exc:strip_tags",
    "webob.exc:tag_re", "webob.exc:br_re", "webob.exc:comment_re",
    "webob.exc:WSGIHTTPException.__init__", "webob.exc:WSGIHTTPException._make_body",
    "webob.exc:WSGIHTTPException.plain_body", "webob.exc:WSGIHTTPException.html_body",
    "webob.exc:WSGIHTTPException.json_formatter", "webob.exc:WSGIHTTPException.json_body",
    "webob.exc:WSGIHTTPException.generate_response", "webob.exc:WSGIHTTPException.__call__",
    "webob.exc:_HTTPMove.__call__",
    "webob.acceptparse:AcceptValidHeader.acceptable_offers", "webob.acceptparse:AcceptInvalidHeader.acceptable_offers",
    "webob.response:Response.__init__", "webob.response:Response.__call__", "webob.response:Response.has_body",
    "webob.response:Response._content_type__get", "webob.response:Response._content_type__set",
    "webob.response:Response.content_length",
    "webob.headers:ResponseHeaders.__getitem__", "webob.headers:ResponseHeaders.__setitem__",
    "webob.headers:ResponseHeaders.__delitem__",
    "html:escape", "string:Template.pattern", "string:Template.safe_substitute", "string:Template.substitute",
    "json:dumps", "json.encoder:py_encode_basestring_ascii",
]
# translated into coq/Gen/C18_exctable.v by gen(); run() adds every WSGIHTTPException subclass of webob.exc
# (code, title, explanation, body_template_obj, empty_body, status_map membership flags)
REGENERATED = ["webob.exc:status_map", "webob.exc:WSGIHTTPException.body_template_obj",
               "webob.exc:WSGIHTTPException.html_template_obj", "webob.exc:WSGIHTTPException.plain_template_obj"]
# exercised by the oracle / used to produce model inputs, not modelled
ORACLE_ONLY = ["webob.request:BaseRequest.blank", "webob.request:BaseRequest.get_response",
               "webob.request:BaseRequest.call_application", "webob.acceptparse:create_accept_header",
               "webob.acceptparse:Accept.parse", "webob.acceptparse:AcceptValidHeader.__init__",
               "webob.acceptparse:Accept._parse_and_normalize_offers",
               "webob.response:Response._make_location_absolute", "webob.response:Response._abs_headerlist",
               "webob.response:Response.body", "webob.response:Response.text", "webob.response:Response.charset",
               "webob.response:EmptyResponse", "webob.exc:_HTTPMove.__init__", "webob.descriptors:header_getter"]


# =========================================================================== the check
def report(ctx, res, case, source):
    key, msg = res
    ctx.fail(key, msg + "   [case %s]" % json.dumps({k: v for k, v in case.items() if v not in (None, [], {})}, ensure_ascii=True)[:500],
             case, True, source)


def run(ctx):
    ctx.modelled(MODELLED)
    ctx.extra["regenerated_from_source"] = REGENERATED + ["webob.exc:%s" % n for n in class_names()]
    ctx.extra["oracle_only"] = ORACLE_ONLY
    problems = []
    try:
        problems = gen(ctx)
    except Exception as ex:  # noqa
        problems = ["class table could not be regenerated: %r" % ex]
    for p in problems:
        ctx.broken.append("translator: " + p)
    ctx.build(["Props/C18.vo"])
    names = class_names()
    rng = ctx.sub_rng("corr")

    # ---- status_map / class documentation
    bad = oracle_status_map()
    for key, msg in bad:
        ctx.fail(key, msg, {"kind": "status_map"}, True, "status_map")
    ctx.oracle_count("status_map", len(names), len(names))

    # ---- small correspondences
    small = corr_small(ctx, rng, ctx.scale(300, 3000))
    for nm, (badidx, cases) in small.items():
        for i in badidx[:5]:
            ctx.broken.append("correspondence %s: model and implementation disagree on %s -> %r" % (
                nm, json.dumps(cases[i][2], ensure_ascii=True), cases[i][1]))
    # a disagreement on a helper is searched for a property failure by the oracle sweep below

    # ---- correspondence of the whole request path, every class
    cases = []
    per_class = ctx.scale(10, 100)
    for nm in names:
        for j in range(per_class):
            c = rand_case(rng, [nm], want=["text/html", "text/html", "application/json", "text/plain", None][j % 5])
            if not in_model_domain(c):
                continue        # (arbitrary templates here: the oracle streams, with well-formed templates, cover these knobs)
            out = observe(c)
            if isinstance(out, Err):
                if c.get("location") is not None:
                    continue
                res = oracle_case(c)
                if res:
                    report(ctx, res, c, "corr")
                continue
            try:
                lit = model_literal(c)
            except Exception:  # noqa
                continue
            cases.append((lit, out, c))
    badidx = ctx.corr("call", IMPORTS, CALL_FN, cases, in_type=CALL_TY, shard=60, shard_bytes=150000)
    for i in badidx[:8]:
        c = cases[i][2]
        res = oracle_case(c)
        if res:
            report(ctx, res, c, "corr")
        else:
            ctx.broken.append("correspondence call: model and implementation disagree on %s -> %r" % (
                json.dumps(c, ensure_ascii=True), cases[i][1]))

    # ---- correspondence of histories on one instance (model: `history`, the instance loses Content-Length)
    cases = []
    for _ in range(ctx.scale(150, 1200)):
        c = rand_history(rng, names, wf_only=False)
        for st in c["history"]:
            st.pop("via", None)
        if not in_model_domain(c):
            continue
        c.pop("iface", None)
        out = observe_history(c)
        if isinstance(out, Err):
            for res in oracle_history(c):
                report(ctx, res, c, "corr")
            continue
        try:
            cases.append((history_literal(c), out, c))
        except Exception:  # noqa
            continue
    badidx = ctx.corr("history", IMPORTS, HIST_FN, cases, in_type=HIST_TY, shard=25, shard_bytes=150000)
    for i in badidx[:8]:
        c = cases[i][2]
        res = oracle_history(c)
        if res:
            for r_ in res:
                report(ctx, r_, c, "corr")
        else:
            ctx.broken.append("correspondence history: model and implementation disagree on %s -> %r" % (
                json.dumps(c, ensure_ascii=True), cases[i][1]))

    # ---- oracle sweep
    r2 = ctx.sub_rng("oracle")
    # (0) one instance answering several requests: every class x every ordered pair of forms (html/json/plain/HEAD),
    #     triples for a few classes, then random histories (generate_response called directly, .body/.text read between)
    cnt = 0
    hist_names = names if ctx.thorough else names
    for nm in hist_names:
        for tup in itertools.permutations(range(len(FORMS)), 2):
            c = {"cls": nm, "detail": '<script>alert("x")</script> & ${detail}', "comment": "--><img src=x onerror=alert(1)>",
                 "headers": [["X_Hdr", "<h>"]], "location": '/l"><i>',
                 "history": [{"accept": FORMS[j][0], "fmt": FORMS[j][1], "method": FORMS[j][2], "url": URLS[(k * 2) % len(URLS)],
                              "environ": {"HTTP_X_FOO": "<e%d>" % k, "CONTENT_TYPE": "t/<%d>" % k}} for k, j in enumerate(tup)]}
            cnt += 1
            for res in oracle_history(c):
                report(ctx, res, c, "history")
    for nm in ["HTTPNotFound", "HTTPFound", "HTTPMethodNotAllowed", "HTTPBadRequest", "WSGIHTTPException"]:
        for tup in itertools.product(range(len(FORMS)), repeat=3):
            for via in (None, "generate_response"):
                if via and is_move(nm):
                    continue
                c = {"cls": nm, "detail": "<b>'\"&-->", "comment": "c-->",
                     "history": [{"accept": FORMS[j][0], "fmt": FORMS[j][1], "method": FORMS[j][2], "via": via if k == 1 else None,
                                  "peek": "body" if k == 2 else None} for k, j in enumerate(tup)]}
                cnt += 1
                for res in oracle_history(c):
                    report(ctx, res, c, "history")
    m = ctx.scale(1200, 20000)
    for _ in range(m):
        c = rand_history(r2, names, outside=True)
        for res in oracle_history(c):
            report(ctx, res, c, "history")
    ctx.oracle_count("history", cnt + m, cnt + m)
    # (a) every class x every core character (and the attack fragments) in every slot, all three formats + HEAD
    cnt = nt = 0
    frags = CORE + (ATTACKS if ctx.thorough else ATTACKS[:14])
    for nm in names:
        for frag in frags:
            for fmt, acc in (("text/html", "text/html"), ("application/json", "application/json"), ("text/plain", "x/y")):
                if not ctx.thorough and fmt != "text/html" and frag not in CORE[:6] + ATTACKS[:6]:
                    continue
                c = {"cls": nm, "detail": "d" + frag + "e", "comment": frag + "c" + frag, "method": "GET",
                     "headers": [["X_Hdr", frag.replace("\r", "").replace("\n", "")]],
                     "environ": {"HTTP_X_FOO": frag, "CONTENT_TYPE": "t/" + frag, "QUERY_STRING": frag},
                     "location": "/l" + frag.replace("\r", "").replace("\n", ""), "accept": acc, "fmt": fmt}
                cnt += 1
                nt += 1
                res = oracle_case(c)
                if res:
                    report(ctx, res, c, "slots")
        for method in ("HEAD",):
            c = {"cls": nm, "detail": "<b>", "comment": "-->", "method": method, "accept": "text/html", "fmt": "text/html"}
            cnt += 1
            res = oracle_case(c)
            if res:
                report(ctx, res, c, "slots")
    for nm in names:
        for ct in CT_VALUES:
            for fmt, acc in (("text/html", "text/html"), ("application/json", "application/json"), ("text/plain", "x/y")):
                c = {"cls": nm, "detail": "d\xe9<", "comment": "c", "method": "GET", "headers": [["Content-Type", ct]],
                     "accept": acc, "fmt": fmt}
                cnt += 1
                nt += 1
                res = oracle_case(c)
                if res:
                    report(ctx, res, c, "slots")
    ctx.oracle_count("slots", cnt, nt)
    # (a') configurations, argument shapes, values outside the model's domain - deterministic part
    cnt = 0
    forms3 = (("text/html", "text/html"), ("application/json", "application/json"), ("text/plain", "x/y"))
    full = set(names if ctx.thorough else ["HTTPNotFound", "HTTPFound", "HTTPMethodNotAllowed", "HTTPBadRequest", "HTTPNoContent",
                                            "WSGIHTTPException", "HTTPNotAcceptable", "HTTPInternalServerError"])
    for nm in names:
        for fmt, acc in (forms3 if nm in full else forms3[:1]):
            knob_cases = [
                {"sub": {"explanation": 'a <b>bold</b> "claim" & \'more\' -->', "code": 499, "title": "Custom Reason"}},
                {"after": [["explanation", "<script>x</script>"], ["detail", "<after>"], ["comment", "--><i>"]]},
                {"after": [["body_template", "<p title=\"${x_hdr}\">${detail}</p>${html_comment}"], ["header", "X_HDR", '"><u>']]},
                {"headers": [["X_Hdr", "<a>"], ["x_hdr", '"<b>']], "headers_shape": "multidict", "tmpl": "<i title='${x_hdr}'>$x_hdr </i>"},
                {"headers": [["X_Hdr", "'<c>"]], "headers_shape": "dict", "tmpl": "<i title='${x_hdr}'>.</i>", "positional": True},
                {"tmpl": _default_template(), "environ": {"detail": "<env-detail>", "html_comment": "--><b>"}},
                {"sub": {"default_content_type": None, "default_charset": None}, "detail": "d\xe9<"},
                {"after": [["status", "%d Nothing Here" % (getattr(__import__("webob.exc").exc, nm).code or 500)]]},
            ]
            if nm not in MOVE_NAMES():
                knob_cases += [{"kw": {"content_type": "application/xml", "charset": "latin-1"}, "detail": "\xe9<"},
                               {"json_formatter": True}, {"iface": "middleware"}, {"iface": "raise"}]
            for extra in knob_cases:
                c = {"cls": nm, "detail": "<d>", "comment": "c-->", "method": "GET", "accept": acc, "fmt": fmt}
                c.update(extra)
                if nm in MOVE_NAMES():
                    c["location"] = '/l"<'
                cnt += 1
                res = oracle_case(c)
                if res:
                    report(ctx, res, c, "knobs")
    for nm in ["HTTPNotFound", "HTTPFound", "HTTPMethodNotAllowed", "HTTPBadRequest"]:
        for v in OUTSIDE_VALUES:
            for fmt, acc in forms3:
                for slot_ in ("detail", "comment", "environ"):
                    c = {"cls": nm, "detail": "d", "comment": "c", "method": "GET", "accept": acc, "fmt": fmt,
                         "tmpl": "<p title=\"${HTTP_X_FOO}\">${detail}</p><!-- ${comment} -->${html_comment}"}
                    if slot_ == "environ":
                        c["environ"] = {"HTTP_X_FOO": v}
                    else:
                        c[slot_] = v
                    cnt += 1
                    res = oracle_case(c)
                    if res:
                        report(ctx, res, c, "knobs")
    for nm in names:
        if effective({"cls": nm})["empty"]:
            continue
        for raw in ("", "3c623e"):
            for how in (["after"] if nm in MOVE_NAMES() else ["after", "kw_body", "kw_text", "app_iter", "app_iter2"]):
                c = {"cls": nm, "detail": "<d>", "method": "GET", "accept": "text/html", "fmt": "text/html", "body": raw, "body_how": how}
                cnt += 1
                res = oracle_case(c)
                if res:
                    report(ctx, res, c, "knobs")
    for loc in ["/x\r\nSet-Cookie: a=b", "\n", "http://e/\r"]:
        for nm in MOVE_NAMES():
            for pos in (False, True):
                cnt += 1
                res = oracle_case({"cls": nm, "location": loc, "positional": pos, "accept": "text/html", "fmt": "text/html"})
                if res:
                    report(ctx, res, {"cls": nm, "location": loc, "positional": pos}, "knobs")
    ctx.oracle_count("knobs", cnt, cnt)
    # (b) exhaustive short strings over the core alphabet in detail / comment / a custom-template slot
    cnt = 0
    depth = ctx.scale(2, 3)
    reps = ["HTTPNotFound", "HTTPFound", "HTTPMethodNotAllowed"]
    tm = "<p title=\"${HTTP_X_FOO}\">${detail}</p><!-- ${comment} -->${html_comment}<i class='${x_hdr}'>$HTTP_X_FOO </i>"
    for d in range(1, depth + 1):
        for tup in itertools.product(CORE, repeat=d):
            s = "".join(tup)
            for nm in reps:
                for tmpl in (None, tm):
                    if tmpl is not None and nm != "HTTPNotFound":
                        continue
                    c = {"cls": nm, "detail": s, "comment": s, "method": "GET", "tmpl": tmpl,
                         "headers": [["X_Hdr", s.replace("\r", "").replace("\n", "")]], "environ": {"HTTP_X_FOO": s},
                         "location": "/" + s.replace("\r", "").replace("\n", ""), "accept": "text/html", "fmt": "text/html"}
                    cnt += 1
                    res = oracle_case(c)
                    if res:
                        report(ctx, res, c, "exhaustive")
            c = {"cls": "HTTPNotFound", "detail": s, "comment": s, "method": "GET", "accept": "image/png", "fmt": "text/plain"}
            cnt += 1
            res = oracle_case(c)
            if res:
                report(ctx, res, c, "exhaustive")
    ctx.oracle_count("exhaustive", cnt, cnt)
    # (c) random cases over all classes, well-formed custom templates, rendered Accept headers
    m = ctx.scale(2500, 120000)
    nt = 0
    for _ in range(m):
        c = rand_case(r2, names, wf_only=True, outside=True)
        if c.get("method") != "HEAD":
            nt += 1
        res = oracle_case(c)
        if res:
            report(ctx, res, c, "random")
    ctx.oracle_count("random", m, nt)
    # (d) Accept negotiation alone, against the independent reading of the rendered structure
    m = ctx.scale(1500, 40000)
    for _ in range(m):
        acc, fmt = rand_accept(r2)
        c = {"cls": r2.choice(["HTTPNotFound", "HTTPBadRequest", "HTTPFound", "HTTPInternalServerError"]), "detail": "x",
             "method": "GET", "accept": acc, "fmt": fmt}
        res = oracle_case(c)
        if res:
            report(ctx, res, c, "accept")
    ctx.oracle_count("accept", m, m)

    ctx.extra["rule"] = (
        "correspondence: html_escape / strip_tags / json.dumps / Template.safe_substitute / Accept choice on attack fragments, "
        "all strings of length<=2 over {< > & \" ' - ! $ { } e-acute CR LF a b r B} and random strings; `call`: %d random requests "
        "per class (all %d classes), detail/comment/location/header/environ values from the same alphabets, arbitrary custom "
        "templates, rendered and malformed Accept headers, GET/HEAD/odd methods, explicit bodies - status, Content-Type and body "
        "bytes compared.  oracle: every class x every core character and attack fragment in every slot x html/json/plain, all "
        "strings of length<=%d over the 13 core characters in detail/comment/header/environ/location slots of three classes and "
        "a custom template with data, quoted-attribute and comment slots, random requests, random Accept headers; counted "
        "non-trivial = not HEAD." % (per_class, len(names), depth))
    ctx.extra["exhaustive"] = False
    ctx.assume += [
        "caller text is str made of Unicode scalar values (no lone surrogates: the UTF-8 encoding of the plain-text body would raise)",
        "the Accept header is parsed by webob's own parser (C03); the model receives its ranges",
        "Location is taken after urljoin with the request URL (C14's subject)",
        "custom body templates: the structural theorem needs placeholders in character data, quoted attribute values or "
        "comments followed by a non-dash character (wf_html); arbitrary templates are covered by correspondence only",
        "environ values referenced by templates are str",
        "no Accept header is read by webob as the empty header value: nothing acceptable, text/plain",
        "the model is of the REPAIRED generate_response (fixes/C18-generate-response-charset.patch): the generated body is always "
        "UTF-8 and a Content-Type carried by the exception does not pick the encoding; on the unrepaired tree the oracle "
        "reports keys content-type-header:generation-raises / content-type-header:body-not-in-declared-charset",
    ]
    ctx.trusted += [
        "string.Template.safe_substitute, html.escape, str.encode('ascii','xmlcharrefreplace'), json.dumps(ensure_ascii) are "
        "modelled in Gallina and validated by correspondence, not verified",
        "the HTML tokenizer of the theorem (data / tag / quoted attribute value / comment states) is a specification written for "
        "this property; the oracle uses CPython's html.parser on the real bodies",
        "JSON validity: proved for the model's json string encoder against a reference decoder written in Gallina; Python's "
        "json module is tied by correspondence and the oracle's json.loads",
    ]


def replay(ctx, path):
    data = json.load(open(path))
    case = data["case"]
    if isinstance(case, dict) and case.get("kind") == "status_map":
        bad = oracle_status_map()
        if bad:
            print("VIOLATION property=C18 replay=%s" % path)
            for key, msg in bad[:5]:
                print("  (%s) %s" % (key, msg))
            return 1
        print("replay passes on the current tree")
        return 0
    if not isinstance(case, dict) or "cls" not in case:
        print("replay: nothing executable in this file (broken obligation): %s" % data.get("what"))
        return 1
    if "history" in case:
        bad = oracle_history(case)
        if bad:
            print("VIOLATION property=C18 replay=%s" % path)
            for key, msg in bad[:3]:
                print("  (%s) %s" % (key, msg[:1500]))
            return 1
        print("replay passes on the current tree")
        return 0
    res = oracle_case(case)
    if res:
        print("VIOLATION property=C18 replay=%s" % path)
        print("  (%s) %s" % res)
        return 1
    print("replay passes on the current tree")
    return 0
