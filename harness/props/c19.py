"""C19 — Accept-* header objects: canonical text round-trips and `+` composes element lists.

Tie to the source: correspondence of coq/Model/C19_acceptstr.v (str_accept / str_simple, value_to_header_str_*,
add_* for Valid/Invalid/NoHeader x 4 families, fset/fget, quoting pair) with the real classes of
webob.acceptparse on generated headers and operands; plus an oracle on the public API that states the property
with an independent reference parser / formatter (see design_notes/C19.md).
"""
import collections
import copy
import itertools
import json
import os
import re
import subprocess
import sys
import time

from harness import fw
from harness.fw import Err, cstr, clist, cpair, copt
from harness.props import c03

FAMS = ["accept", "charset", "encoding", "language"]
RECENT = collections.deque(maxlen=6000)   # the calls most recently made on the implementation in this process (as oracle cases)
CLS = {"accept": "Accept", "charset": "AcceptCharset", "encoding": "AcceptEncoding", "language": "AcceptLanguage"}
CREATE = {f: c03.FAMILIES[f][5] for f in FAMS}
ATTR = {f: c03.FAMILIES[f][6] for f in FAMS}
KEY = {f: c03.FAMILIES[f][7] for f in FAMS}


# =========================================================================== reference side (independent of webob)
TOK = r"[!#$%&'*+\-.^_`|~0-9A-Za-z]+"
QS = r'"(?:[\t \x21\x23-\x5b\x5d-\x7e\x80-\xff]|\\[\t \x21-\x7e\x80-\xff])*"'
WEIGHT = r"[ \t]*;[ \t]*[qQ]=(?:0(?:\.[0-9]{0,3})?|1(?:\.0{0,3})?)"
PARAM = r"[ \t]*;[ \t]*(?![qQ]=)%s=(?:%s|%s)" % (TOK, TOK, QS)
EXT = r"[ \t]*;[ \t]*%s(?:=(?:%s|%s))?" % (TOK, TOK, QS)
EL = {
    "accept": r"%s/%s(?:%s)*(?:%s(?:%s)*)?" % (TOK, TOK, PARAM, WEIGHT, EXT),
    "charset": r"%s(?:%s)?" % (TOK, WEIGHT),
    "encoding": r"%s(?:%s)?" % (TOK, WEIGHT),
    "language": r"(?:\*|[A-Za-z]{1,8}(?:-[A-Za-z0-9]{1,8})*)(?:%s)?" % WEIGHT,
}


def _hash0(el):
    return r"(?:(?:,|%s)(?:[ \t]*,(?:[ \t]*%s)?)*)?" % (el, el)


def _hash1(el):
    return r"(?:,[ \t]*)*%s(?:[ \t]*,(?:[ \t]*%s)?)*" % (el, el)


REF_RX = {
    "accept": re.compile(_hash0(EL["accept"])),
    "charset": re.compile(_hash1(EL["charset"])),
    "encoding": re.compile(_hash0(EL["encoding"])),
    "language": re.compile(_hash1(EL["language"])),
}


def ref_valid(family, s):
    """RFC 7231 5.3.x ABNF, transcribed independently of webob (the same grammar C03 proves webob's validators equal to)."""
    return isinstance(s, str) and "\n" not in s and REF_RX[family].fullmatch(s) is not None


def ref_elements(family, s):
    """Element list of a valid header text, canonical form: accept -> [range, q1000, [[n, v]..], [name | [n, v]..]]."""
    return c03.ref_parse(family, s)


def ref_qtext(k):
    """weight text for a quality given in thousandths"""
    if k == 1000:
        return None
    if k == 0:
        return "0"
    if 0 < k < 1000:
        return "0." + ("%03d" % k).rstrip("0")
    return "%d.%s" % (k // 1000, (("%03d" % (k % 1000)).rstrip("0") or "0"))


def ref_item_text(family, item):
    """header text denoted by one item of a list / tuple / dict operand"""
    if isinstance(item, str):
        return item
    if family == "accept":
        mr, k = item[0], item[1]
        seg = item[2] if len(item) > 2 else ""
        q = ref_qtext(k)
        if q is None:
            return mr + (";q=1" + seg if seg else "")
        return mr + ";q=" + q + seg
    it, k = item
    q = ref_qtext(k)
    return it if q is None else it + ";q=" + q


def dict_items_sorted(family, items):
    """dict operand: items in descending quality, ties in insertion order"""
    def q(kv):
        return kv[1][0] if isinstance(kv[1], list) else kv[1]
    out = []
    for kv in sorted(items, key=q, reverse=True):
        if isinstance(kv[1], list):
            out.append([kv[0], kv[1][0], kv[1][1]])
        else:
            out.append([kv[0], kv[1]])
    return out


def ref_operand_text(family, op):
    """Header text an operand denotes; None = no header (None / NoHeader object)."""
    t = op["t"]
    if t == "none":
        return None
    if t == "hdr":
        return op["v"]
    if t == "str":
        return op["v"]
    if t in ("list", "tuple"):
        return ", ".join(ref_item_text(family, i) for i in op["items"])
    if t == "dict":
        return ", ".join(ref_item_text(family, i) for i in dict_items_sorted(family, op["items"]))
    raise ValueError(op)


def ref_operand_elements(family, op):
    """What an operand contributes: its elements when it denotes a valid header, nothing otherwise."""
    text = ref_operand_text(family, op)
    if text is None or not ref_valid(family, text):
        return []
    return ref_elements(family, text)


def ref_kind(family, op):
    text = ref_operand_text(family, op)
    if text is None:
        return "noheader"
    return "valid" if ref_valid(family, text) else "invalid"


# =========================================================================== implementation side
def ap():
    from webob import acceptparse
    return acceptparse


def fl(k):
    """quality in thousandths -> the Python number an application would write"""
    if k == 1000:
        return 1.0
    if k == 0:
        return 0.0
    return k / 1000.0


_SUBCLASSES = {}


def sub_classes(family):
    """application subclasses of the three header classes of a family (a configuration webob allows: results of + are built
    with self.__class__, operands are recognised with isinstance)"""
    if family not in _SUBCLASSES:
        A = ap()
        _SUBCLASSES[family] = {k: type("My" + CLS[family] + sfx, (getattr(A, CLS[family] + sfx),), {})
                               for k, sfx in (("valid", "ValidHeader"), ("invalid", "InvalidHeader"), ("noheader", "NoHeader"))}
    return _SUBCLASSES[family]


class StrSub(str):
    pass


class ListSub(list):
    pass


class TupleSub(tuple):
    pass


class DictSub(dict):
    pass


def build_operand(family, op):
    """JSON operand descriptor -> real Python value / header object.
    Optional fields: "sub" (header object of an application subclass), "shape" (same denotation, other Python type:
    strsub / listsub / tuplesub / dictsub / odict / multidict)."""
    t = op["t"]
    if t == "none":
        return None
    if t == "hdr":
        if op.get("sub"):
            sc = sub_classes(family)
            if op["v"] is None:
                return sc["noheader"]()
            try:
                return sc["valid"](op["v"])
            except ValueError:
                return sc["invalid"](op["v"])
        return getattr(ap(), CREATE[family])(op["v"])
    shape = op.get("shape")
    if t == "str":
        return StrSub(op["v"]) if shape == "strsub" else op["v"]
    ints = op.get("ints", False)

    def num(k):
        if ints and k in (0, 1000):
            return k // 1000
        return fl(k)

    def item(i):
        if isinstance(i, str):
            return i
        conv = tuple if op.get("inner", "tuple") == "tuple" else list
        return conv([i[0], num(i[1])] + list(i[2:]))
    if t == "list":
        l = [item(i) for i in op["items"]]
        return ListSub(l) if shape == "listsub" else l
    if t == "tuple":
        l = tuple(item(i) for i in op["items"])
        return TupleSub(l) if shape == "tuplesub" else l
    if t == "dict":
        pairs = [(k, (num(v[0]), v[1]) if isinstance(v, list) else num(v)) for k, v in op["items"]]
        if shape == "multidict":
            from webob.multidict import MultiDict
            return MultiDict(pairs)
        if shape == "odict":
            return collections.OrderedDict(pairs)
        return DictSub(pairs) if shape == "dictsub" else dict(pairs)
    raise ValueError(op)


def q1000(q):
    return int(round(q * 1000))


def canon_parsed(family, parsed):
    if parsed is None:
        return None
    if family == "accept":
        return [[mr, q1000(q), [list(p) for p in params], [list(e) if isinstance(e, tuple) else e for e in exts]]
                for mr, q, params, exts in parsed]
    return [[it, q1000(q)] for it, q in parsed]


def kind_of(family, obj):
    A = ap()
    for k, sfx in (("valid", "ValidHeader"), ("invalid", "InvalidHeader"), ("noheader", "NoHeader")):
        if isinstance(obj, getattr(A, CLS[family] + sfx)):
            return k
    return "other:" + type(obj).__name__


def observe(family, obj):
    """[kind, header_value, parsed (canonical), str(obj)]"""
    return [kind_of(family, obj), obj.header_value, canon_parsed(family, obj.parsed), str(obj)]


def snapshot(family, v):
    if hasattr(v, "header_value"):
        return ("hdr", observe(family, v))
    if hasattr(v, "items"):
        return ("map", type(v).__name__, copy.deepcopy(list(v.items())))
    return ("py", type(v).__name__, copy.deepcopy(v))


def is_empty_valid(family, obj):
    """a VALID header object whose header_value is '' (possible for Accept and Accept-Encoding only)"""
    return hasattr(obj, "header_value") and obj.header_value == "" and kind_of(family, obj) == "valid"


def elements_of(family, obj):
    return canon_parsed(family, obj.parsed) or []


def blank_request(env_extra=None):
    from webob import Request
    env = {"REQUEST_METHOD": "GET", "wsgi.url_scheme": "http", "SERVER_NAME": "h", "SERVER_PORT": "80",
           "PATH_INFO": "/", "SCRIPT_NAME": ""}
    env.update(env_extra or {})
    return Request(env)


# =========================================================================== oracles (return None or (key, message))
def strict_warnings(f):
    """run an oracle with every warning turned into an error: the operations of the statement (create, str, +, copy,
    property get / set / del) must not depend on the process' warning configuration"""
    import functools
    import warnings

    @functools.wraps(f)
    def g(*a, **k):
        import webob                      # noqa: import-time warnings of webob's dependencies (cgi) are not the subject
        import webob.acceptparse          # noqa
        import webob.multidict            # noqa
        import webob.request              # noqa
        with warnings.catch_warnings():
            warnings.simplefilter("error")
            return f(*a, **k)
    return g


@strict_warnings
def oracle_str(family, value):
    """str(h) of a valid header: valid, same elements, fixed point; independent reading agrees."""
    A = ap()
    create = getattr(A, CREATE[family])
    h = create(value)
    if kind_of(family, h) != "valid":
        return None
    hk, hc = create(header_value=value), create(h)      # keyword call; a header object is accepted and copied
    if observe(family, hk) != observe(family, h) or observe(family, hc) != observe(family, h) or hc is h:
        return ("create:argument-shape", "%s(header_value=%r) / %s(<header object>) differ from the positional call" %
                (CREATE[family], value, CREATE[family]))
    try:
        s = str(h)
    except Exception as e:  # noqa
        return ("str:raises", "str(%s(%r)) raised %s" % (CREATE[family], value, type(e).__name__))
    if not ref_valid(family, s):
        return ("str:not-in-grammar", "str of %s header %r is %r, which is not in the RFC grammar" % (family, value, s))
    h2 = create(s)
    if kind_of(family, h2) != "valid":
        return ("str:not-valid", "str of %s header %r is %r, which webob does not accept as valid" % (family, value, s))
    if canon_parsed(family, h2.parsed) != canon_parsed(family, h.parsed):
        return ("str:elements-differ", "%s header %r has elements %r but its str %r parses to %r" %
                (family, value, canon_parsed(family, h.parsed), s, canon_parsed(family, h2.parsed)))
    if str(h2) != s:
        return ("str:not-fixpoint", "str(%r) = %r re-serialises to %r" % (value, s, str(h2)))
    if ref_elements(family, s) != ref_elements(family, value):
        return ("str:reference-elements-differ", "reference reading of %r gives %r but of its str %r gives %r" %
                (value, ref_elements(family, value), s, ref_elements(family, s)))
    if ref_elements(family, s) != canon_parsed(family, h.parsed):
        return ("str:reference-elements-differ", "reference reading of %r gives %r, webob .parsed %r" %
                (s, ref_elements(family, s), canon_parsed(family, h.parsed)))
    # copy(): equal but independent
    c = h.copy()
    if c is h or observe(family, c) != observe(family, h):
        return ("copy:not-equal", "copy() of %s header %r is not an equal, distinct object" % (family, value))
    if c.parsed is h.parsed:
        return ("copy:shares-parsed", "copy() of %s header %r shares its parsed list" % (family, value))
    before = observe(family, h)
    c.parsed.append(("zz", 1.0))
    if observe(family, h) != before:
        return ("copy:not-independent", "mutating copy().parsed of %s header %r changed the original" % (family, value))
    return None


def oracle_quote(v):
    """parameter value v (HTAB / SP / VCHAR / obs-text)* survives quoting and unquoting"""
    A = ap().Accept
    try:
        e = A._escape_and_quote_parameter_value(v)
    except Exception as ex:  # noqa
        return ("quote:raises", "_escape_and_quote_parameter_value(%r) raised %s" % (v, type(ex).__name__))
    if not (re.fullmatch(TOK, e) or re.fullmatch(QS, e)):
        return ("quote:not-token-or-quoted-string", "_escape_and_quote_parameter_value(%r) = %r is neither token nor quoted-string" % (v, e))
    back = A._process_quoted_string_token(e) if (e.startswith('"') and e.endswith('"')) else e
    if back != v:
        return ("quote:not-inverse", "parameter value %r is quoted as %r and unquoted as %r" % (v, e, back))
    if c03.ref_unquote(e) != v:
        return ("quote:not-inverse", "parameter value %r is quoted as %r, which a reference reader unquotes as %r" %
                (v, e, c03.ref_unquote(e)))
    # through a whole header: media type parameter and extension parameter
    hv = "a/b;p=%s;q=0.5;e=%s" % (e, e)
    h = ap().create_accept_header(hv)
    want = [["a/b;p=" + e, 500, [["p", v]], [["e", v]]]]
    if kind_of("accept", h) != "valid" or canon_parsed("accept", h.parsed) != want:
        return ("quote:header-roundtrip", "header %r: parsed %r, expected %r" % (hv, canon_parsed("accept", h.parsed), want))
    if str(h) != hv:
        return ("quote:header-roundtrip", "header %r: str gives %r" % (hv, str(h)))
    # an over-escaped spelling of the same value reads the same and is normalised by str
    raw = '"' + "".join("\\" + c for c in v) + '"'
    h3 = ap().create_accept_header("a/b;p=%s;q=0.5;e=%s" % (raw, raw))
    if kind_of("accept", h3) != "valid" or canon_parsed("accept", h3.parsed) != want or str(h3) != hv:
        return ("quote:quoted-pair-spelling", "all-quoted-pairs spelling of %r: parsed %r str %r" %
                (v, canon_parsed("accept", h3.parsed), str(h3)))
    return None


@strict_warnings
def do_add(family, left, right, mode):
    """perform the addition on real objects; returns (result or Err, snapshots before, snapshots after, lo, ro).
    right = {"t": "same"}: the very same object on both sides; mode "kw": the special methods called with other=..."""
    lo = build_operand(family, left)
    ro = lo if right["t"] == "same" else build_operand(family, right)
    before = (snapshot(family, lo), snapshot(family, ro))
    try:
        if mode == "iadd":
            x = lo
            x += ro
            res = x
        elif mode == "kw":
            res = lo.__add__(other=ro) if hasattr(lo, "header_value") else ro.__radd__(other=lo)
        else:
            res = lo + ro
    except Exception as e:  # noqa
        res = Err(type(e).__name__)
    after = (snapshot(family, lo), snapshot(family, ro))
    return res, before, after, lo, ro


def oracle_add(family, left, right, mode="add"):
    """left + right where at least one side is a header object"""
    if mode == "iadd" and left.get("shape") == "listsub":
        mode = "add"     # `listsub += header` is list.__iadd__ (extends the list by iterating the header): not webob's code
    res, before, after, lo, ro = do_add(family, left, right, mode)
    if right["t"] == "same":
        right = left
    what = "%s: %s %s %s" % (family, json.dumps(left), {"iadd": "+=", "kw": "+ (keyword call)"}.get(mode, "+"), json.dumps(right))
    side = "reflected" if left["t"] != "hdr" else "left"
    cls = "%s-%s-%s" % (ref_kind(family, left) if left["t"] == "hdr" else left["t"],
                        ref_kind(family, right) if right["t"] == "hdr" else right["t"], side)
    empty = is_empty_valid(family, lo) or is_empty_valid(family, ro)
    if isinstance(res, Err):
        return ("add:raises:%s" % ("empty-valid-header-operand" if empty else cls), "%s raised %s" % (what, res.name))
    if before != after:
        return ("add:operand-modified", "%s modified an operand: %r -> %r" % (what, before, after))
    if mode == "iadd" and res is lo and left["t"] == "hdr":
        return ("add:iadd-in-place", "%s returned the left operand itself" % what)
    k = kind_of(family, res)
    if k.startswith("other"):
        return ("add:result-type", "%s returned a %s" % (what, type(res).__name__))
    want = ref_operand_elements(family, left) + ref_operand_elements(family, right)
    got = elements_of(family, res)
    if got != want:
        return ("add:elements:%s" % ("empty-valid-header-operand" if empty else cls),
                "%s gives a %s header %r with elements %r; expected the left operand's elements followed by the right's: %r"
                % (what, k, res.header_value, got, want))
    if want and k != "valid":
        return ("add:result-kind", "%s is %s although it has elements" % (what, k))
    if k == "valid":
        r = oracle_str(family, res.header_value)
        if r:
            return r
    return None


@strict_warnings
def oracle_chain(family, first, steps):
    """acc = header object; then acc = acc + op or acc = op + acc, repeatedly"""
    acc = build_operand(family, first)
    want = ref_operand_elements(family, first)
    what = "%s: %s" % (family, json.dumps(first))
    for side, op in steps:
        o = build_operand(family, op)
        # is a valid header object with header_value '' an operand of THIS step?
        empty = is_empty_valid(family, acc) or is_empty_valid(family, o)
        what += (" + %s" if side == "r" else " (+) reflected %s") % json.dumps(op)
        try:
            acc = (acc + o) if side == "r" else (o + acc)
        except Exception as e:  # noqa
            return ("add:raises:%s" % ("empty-valid-header-operand" if empty else "chain"), "%s raised %s" % (what, type(e).__name__))
        want = (want + ref_operand_elements(family, op)) if side == "r" else (ref_operand_elements(family, op) + want)
        if kind_of(family, acc).startswith("other"):
            return ("add:result-type", "%s returned a %s" % (what, type(acc).__name__))
        got = elements_of(family, acc)
        if got != want:
            return ("add:elements:%s" % ("empty-valid-header-operand" if empty else "chain"),
                    "%s has elements %r, expected %r" % (what, got, want))
    return None


@strict_warnings
def request_class(name):
    from webob import Request
    from webob.request import BaseRequest
    if name == "BaseRequest":
        return BaseRequest
    if name == "MyRequest":
        return type("MyRequest", (Request,), {"charset": "latin-1"})
    return Request


def oracle_property(family, op, pre=None, how="setattr", cls="Request"):
    """request.<attr> = operand stores text that reads back as the equivalent header; None removes; del removes.
    how: setattr | init_kw (Request(environ, attr=value)) | blank_kw (Request.blank('/', attr=value)); cls: request class"""
    attr, key = ATTR[family], KEY[family]
    o = build_operand(family, op)
    before = snapshot(family, o)
    what = "%s: request.%s = %s (%s)" % (cls, attr, json.dumps(op), how)
    R = request_class(cls)
    try:
        if how == "setattr":
            req = R(dict(blank_request({KEY[family]: pre} if pre is not None else None).environ))
            setattr(req, attr, o)
        elif how == "init_kw":
            req = R(dict(blank_request({KEY[family]: pre} if pre is not None else None).environ), **{attr: o})
        else:
            req = R.blank("/", **{attr: o})
    except Exception as e:  # noqa
        return ("property:set-raises", "%s raised %s" % (what, type(e).__name__))
    if snapshot(family, o) != before:
        return ("property:operand-modified", "%s modified the assigned value" % what)
    text = ref_operand_text(family, op)
    if text is None:
        if key in req.environ:
            return ("property:none-does-not-remove", "%s left %s = %r in the environ" % (what, key, req.environ[key]))
    else:
        if key not in req.environ or not isinstance(req.environ[key], str):
            return ("property:not-stored", "%s stored %r" % (what, req.environ.get(key)))
    try:
        back = getattr(req, attr)
    except Exception as e:  # noqa
        return ("property:get-raises", "%s then reading raised %s" % (what, type(e).__name__))
    k, wantk = kind_of(family, back), ref_kind(family, op)
    if k != wantk:
        return ("property:kind", "%s reads back as %s header (%r), expected %s" % (what, k, req.environ.get(key), wantk))
    if elements_of(family, back) != ref_operand_elements(family, op):
        return ("property:elements", "%s reads back with elements %r (stored %r), expected %r" %
                (what, elements_of(family, back), req.environ.get(key), ref_operand_elements(family, op)))
    if op["t"] == "hdr" and back.header_value != op["v"]:
        return ("property:header-object-text", "%s stored %r" % (what, req.environ.get(key)))
    if op["t"] == "hdr" and (back is o):
        return ("property:not-independent", "%s reads back the very same object" % what)
    # a fresh wrapper over the same environ sees the same
    from webob import Request
    back2 = getattr(Request(req.environ), attr)
    if observe(family, back2) != observe(family, back):
        return ("property:fresh-request-differs", "%s: a fresh Request reads %r" % (what, observe(family, back2)))
    # assignment of the result of an addition (+=) through the property
    delattr(req, attr)
    if key in req.environ or kind_of(family, getattr(req, attr)) != "noheader":
        return ("property:del", "del request.%s left %r" % (attr, req.environ.get(key)))
    delattr(req, attr)  # deleting twice is harmless
    return None


@strict_warnings
def oracle_property_iadd(family, pre, op):
    """request.<attr> += operand (get, +, set)"""
    req = blank_request({KEY[family]: pre} if pre is not None else None)
    attr = ATTR[family]
    o = build_operand(family, op)
    empty = is_empty_valid(family, getattr(req, attr)) or is_empty_valid(family, o)
    what = "%s=%r; request.%s += %s" % (KEY[family], pre, attr, json.dumps(op))
    try:
        setattr(req, attr, getattr(req, attr) + o)
    except Exception as e:  # noqa
        return ("add:raises:%s" % ("empty-valid-header-operand" if empty else "property-iadd"), "%s raised %s" % (what, type(e).__name__))
    want = ref_operand_elements(family, {"t": "hdr", "v": pre}) + ref_operand_elements(family, op)
    got = elements_of(family, getattr(req, attr))
    if got != want:
        return ("add:elements:%s" % ("empty-valid-header-operand" if empty else "property-iadd"),
                "%s reads back elements %r, expected %r" % (what, got, want))
    return None


# =========================================================================== outside the statement's domain
class Obj:
    def __init__(self, text):
        self.text = text

    def __str__(self):
        return self.text


def outside_value(family, name):
    """values the statement does not quantify over (other operand types, ill-typed containers, odd qualities, CR / LF,
    text beyond latin-1); second component: may the operation refuse with TypeError / ValueError?"""
    import decimal
    import fractions
    it = {"accept": "a/b", "charset": "utf-8", "encoding": "gzip", "language": "en"}[family]
    other = {"accept": "charset", "charset": "language", "encoding": "charset", "language": "charset"}[family]
    A = ap()
    table = {
        "true": (True, False), "int5": (5, False), "int0": (0, False), "float": (3.5, False),
        "bytes": (it.encode(), False), "bytearray": (bytearray(it.encode()), False),
        "set": ({it}, False), "frozenset": (frozenset([it]), False),
        "generator": ((x for x in [it]), False), "iterator": (iter([it]), False), "range": (range(2), False),
        "obj_valid": (Obj(it), False), "obj_empty": (Obj(""), False), "obj_invalid": (Obj("x y"), False),
        "other_family_valid": (getattr(A, CREATE[other])(it), False), "other_family_noheader": (getattr(A, CREATE[other])(None), False),
        "list_none": ([it, None], True), "list_int": ([5], True), "list_bytes": ([it.encode()], True),
        "tuple_arity1": ([(it,)], True), "tuple_arity4": ([(it, 0.5, "", "")], True), "nested_list": ([[it, [0.5]]], True),
        "dict_mixed_values": ({it: "x", it + "x": 0.5}, True), "dict_none_value": ({it: None}, True),
        "q_nan": ([(it, float("nan"))], False), "q_inf": ([(it, float("inf"))], False), "q_negative": ([(it, -0.5)], False),
        "q_many_decimals": ([(it, 0.12345)], False), "q_exponent": ([(it, 1e-05)], False), "q_str": ([(it, "0.5")], False),
        "q_none": ([(it, None)], False), "q_bool": ([(it, True), (it + "x", False)], False),
        "q_decimal": ([(it, decimal.Decimal("0.25"))], False), "q_fraction": ([(it, fractions.Fraction(1, 2))], False),
        "q_huge_int": ([(it, 10 ** 30)], False),
        "text_trailing_lf": (it + "\n", True), "text_inner_crlf": (it + ",\r\n " + it, True), "text_cr": ("\r" + it, True),
        "list_item_lf": ([it + "\n", it], True),
        "text_nonlatin": (it + "\u0100", False), "text_astral": (it + "\U0001f600", False), "text_surrogate": (it + "\udc80", False),
        "text_nul": (it + "\x00", False), "text_long": (", ".join([it] * 500), False),
    }
    return table[name]


OUTSIDE_NAMES = ["true", "int5", "int0", "float", "bytes", "bytearray", "set", "frozenset", "generator", "iterator", "range",
                 "obj_valid", "obj_empty", "obj_invalid", "other_family_valid", "other_family_noheader", "list_none", "list_int",
                 "list_bytes", "tuple_arity1", "tuple_arity4", "nested_list", "dict_mixed_values", "dict_none_value", "q_nan",
                 "q_inf", "q_negative", "q_many_decimals", "q_exponent", "q_str", "q_none", "q_bool", "q_decimal", "q_fraction",
                 "q_huge_int", "text_trailing_lf", "text_inner_crlf", "text_cr", "list_item_lf", "text_nonlatin", "text_astral",
                 "text_surrogate", "text_nul", "text_long"]
OUTSIDE_HEADERS = {"accept": ["a/b;q=0.5, c/d", "", None, "x y", "a/b\n"], "charset": ["utf-8;q=0.5, *", None, "x y", "utf-8\n"],
                   "encoding": ["gzip;q=0.5, *", "", None, "x y", "gzip\n"], "language": ["en;q=0.5, *", None, "x y", "en\n"]}


def oracle_outside(family, hv, name, side):
    """What remains meaningful outside the statement's domain: the operation either refuses with TypeError / ValueError / LookupError / AttributeError (only
    where the value is ill-typed or carries CR / LF) or returns a header object of the family whose elements begin (reflected:
    end) with the header's own elements; the header object is unchanged; assigning the value to the request property stores a
    str (or removes the key), reads back without raising, and a fresh Request agrees."""
    create = getattr(ap(), CREATE[family])
    h = create(hv)
    value, may_refuse = outside_value(family, name)
    may_refuse = may_refuse or (hv is not None and ("\n" in hv or "\r" in hv))
    base = observe(family, h)
    what = "%s: %r %s <%s>" % (family, hv, {"left": "+", "reflected": "(+) reflected", "iadd": "+=", "property": "assigned:"}[side], name)
    attr, key = ATTR[family], KEY[family]
    try:
        if side == "property":
            req = blank_request()
            setattr(req, attr, value)
            stored = req.environ.get(key, None)
            if stored is not None and not isinstance(stored, str):
                return ("outside:property-stores-non-str", "%s stored %r" % (what, stored))
            back = getattr(req, attr)
            from webob import Request
            if observe(family, getattr(Request(req.environ), attr)) != observe(family, back):
                return ("outside:fresh-request-differs", "%s: a fresh Request reads something else" % what)
            return None
        if side == "left":
            res = h + value
        elif side == "reflected":
            res = value + h
        else:
            x = h
            x += value
            res = x
    except (TypeError, ValueError, LookupError, AttributeError) as e:
        if not may_refuse:
            return ("outside:raises:" + name, "%s raised %s (%s)" % (what, type(e).__name__, e))
        if observe(family, h) != base:
            return ("outside:state-changed", "%s refused but changed the header object" % what)
        return None
    except Exception as e:  # noqa
        return ("outside:raises:" + name, "%s raised %s" % (what, type(e).__name__))
    if observe(family, h) != base:
        return ("outside:state-changed", "%s changed the header object" % what)
    if kind_of(family, res).startswith("other"):
        return ("outside:result-type", "%s returned a %s" % (what, type(res).__name__))
    own, got = elements_of(family, h), elements_of(family, res)
    ok = (got[len(got) - len(own):] == own) if side == "reflected" else (got[:len(own)] == own)
    if own and not ok:
        return ("outside:own-elements-lost", "%s has elements %r, the header's own %r are not kept in place" % (what, got, own))
    return None


# =========================================================================== histories: ONE long-lived object, many calls
RO_ARGS = {"accept": ["text/html", "a/b", "application/json", "text/plain;p=1"], "charset": ["utf-8", "iso-8859-5", "utf-7"],
           "encoding": ["gzip", "identity", "br"], "language": ["en", "en-gb", "de", "fr-CH"]}
STEP_KINDS = ["str", "repr", "add", "radd", "iadd", "add_g", "g_add", "copy", "prop", "ro", "ro2"]


def canon_result(family, r):
    if isinstance(r, Err):
        return ["raises", r.name]
    if hasattr(r, "header_value") and hasattr(r, "parsed"):
        return ["hdr"] + observe(family, r)
    if isinstance(r, (list, tuple)):
        return [canon_result(family, x) for x in r]
    if isinstance(r, float):
        return q1000(r)
    if isinstance(r, (str, int, bool)) or r is None:
        return r
    return repr(r)


def deep_mutate_parsed(obj):
    """scribble over everything reachable from obj.parsed (the list itself and, for Accept, the parameter lists)"""
    p = obj.parsed
    if p is None:
        return
    for item in list(p):
        for part in item:
            if isinstance(part, list):
                part.append(("zz", "scribble"))
                part.reverse()
    p.append(("zz/zz", 0.123, [], []) if p and len(p[0]) == 4 else ("zz", 0.123))
    p.reverse()


def history_step(family, kind, h, g, operand):
    """one call on the objects h (and g); returns a canonical, comparable answer"""
    import warnings
    attr, key = ATTR[family], KEY[family]
    try:
        if kind == "str":
            return str(h)
        if kind == "repr":
            return repr(h)
        if kind == "add":
            return canon_result(family, h + operand)
        if kind == "radd":
            return canon_result(family, operand + h)
        if kind == "iadd":
            x = h
            x += operand
            return [x is h, canon_result(family, x)]
        if kind == "add_g":
            return canon_result(family, h + g)
        if kind == "g_add":
            return canon_result(family, g + h)
        if kind == "copy":
            c = h.copy()
            out = [c is h, canon_result(family, c), c.parsed is not None and c.parsed is h.parsed]
            deep_mutate_parsed(c)
            return out
        if kind == "prop":
            r1, r2 = blank_request(), blank_request({key: "x;;"})
            setattr(r1, attr, h)
            setattr(r2, attr, h)
            setattr(r2, attr, getattr(r2, attr) + operand)
            setattr(r1, attr, g)
            return [r1.environ.get(key), r2.environ.get(key), canon_result(family, getattr(r1, attr)),
                    canon_result(family, getattr(r2, attr))]
        with warnings.catch_warnings():
            warnings.simplefilter("ignore")
            if kind == "ro":      # read-only API calls that walk self.parsed
                out = [bool(h), canon_result(family, list(h.parsed) if h.parsed is not None else None)]
                if family == "language":
                    out.append(canon_result(family, h.basic_filtering(RO_ARGS[family])))
                    out.append(canon_result(family, h.lookup(RO_ARGS[family], default="dflt")))
                else:
                    out.append(canon_result(family, h.acceptable_offers(RO_ARGS[family])))
                return out
            if kind == "ro2":     # the deprecated iteration / containment / quality API
                out = [canon_result(family, list(h)) if h.parsed is not None else None]
                out.append([x in h for x in RO_ARGS[family]])
                out.append(canon_result(family, [h.quality(x) for x in RO_ARGS[family]]))
                out.append(canon_result(family, h.best_match(RO_ARGS[family])))
                return out
    except Exception as e:  # noqa
        return ["raises", type(e).__name__]
    raise ValueError(kind)


def oracle_history(family, hv, gv, steps):
    """Two long-lived header objects h, g and long-lived Python operands serve a sequence of different calls.  After every
    call: h, g and the operands are unchanged; the answer equals the answer of brand-new, identically built objects; the same
    call made again gives the same answer."""
    create = getattr(ap(), CREATE[family])
    h, g = create(hv), create(gv)
    base_h, base_g = observe(family, h), observe(family, g)
    live_ops = {}
    what = "%s: h=%r g=%r" % (family, hv, gv)
    for i, st in enumerate(steps):
        kind, op = st["do"], st.get("op")
        what += " ; %s%s" % (kind, (" " + json.dumps(op)) if op is not None else "")
        if op is None:
            operand = fresh_operand = None
        else:
            k = json.dumps(op, sort_keys=True)
            if k not in live_ops:
                live_ops[k] = build_operand(family, op)
            operand, fresh_operand = live_ops[k], build_operand(family, op)
        want = history_step(family, kind, create(hv), create(gv), fresh_operand)
        got = history_step(family, kind, h, g, operand)
        if observe(family, h) != base_h or observe(family, g) != base_g:
            who = "left/own object" if observe(family, h) != base_h else "other header object"
            return ("history:state-changed:" + kind, "%s -- after step %d the %s changed: %r, was %r" %
                    (what, i, who, observe(family, h) if who.startswith("left") else observe(family, g),
                     base_h if who.startswith("left") else base_g))
        if op is not None and snapshot(family, operand) != snapshot(family, fresh_operand):
            return ("history:operand-modified:" + kind, "%s -- step %d modified its %s operand" % (what, i, op["t"]))
        if got != want:
            return ("history:differs-from-fresh:" + kind, "%s -- step %d on the long-lived objects answers %r, brand-new objects "
                    "answer %r" % (what, i, got, want))
        if kind in ("iadd",) and got[0]:
            return ("add:iadd-in-place", "%s -- += returned the left operand itself" % what)
        if kind == "copy" and (got[0] or got[2]):
            return ("copy:shares-parsed", "%s -- copy() is the same object or shares its parsed list" % what)
        again = history_step(family, kind, h, g, operand)
        if again != got:
            return ("history:not-repeatable:" + kind, "%s -- step %d repeated answers %r, first time %r" % (what, i, again, got))
        if observe(family, h) != base_h or observe(family, g) != base_g:
            return ("history:state-changed:" + kind, "%s -- repeating step %d changed a header object" % (what, i))
    return None


def oracle_order(family, calls, perm):
    """module-level state: the same calls (each on brand-new objects) made in another order give the same answers"""
    create = getattr(ap(), CREATE[family])

    def one(c):
        op = c.get("op")
        return history_step(family, c["do"], create(c["h"]), create(c["g"]), None if op is None else build_operand(family, op))
    first = [one(c) for c in calls]
    second = {}
    for j in perm:
        second[j] = one(calls[j])
    for j, r in enumerate(first):
        if second[j] != r:
            return ("order:answer-depends-on-call-order", "%s: call %d (%s on %r) answers %r when made in order and %r in the order %r"
                    % (family, j, calls[j]["do"], calls[j]["h"], r, second[j], perm))
    return None


def r_history_value(family, rng):
    x = rng.random()
    if x < 0.75:
        return c03.r_header(family, rng)
    if x < 0.85:
        return None
    if x < 0.93:
        return rng.choice(INVALID[family])
    return rng.choice(EMPTYISH[family] or [c03.r_header(family, rng)])


def r_history_steps(family, rng, n):
    pool = [r_operand(family, rng, allow_hdr=False) for _ in range(3)]   # operands recur within one history
    steps = []
    for _ in range(n):
        kind = rng.choice(STEP_KINDS)
        st = {"do": kind}
        if kind in ("add", "radd", "iadd", "prop"):
            st["op"] = rng.choice(pool)
        steps.append(st)
    return steps



# =========================================================================== generators
QK = [1000, 0, 500, 250, 999, 1, 10, 100, 330, 1000, 0, 500]
QK_BAD = [1500, 2000, 1001]
VALUE_ALPHA = ["\\", '"', " ", "\t", "a", "\xe9"]
INVALID = {
    "accept": ["x y", "a/b;q=2", ";", "a", "a/b;;", " a/b", "a/b ", "a/b, ", "\xe9/b", "a/b;q=0.1234"],
    "charset": ["", ",", "x y", "utf-8;q=2", ";", " utf-8", "utf-8 ", "\xe9", "a;q=0.1234", ", "],
    "encoding": ["x y", "gzip;q=2", ";", " gzip", "gzip ", "gzip, ", "\xe9", "a;q=0.1234"],
    "language": ["", ",", "x y", "en;q=2", ";", " en", "en ", "abcdefghi", "en-", "e1", "a;q=0.1234"],
}
EMPTYISH = {"accept": ["", ",", ", ,", ",,"], "encoding": ["", ",", ", ,", ",\t,"], "charset": [], "language": []}


def r_item(family, rng):
    if family == "accept":
        s = rng.choice(c03.TOKENS) + "/" + rng.choice(c03.TOKENS)
        for _ in range(rng.choice([0, 0, 0, 1, 2])):
            s += ";" + rng.choice([t for t in c03.TOKENS if t not in ("q", "Q")]) + "=" + c03.r_value(rng)
        return s
    return rng.choice(c03.LANGS) if family == "language" else rng.choice(c03.TOKENS)


def r_seg(rng):
    return "".join(c03.r_ext(rng) for _ in range(rng.choice([0, 0, 1, 2])))


def r_k(rng):
    return rng.choice(QK_BAD) if rng.random() < 0.06 else rng.choice(QK)


def r_seq_item(family, rng):
    x = rng.random()
    if x < 0.35:
        return c03.r_element(family, rng)
    if x < 0.40:
        return rng.choice(INVALID[family] + ["a/b, c/d", "en, de", ","])
    if family == "accept":
        if x < 0.7:
            return [r_item(family, rng), r_k(rng)]
        return [r_item(family, rng), r_k(rng), r_seg(rng)]
    return [r_item(family, rng), r_k(rng)]


SHAPES = {"str": [None, None, None, "strsub"], "list": [None, None, "listsub"], "tuple": [None, None, "tuplesub"],
          "dict": [None, None, "odict", "multidict", "dictsub"]}


def r_operand(family, rng, allow_hdr=True):
    op = r_operand_plain(family, rng, allow_hdr)
    if op["t"] in SHAPES:
        sh = rng.choice(SHAPES[op["t"]])
        if sh:
            op["shape"] = sh
        if sh == "multidict" and op["items"] and rng.random() < 0.5:
            op["items"].append(list(rng.choice(op["items"])))        # a repeated key, which only a MultiDict can carry
    return op


def r_operand_plain(family, rng, allow_hdr=True):
    x = rng.random()
    if allow_hdr and x < 0.30:
        return r_hdr(family, rng)
    if x < 0.36:
        return {"t": "none"}
    if x < 0.55:
        y = rng.random()
        if y < 0.6:
            return {"t": "str", "v": c03.r_header(family, rng)}
        if y < 0.75:
            return {"t": "str", "v": rng.choice(INVALID[family])}
        if y < 0.9:
            return {"t": "str", "v": rng.choice(EMPTYISH[family] + ["", ","])}
        return {"t": "str", "v": c03.mutate(c03.r_header(family, rng), rng)}
    if x < 0.8:
        n = rng.choice([0, 1, 1, 2, 3])
        return {"t": rng.choice(["list", "tuple"]), "inner": rng.choice(["tuple", "list"]), "ints": rng.random() < 0.3,
                "items": [r_seq_item(family, rng) for _ in range(n)]}
    n = rng.choice([0, 1, 2, 3])
    items, seen = [], set()
    for _ in range(n):
        k = r_item(family, rng)
        if k in seen:
            continue
        seen.add(k)
        if family == "accept" and rng.random() < 0.5:
            items.append([k, [r_k(rng), r_seg(rng)]])
        else:
            items.append([k, r_k(rng)])
    return {"t": "dict", "ints": rng.random() < 0.3, "items": items}


def r_hdr(family, rng):
    op = r_hdr_plain(family, rng)
    if rng.random() < 0.2:
        op["sub"] = True
    return op


def r_hdr_plain(family, rng):
    y = rng.random()
    if y < 0.6:
        return {"t": "hdr", "v": c03.r_header(family, rng)}
    if y < 0.72:
        return {"t": "hdr", "v": None}
    if y < 0.86:
        return {"t": "hdr", "v": rng.choice(INVALID[family])}
    return {"t": "hdr", "v": rng.choice(EMPTYISH[family] or [c03.r_header(family, rng)])}


def fixed_operands(family):
    """the operand table of the statement: every operand kind, valid / invalid / empty"""
    el = {"accept": ["text/html", "a/b;p=\"x y\";q=0.5;e=1"], "charset": ["utf-8", "iso-8859-5;q=0.5"],
          "encoding": ["gzip", "identity;q=0"], "language": ["en-gb", "de;q=0.25"]}[family]
    it = {"accept": "text/plain", "charset": "utf-7", "encoding": "br", "language": "fr-CH"}[family]
    ops = [{"t": "none"}, {"t": "str", "v": ""}, {"t": "str", "v": el[0]}, {"t": "str", "v": ", ".join(el)},
           {"t": "str", "v": INVALID[family][2]}, {"t": "str", "v": ",\t" + el[1] + " ,"},
           {"t": "list", "items": []}, {"t": "tuple", "items": []}, {"t": "dict", "items": []},
           {"t": "list", "items": [el[0]]}, {"t": "tuple", "items": [el[1], [it, 500]]},
           {"t": "list", "inner": "list", "items": [[it, 1000], [it + "x", 0]]},
           {"t": "list", "ints": True, "items": [[it, 1000], [it + "x", 0]]},
           {"t": "list", "items": [el[0], INVALID[family][2]]}, {"t": "tuple", "items": [[it, 1500]]},
           {"t": "dict", "items": [[it, 500], [it + "x", 1000], [it + "y", 500]]},
           {"t": "dict", "items": [[it, 2000]]},
           {"t": "hdr", "v": None}, {"t": "hdr", "v": el[0]}, {"t": "hdr", "v": " ,".join(el) + ","},
           {"t": "hdr", "v": INVALID[family][2]}]
    for e in EMPTYISH[family][:2]:
        ops += [{"t": "hdr", "v": e}, {"t": "str", "v": e}]
    if family == "accept":
        ops += [{"t": "list", "items": [[it, 1000, ";e=1"], [it, 500, ";e=\"a b\";f"], [it, 0, ""]]},
                {"t": "dict", "items": [[it, [500, ";e=1"]], [it + "x", [1000, ""]], [it + "y", 1000]]}]
    return ops


def case_variants(it):
    return list(dict.fromkeys([it, it.upper(), it.capitalize(), it.lower()]))[:3]


def extra_operands(family):
    """configurations and argument shapes beyond the plain table: header objects of application subclasses, the alternative
    Python types with the same denotation, keys / items differing only in case"""
    el = {"accept": ["text/html", "a/b;p=\"x y\";q=0.5;e=1"], "charset": ["utf-8", "iso-8859-5;q=0.5"],
          "encoding": ["gzip", "identity;q=0"], "language": ["en-gb", "de;q=0.25"]}[family]
    it = {"accept": "text/plain", "charset": "utf-7", "encoding": "br", "language": "fr-CH"}[family]
    ops = [{"t": "hdr", "v": ", ".join(el), "sub": True}, {"t": "hdr", "v": INVALID[family][2], "sub": True},
           {"t": "hdr", "v": None, "sub": True},
           {"t": "str", "v": el[1], "shape": "strsub"}, {"t": "str", "v": "", "shape": "strsub"},
           {"t": "list", "items": [el[0], [it, 500]], "shape": "listsub"}, {"t": "list", "items": [], "shape": "listsub"},
           {"t": "tuple", "items": [[it, 0]], "shape": "tuplesub"},
           {"t": "dict", "items": [[it, 500], [it + "x", 1000]], "shape": "odict"},
           {"t": "dict", "items": [], "shape": "odict"},
           {"t": "dict", "items": [[it, 500], [it + "x", 1000], [it, 250]], "shape": "multidict"},
           {"t": "dict", "items": [], "shape": "multidict"},
           {"t": "dict", "items": [[it, 2000]], "shape": "dictsub"},
           {"t": "dict", "items": [[k, q] for k, q in zip(case_variants(it), (500, 1000, 500))]},
           {"t": "list", "items": [it, it.upper(), [it.capitalize(), 500]]}]
    for e in EMPTYISH[family][:1]:
        ops.append({"t": "hdr", "v": e, "sub": True})
    return ops


def values_upto(n):
    for k in range(n + 1):
        for t in itertools.product(VALUE_ALPHA, repeat=k):
            yield "".join(t)


# =========================================================================== Coq literals
IMPORTS = ["Webob.Lib.PyStr", "Webob.Lib.Rx", "Webob.Gen.C03_regexes", "Webob.Model.C03_scan", "Webob.Model.C19_acceptstr"]
FAM_TERM = {"accept": "fam_accept", "charset": "fam_charset", "encoding": "fam_encoding", "language": "fam_language"}
OPND_T = {"accept": "(@opnd aitem adval)", "charset": "(@opnd sitem qnum)", "encoding": "(@opnd sitem qnum)",
          "language": "(@opnd sitem qnum)"}


def cq(k, ints):
    if ints and k in (0, 1000):
        return "(QI %d)" % (k // 1000)
    return "(QF %d)" % k


def c_item(family, i, ints):
    if isinstance(i, str):
        return "(%s %s)" % ("AStr" if family == "accept" else "SStr", cstr(i))
    if family == "accept":
        if len(i) == 2:
            return "(APair %s %s)" % (cstr(i[0]), cq(i[1], ints))
        return "(ATriple %s %s %s)" % (cstr(i[0]), cq(i[1], ints), cstr(i[2]))
    return "(SPair %s %s)" % (cstr(i[0]), cq(i[1], ints))


def c_opnd(family, op):
    t = op["t"]
    if t == "hdr":
        return "(OH %s)" % copt(None if op["v"] is None else cstr(op["v"]))
    if t == "none":
        return "(OV PNone)"
    if t == "str":
        return "(OV (PStr %s))" % cstr(op["v"])
    ints = op.get("ints", False)
    if t in ("list", "tuple"):
        return "(OV (PSeq %s))" % clist(c_item(family, i, ints) for i in op["items"])
    if t == "dict":
        def dv(v):
            if family == "accept":
                if isinstance(v, list):
                    return "(DTup %s %s)" % (cq(v[0], ints), cstr(v[1]))
                return "(DNum %s)" % cq(v, ints)
            return cq(v, ints)
        return "(OV (PDict %s))" % clist(cpair(cstr(k), dv(v)) for k, v in op["items"])
    raise ValueError(op)


# =========================================================================== implementation adaptors for the correspondence
def impl_obs_value(family, value):
    RECENT.append({"kind": "str", "family": family, "value": value})
    k, _, parsed, text = observe(family, getattr(ap(), CREATE[family])(value))
    return [k, parsed, text]


def impl_add(family, left, right):
    RECENT.append({"kind": "add", "family": family, "left": left, "right": right})
    res = do_add(family, left, right, "add")[0]
    if isinstance(res, Err):
        return res
    k, hv, _, text = observe(family, res)
    return [k, hv, text]


def impl_prop(family, op):
    RECENT.append({"kind": "property", "family": family, "op": op, "pre": "x;;"})
    req = blank_request({KEY[family]: "x;;"})
    setattr(req, ATTR[family], build_operand(family, op))
    back = getattr(req, ATTR[family])
    try:
        cp = kind_of(family, back.copy())
    except ValueError:
        cp = Err("ValueError")
    return [req.environ.get(KEY[family]), kind_of(family, back), back.header_value, cp]


def impl_quote(v):
    A = ap().Accept
    e = A._escape_and_quote_parameter_value(v)
    back = A._process_quoted_string_token(e) if (e.startswith('"') and e.endswith('"')) else e
    return [e, back]


def text_ok(s):
    return s is None or ("\n" not in s and "\r" not in s)


def op_ok(op):
    """no CR/LF anywhere (the statement's domain: header field values)"""
    return "\\n" not in json.dumps(op) and "\\r" not in json.dumps(op)


# =========================================================================== the check
def run_oracle(case):
    k = case["kind"]
    f = case.get("family")
    if k == "str":
        return oracle_str(f, case["value"])
    if k == "quote":
        return oracle_quote(case["value"])
    if k == "add":
        return oracle_add(f, case["left"], case["right"], case.get("mode", "add"))
    if k == "chain":
        return oracle_chain(f, case["first"], [tuple(s) for s in case["steps"]])
    if k == "property":
        return oracle_property(f, case["op"], case.get("pre"), case.get("how", "setattr"), case.get("cls", "Request"))
    if k == "outside":
        return oracle_outside(f, case["h"], case["what"], case["side"])
    if k == "property_iadd":
        return oracle_property_iadd(f, case["pre"], case["op"])
    if k == "history":
        return oracle_history(f, case["h"], case["g"], case["steps"])
    if k == "order":
        return oracle_order(f, case["calls"], case["perm"])
    if k == "sequence":
        for c in case["cases"]:
            r = run_oracle(c)
            if r:
                return r
        return None
    raise ValueError(k)


ISOLATED_KEYS = set()


def isolated(case):
    """evaluate one case in a brand-new interpreter (no module-level state left over from earlier cases)"""
    code = ("import json, sys\nfrom harness.props import c19\n"
            "r = c19.run_oracle(json.loads(sys.stdin.read()))\nprint('RESULT ' + json.dumps(r))")
    p = subprocess.run([sys.executable, "-B", "-c", code], input=json.dumps(case), capture_output=True, text=True,
                       cwd=fw.ROOT, env=dict(os.environ, PYTHONWARNINGS="ignore"))
    m = re.search(r"^RESULT (.*)$", p.stdout, flags=re.M)
    return json.loads(m.group(1)) if m else ["isolated-run-failed", (p.stderr or p.stdout)[-300:]]


def check_case(ctx, case, source):
    RECENT.append(case)
    r = run_oracle(case)
    if r:
        what, rcase = r[1], case
        if r[0] not in ISOLATED_KEYS and case.get("kind") != "sequence":
            ISOLATED_KEYS.add(r[0])
            if isolated(case) is None:
                # passes on its own: the failure needs state left behind by earlier calls in the same process
                recent = list(RECENT)
                if not recent or recent[-1] is not case:
                    recent.append(case)
                for k in (30, 300, len(recent)):
                    seq = {"kind": "sequence", "family": case.get("family"), "cases": recent[-k:]}
                    if isolated(seq) is not None:
                        rcase = seq
                        what += ("  [only after the %d preceding calls of this process: state is shared between calls]"
                                 % (len(seq["cases"]) - 1))
                        break
                else:
                    what += "  [passes in a fresh process; depends on calls made earlier in this run]"
        ctx.fail(r[0], what, rcase, True, source)
    return r


def r_add_pair(family, rng):
    l, r = r_operand(family, rng), r_operand(family, rng)
    if l["t"] != "hdr" and r["t"] != "hdr":
        if rng.random() < 0.5:
            l = r_hdr(family, rng)
        else:
            r = r_hdr(family, rng)
    return l, r


# =========================================================================== traceability: what is modelled / regenerated / oracle-only
_PFX = ["Accept", "AcceptCharset", "AcceptEncoding", "AcceptLanguage"]
_ADDI = {"Accept": "_add_instance_and_non_accept_type", "AcceptCharset": "_add_instance_and_non_accept_charset_type",
         "AcceptEncoding": "_add_instance_and_non_accept_encoding_type",
         "AcceptLanguage": "_add_instance_and_non_accept_language_type"}
# mirrored by hand in coq/Model/C19_acceptstr.v (and, for the quoting pair / media range / create, in the C03 model it imports)
MODELLED = (
    ["webob.acceptparse:_item_qvalue_pair_to_header_element",                  # item_q_element, float_repr, dec
     "webob.acceptparse:Accept._escape_and_quote_parameter_value",             # escape_and_quote (C03 model)
     "webob.acceptparse:Accept._process_quoted_string_token",                  # process_quoted / unquote_value (C03 model)
     "webob.acceptparse:Accept._form_media_range",                             # form_media_range (C03 model)
     "webob.acceptparse:Accept._form_extension_params_segment",                # form_ext_segment
     "webob.acceptparse:Accept._iterable_to_header_element"]                   # accept_element
    + ["webob.acceptparse:%s._python_value_to_header_str" % c for c in _PFX]   # accept_value_text / simple_value_text
    + ["webob.acceptparse:%sValidHeader.__str__" % c for c in _PFX]            # str_accept / str_simple
    + ["webob.acceptparse:%sValidHeader.__init__" % c for c in _PFX]           # new_valid (raises ValueError on invalid text)
    + ["webob.acceptparse:%s%s.%s" % (c, k, m) for c in _PFX for k in ("ValidHeader", "NoHeader", "InvalidHeader")
       for m in ("__add__", "__radd__", "copy")]                               # add_hdr / add_val / copy_hdr
    + ["webob.acceptparse:%s%s.%s" % (c, k, _ADDI[c]) for c in _PFX for k in ("ValidHeader", "NoHeader", "InvalidHeader")]
    + ["webob.acceptparse:%sNoHeader.__str__" % c for c in _PFX]               # S_no_header_text
    + ["webob.acceptparse:%sInvalidHeader.__str__" % c for c in _PFX]          # S_invalid_text
    + ["webob.acceptparse:create_accept_header", "webob.acceptparse:create_accept_charset_header",
       "webob.acceptparse:create_accept_encoding_header", "webob.acceptparse:create_accept_language_header",   # create / fget
       "webob.acceptparse:accept_property", "webob.acceptparse:accept_charset_property",
       "webob.acceptparse:accept_encoding_property", "webob.acceptparse:accept_language_property"]            # fget / fset / fdel
)
# translated into coq/Gen/C03_regexes.v on every run (through C03's generator, which this module calls)
REGENERATED = list(c03.REGENERATED)
# exercised by the oracle only (object identity / state, request glue, read-only API interleaved in the histories)
ORACLE_ONLY = (
    ["webob.request:BaseRequest.accept", "webob.request:BaseRequest.accept_charset",
     "webob.request:BaseRequest.accept_encoding", "webob.request:BaseRequest.accept_language"]
    + ["webob.acceptparse:%sValidHeader.%s" % (c, m) for c in _PFX
       for m in ("__repr__", "__bool__", "__iter__", "__contains__", "quality", "best_match")]
    + ["webob.acceptparse:%sValidHeader.acceptable_offers" % c for c in _PFX[:3]]
    + ["webob.acceptparse:AcceptLanguageValidHeader.basic_filtering", "webob.acceptparse:AcceptLanguageValidHeader.lookup"]
    + ["webob.acceptparse:_%sInvalidOrNoHeader" % c for c in _PFX]
)


def gen(ctx):
    """Regenerate coq/Gen/C03_regexes.v through C03's generator.  The generated file starts with a comment naming the
    source tree; when only that line differs (same regexes read from another checkout, e.g. WEBOB_REPO=/tmp/wt-C19) the file
    is left alone, so that a run against a scratch worktree does not invalidate everybody's compiled closure."""
    import os
    path = os.path.join(fw.COQ, "Gen", "C03_regexes.v")
    old = open(path).read() if os.path.exists(path) else None
    orig = fw.write_if_changed

    def write_if_body_changed(p, txt):
        if p == path and old is not None and old.split("\n", 1)[1:] == txt.split("\n", 1)[1:]:
            return False
        return orig(p, txt)
    fw.write_if_changed = write_if_body_changed
    try:
        return c03.gen(ctx)
    finally:
        fw.write_if_changed = orig


def run(ctx):
    ctx.modelled(MODELLED)
    ctx.extra["regenerated_from_source"] = REGENERATED
    ctx.extra["oracle_only"] = ORACLE_ONLY
    ctx.broken += gen(ctx)
    ctx.build(["Props/C19.vo"])
    hist = {}

    def bump(k):
        hist[k] = hist.get(k, 0) + 1
    t_start = time.time()

    # ------------------------------------------------------------------ correspondence
    vals = list(values_upto(ctx.scale(3, 4)))
    vrng = ctx.sub_rng("values")
    vals += ["".join(vrng.choice(VALUE_ALPHA + ["b", ";", ",", "=", "~", "\x7e", "\xff", "!"]) for _ in range(vrng.randrange(4, 9)))
             for _ in range(ctx.scale(80, 1500))]
    vals = list(dict.fromkeys(vals))
    quote_cases = [(cstr(v), impl_quote(v), {"kind": "quote", "value": v}) for v in vals]

    import concurrent.futures as cf
    # (name, fn, cases, in_type): generated serially (deterministic), evaluated by Coq concurrently
    jobs = [("quote", "obs_quote", quote_cases, "str")]
    for family in FAMS:
        rng = ctx.sub_rng("corr-" + family)
        obs = "obs_accept" if family == "accept" else "obs_simple"
        parse_fn = c03.FAMILIES[family][3]
        # ---- str / parsed of header objects built from text
        ws = [c03.r_header(family, rng) for _ in range(ctx.scale(170, 3000))]
        ws += [c03.mutate(w, rng) for w in ws[:ctx.scale(60, 600)]] + EMPTYISH[family] + INVALID[family]
        ws = [w for w in dict.fromkeys(ws) if text_ok(w)]
        cases = [(cstr(w), impl_obs_value(family, w), {"kind": "str", "family": family, "value": w}) for w in ws]
        jobs.append(("str-" + family, "(fun w => %s (create %s (Some w)))" % (obs, parse_fn), cases, "str"))
        # ---- additions
        F = fixed_operands(family)
        pairs = [(l, r) for l in F for r in F if (l["t"] == "hdr" or r["t"] == "hdr")]
        hdrs = [o for o in F if o["t"] == "hdr"]
        X = extra_operands(family)
        pairs += [(h, x) for x in X for h in hdrs[:2] + hdrs[-1:]] + [(x, h) for x in X for h in hdrs[1:3]]
        pairs += [r_add_pair(family, rng) for _ in range(ctx.scale(180, 4000))]
        pairs = [p for p in pairs if op_ok(p[0]) and op_ok(p[1])]
        cases = []
        for l, r in pairs:
            bump("add:%s+%s" % (l["t"], r["t"]))
            cases.append((cpair(c_opnd(family, l), c_opnd(family, r)), impl_add(family, l, r),
                          {"kind": "add", "family": family, "left": l, "right": r}))
        fn = ("(fun c => obs_add_accept (fst c) (snd c))" if family == "accept"
              else "(fun c => obs_add_simple %s (fst c) (snd c))" % FAM_TERM[family])
        jobs.append(("add-" + family, fn, cases, "(%s * %s)" % (OPND_T[family], OPND_T[family])))
        # ---- property assignment, read back, copy
        ops = F + X + [r_operand(family, rng) for _ in range(ctx.scale(120, 3000))]
        ops = [o for o in ops if op_ok(o)]
        cases = [(c_opnd(family, o), impl_prop(family, o), {"kind": "property", "family": family, "op": o, "pre": "x;;"})
                 for o in ops]
        fn = "(obs_prop %s)" % FAM_TERM[family]
        jobs.append(("property-" + family, fn, cases, OPND_T[family]))

    def one(job):
        name, fn, cases, ty = job
        return name, cases, ctx.corr(name, IMPORTS, fn, cases, in_type=ty, shard=80, shard_bytes=60000)

    def evaluate(todo):
        """run the jobs; returns (results, names of the jobs Coq could not evaluate)"""
        n0 = len(ctx.broken)
        with cf.ThreadPoolExecutor(6) as ex:
            res = list(ex.map(one, todo))
        failed = [m.group(1) for b in ctx.broken[n0:] for m in [re.match(r"correspondence (\S+) could not be evaluated", b)] if m]
        return res, failed, n0

    results, failed, n0 = evaluate(jobs)
    if failed and any("inconsistent assumptions" in b for b in ctx.broken[n0:]):
        # another check rebuilt a shared library (Gen/C03_regexes.vo) while the case files were being compiled:
        # bring the closure up to date again and evaluate the affected jobs once more
        import fcntl
        import os
        del ctx.broken[n0:]
        with open(os.path.join(fw.BUILD, "coq.lock"), "w") as lk:
            fcntl.flock(lk, fcntl.LOCK_EX)
            ok, _log = fw.coq_make(["Props/C19.vo"], 1500, tag=ctx.prop)
        if not ok:
            ctx.broken.append("rebuild after a concurrent change of a shared library failed")
        for name in failed:
            ctx.corr_stats.pop(name, None)
        ctx.note("correspondence jobs re-evaluated after a concurrent rebuild of a shared library: %s" % ", ".join(failed))
        again, _f, _n = evaluate([j for j in jobs if j[0] in failed])
        results = [r for r in results if r[0] not in failed] + again
    for name, cases, bad in results:
        for i in bad[:10]:
            if not check_case(ctx, cases[i][2], name):
                ctx.broken.append("correspondence %s: model and implementation disagree on %s (impl %r)" %
                                  (name, json.dumps(cases[i][2]), cases[i][1]))

    # ------------------------------------------------------------------ oracle sweep on the public API
    t_corr = time.time()
    n = nt = 0
    for v in values_upto(ctx.scale(4, 6)):
        n += 1
        nt += 1 if any(c in v for c in '\\" \t') else 0
        check_case(ctx, {"kind": "quote", "value": v}, "oracle-quote")
    ctx.oracle_count("oracle-quote", n, nt)
    for family in FAMS:
        rng = ctx.sub_rng("oracle-" + family)
        n = nt = 0
        for _ in range(ctx.scale(1500, 20000)):
            w = c03.r_header(family, rng)
            n += 1
            nt += 1 if str(getattr(ap(), CREATE[family])(w)) != w else 0
            check_case(ctx, {"kind": "str", "family": family, "value": w}, "oracle-str-" + family)
        ctx.oracle_count("oracle-str-" + family, n, nt)
        n = nt = 0
        F = fixed_operands(family)
        # the whole table, incl. (empty valid header) x (valid / invalid / None / empty operand of every type) x
        # (left, reflected, +=, keyword call)
        todo = [(l, r, m) for l in F for r in F if (l["t"] == "hdr" or r["t"] == "hdr") for m in ("add", "iadd", "kw")]
        hdrs = [o for o in F if o["t"] == "hdr"]
        X = extra_operands(family)
        todo += [(h, x, m) for h in hdrs + [x for x in X if x["t"] == "hdr"] for x in X for m in ("add", "iadd", "kw")]
        todo += [(x, h, m) for h in hdrs + [x for x in X if x["t"] == "hdr"] for x in X for m in ("add", "iadd", "kw")]
        todo += [(h, {"t": "same"}, m) for h in hdrs + [x for x in X if x["t"] == "hdr"] for m in ("add", "iadd", "kw")]
        for _ in range(ctx.scale(3000, 40000)):
            l, r = r_add_pair(family, rng)
            todo.append((l, r, rng.choice(["add", "add", "iadd"])))
        for l, r, m in todo:
            n += 1
            nt += 1 if (ref_operand_elements(family, l) and ref_operand_elements(family, l if r["t"] == "same" else r)) else 0
            check_case(ctx, {"kind": "add", "family": family, "left": l, "right": r, "mode": m}, "oracle-add-" + family)
        ctx.oracle_count("oracle-add-" + family, n, nt)
        n = 0
        for _ in range(ctx.scale(800, 10000)):
            first = r_hdr(family, rng)
            steps = [[rng.choice("rl"), r_operand(family, rng)] for _ in range(rng.randrange(2, 6))]
            n += 1
            check_case(ctx, {"kind": "chain", "family": family, "first": first, "steps": steps}, "oracle-chain-" + family)
        ctx.oracle_count("oracle-chain-" + family, n, n)
        n = 0
        for o in F + X + [r_operand(family, rng) for _ in range(ctx.scale(1000, 12000))]:
            n += 2
            check_case(ctx, {"kind": "property", "family": family, "op": o,
                             "pre": rng.choice([None, "x;;", c03.r_header(family, rng)]),
                             "how": rng.choice(["setattr", "setattr", "init_kw", "blank_kw"]),
                             "cls": rng.choice(["Request", "Request", "BaseRequest", "MyRequest"])}, "oracle-property-" + family)
            check_case(ctx, {"kind": "property_iadd", "family": family, "op": o,
                             "pre": rng.choice([None, "x;;"] + EMPTYISH[family] + [c03.r_header(family, rng)] * 3)},
                       "oracle-property-" + family)
        ctx.oracle_count("oracle-property-" + family, n, n)
        # ---- outside the statement's domain: other operand types, ill-typed containers, odd qualities, CR / LF, non-latin text
        n = 0
        for hv in OUTSIDE_HEADERS[family]:
            for name in OUTSIDE_NAMES:
                for side in ("left", "reflected", "iadd", "property"):
                    if side == "reflected" and name.startswith("other_family"):
                        continue        # the left operand's class decides: not this family's code
                    n += 1
                    check_case(ctx, {"kind": "outside", "family": family, "h": hv, "what": name, "side": side},
                               "oracle-outside-" + family)
        ctx.oracle_count("oracle-outside-" + family, n, n)
        # ---- histories: long-lived objects reused across different calls; call order
        n = nt = 0
        for _ in range(ctx.scale(800, 8000)):
            steps = r_history_steps(family, rng, rng.randrange(4, 10))
            case = {"kind": "history", "family": family, "h": r_history_value(family, rng), "g": r_history_value(family, rng),
                    "steps": steps}
            n += 1
            nt += len(steps)
            check_case(ctx, case, "oracle-history-" + family)
        ctx.oracle_count("oracle-history-" + family, n, nt)
        n = 0
        for _ in range(ctx.scale(100, 1200)):
            calls = []
            for _k in range(rng.randrange(3, 7)):
                st = r_history_steps(family, rng, 1)[0]
                st.update({"h": r_history_value(family, rng), "g": r_history_value(family, rng)})
                calls.append(st)
            calls += [dict(c) for c in calls[:2]]          # the same call again later in the sequence
            perm = list(range(len(calls)))
            rng.shuffle(perm)
            n += 1
            check_case(ctx, {"kind": "order", "family": family, "calls": calls, "perm": perm}, "oracle-order-" + family)
        ctx.oracle_count("oracle-order-" + family, n, n)
    ctx.extra["operand_histogram"] = hist
    ctx.extra["phase_wall_s"] = {"correspondence": round(t_corr - t_start, 1), "oracle": round(time.time() - t_corr, 1)}
    ctx.extra["rule"] = (
        "correspondence: quote = every parameter value of length <= %d over {backslash, quote, SP, TAB, a, e-acute} plus random "
        "longer ones; str-* = grammar-derived valid headers (C03 generator: random OWS, empty elements, quoted-pairs, q spellings "
        "0.50 / 1.000) and one-edit mutants; add-* = the full operand table of the statement (None, '', valid / invalid str, "
        "empty / valid / invalid list, tuple, dict, NoHeader / valid / empty-valid / invalid header objects) squared, restricted to "
        "pairs with a header object on at least one side, plus random pairs; property-* = the same operands assigned to "
        "request.accept*; distinct = distinct Coq input literals.  oracle: the statement evaluated on the public API with an "
        "independent reference parser / formatter: quote values exhaustive to length %d; str round trip; left/right/reflected and "
        "+= additions; chains of 2-5 additions; property assignment, +=, del; histories of 4-9 different calls (str, repr, +, "
        "reflected +, += on a second name, + / reflected + with a second long-lived header object, copy() followed by scribbling "
        "over everything reachable from the copy's parsed list, assignment to two requests, read-only negotiation calls) on ONE "
        "long-lived pair of header objects and long-lived list / dict operands, every answer compared with brand-new objects and "
        "every object re-observed after every call; the same calls in two orders in one process; non-trivial = history steps, "
        "quote values containing a character "
        "that needs quoting, headers whose str differs from their text, additions where both sides contribute elements"
        % (ctx.scale(3, 4), ctx.scale(4, 6)))
    ctx.assume += [
        "header text and operand strings contain no CR/LF and only code points < 256 where str.lower / regex classes matter",
        "qualities written by the application are ints or floats with at most three decimals (k/1000); other floats give text that "
        "is not a valid header and are covered by the oracle only as 'invalid operand contributes nothing'",
        "list / tuple / dict operands contain str items or (item, quality[, extension segment]) tuples as documented",
        "an operand denotes the header text of its items joined with ', ' (dict: descending quality, ties in insertion order); it is "
        "valid when that text is in the RFC grammar",
    ]
    ctx.trusted += [
        "C03: regenerated validator regexes (harness/rxgen.py) and the hand scanners of Model/C03_scan.v, tied to CPython re by the "
        "C03 and C19 correspondences",
        "float repr of k/1000 modelled as the shortest decimal (validated by correspondence for every k in 0..1000 and some above)",
        "Python's binary-operator dispatch (left.__add__ first, then right.__radd__) is mirrored by run_add, not verified",
    ]


def replay(ctx, path):
    data = json.load(open(path))
    case = data["case"]
    if not isinstance(case, dict) or "kind" not in case:
        print("replay: broken obligation, nothing executable: %s" % data.get("what"))
        return 1
    r = run_oracle(case)
    if r:
        print("VIOLATION property=C19 replay=%s" % path)
        print("  (%s) %s" % (r[0], r[1]))
        return 1
    print("replay passes on the current tree")
    return 0
