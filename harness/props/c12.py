"""C12 — typed header attributes of Request and Response: total on input, round-trip on output.

Three voices:
  * Coq theorems (coq/Props/C12.v) about the executable Gallina models coq/Model/C12_*.v;
  * correspondence: the models are evaluated by Coq on generated inputs and compared with the
    recorded outputs of the real webob functions / attributes (ties the theorems to this tree);
  * oracle: the property's statement run directly against the public API for EVERY attribute of
    the two attribute tables (also the ones the Coq model does not reach), exhaustively over
    small token alphabets and randomly beyond, and under several process time zones.

The oracle is written against the statement (RFC wire syntax, half-open/inclusive arithmetic,
proleptic-Gregorian date arithmetic done with datetime.timedelta), not against webob's code.
"""
import datetime
import itertools
import json
import os
import re
import subprocess
import sys
import threading
import time
import traceback
import concurrent.futures as cf

from harness import fw
from harness.fw import Err, catch, cstr, cval, clist, cpair, copt, cZ, cbool

DT = datetime.datetime
TD = datetime.timedelta
UTCZ = datetime.timezone.utc
EPOCH = DT(1970, 1, 1)
EPOCH_AWARE = DT(1970, 1, 1, tzinfo=UTCZ)
ABSENT = "<absent>"
TZS = ["UTC", "America/New_York", "Asia/Kolkata", "Pacific/Apia"]
# fixed "now" used through the webob.datetime_utils._now hook (a naive local wall-clock reading,
# chosen away from any DST transition of the zones above)
FIXED_NOW = [2021, 3, 3, 10, 20, 30]

# ----------------------------------------------------------------------------------------------
# attribute tables (checked against the source on every run by table_check)
# ----------------------------------------------------------------------------------------------
RESP = {
    "allow": ("Allow", "list"), "vary": ("Vary", "list"), "content_language": ("Content-Language", "list"),
    "content_length": ("Content-Length", "int"), "age": ("Age", "int"),
    "content_encoding": ("Content-Encoding", "str"), "content_location": ("Content-Location", "str"),
    "content_md5": ("Content-MD5", "str"), "content_disposition": ("Content-Disposition", "str"),
    "accept_ranges": ("Accept-Ranges", "str"), "location": ("Location", "str"), "pragma": ("Pragma", "str"),
    "server": ("Server", "str"),
    "content_range": ("Content-Range", "content_range"),
    "date": ("Date", "date"), "expires": ("Expires", "date"), "last_modified": ("Last-Modified", "date"),
    "etag": ("ETag", "etag"), "etag_strong": ("ETag", "etag_strong"),
    "retry_after": ("Retry-After", "date_delta"),
    "www_authenticate": ("WWW-Authenticate", "auth"),
    "charset": ("Content-Type", "charset"), "content_type": ("Content-Type", "content_type"),
    "content_type_params": ("Content-Type", "ct_params"),
    "cache_control": ("Cache-Control", "cache_control"),
}
REQ = {
    "authorization": ("HTTP_AUTHORIZATION", "auth"),
    "cache_control": ("HTTP_CACHE_CONTROL", "cache_control"),
    "date": ("HTTP_DATE", "date"), "if_modified_since": ("HTTP_IF_MODIFIED_SINCE", "date"),
    "if_unmodified_since": ("HTTP_IF_UNMODIFIED_SINCE", "date"),
    "if_range": ("HTTP_IF_RANGE", "if_range"),
    "if_match": ("HTTP_IF_MATCH", "etag_matcher"), "if_none_match": ("HTTP_IF_NONE_MATCH", "etag_matcher"),
    "max_forwards": ("HTTP_MAX_FORWARDS", "int"), "content_length": ("CONTENT_LENGTH", "int"),
    "server_port": ("SERVER_PORT", "int"),
    "pragma": ("HTTP_PRAGMA", "str"), "referer": ("HTTP_REFERER", "str"), "user_agent": ("HTTP_USER_AGENT", "str"),
    "range": ("HTTP_RANGE", "range"),
    "content_type": ("CONTENT_TYPE", "req_content_type"), "charset": ("CONTENT_TYPE", "req_charset"),
}
# Response attributes stored through header_getter (one line per field, replace-all on assignment)
HEADER_GETTER_FAMILY = {"allow", "vary", "content_language", "content_length", "age", "content_encoding", "content_location",
                        "content_md5", "content_disposition", "accept_ranges", "location", "pragma", "server", "content_range",
                        "date", "expires", "last_modified", "etag", "retry_after", "www_authenticate"}


def dup_lines(key, n):
    """a header list that already holds the field n times, in different spellings, among other lines"""
    spell = [key, key.lower(), key.upper()]
    out = [["X-Other", "keep"]]
    for i in range(n):
        out.append([spell[i % 3], "old%d" % i])
        if i == 0:
            out.append(["X-Mid", "keep2"])
    return out


def count_lines(r, key):
    return len([1 for k, _ in r.headerlist if k.lower() == key.lower()])


GET_ONLY = {("resp", "etag_strong"), ("req", "charset"), ("req", "if_match"), ("req", "if_none_match")}
# response attributes for which the statement does NOT promise CR/LF refusal
CRLF_EXEMPT = {"content_type", "charset", "cache_control", "content_type_params", "etag_strong"}

# Cache-Control directive attributes: attr -> (directive, kind, side)   (RFC 7234 5.2, RFC 5861)
CC_ATTRS = {
    "max_stale": ("max-stale", "value", "request"), "min_fresh": ("min-fresh", "value", "request"),
    "only_if_cached": ("only-if-cached", "exists", "request"),
    "public": ("public", "exists", "response"), "private": ("private", "value", "response"),
    "no_cache": ("no-cache", "value", None), "no_store": ("no-store", "exists", None),
    "no_transform": ("no-transform", "exists", None),
    "must_revalidate": ("must-revalidate", "exists", "response"),
    "proxy_revalidate": ("proxy-revalidate", "exists", "response"),
    "max_age": ("max-age", "value", None), "s_maxage": ("s-maxage", "value", "response"),
    "s_max_age": ("s-maxage", "value", "response"),
    "stale_while_revalidate": ("stale-while-revalidate", "value", "response"),
    "stale_if_error": ("stale-if-error", "value", "response"),
}

WD = ["Mon", "Tue", "Wed", "Thu", "Fri", "Sat", "Sun"]
MON = ["Jan", "Feb", "Mar", "Apr", "May", "Jun", "Jul", "Aug", "Sep", "Oct", "Nov", "Dec"]
TOKEN = r"[!#$%&'*+.^_`|~0-9A-Za-z-]+"
WIRE = {
    "int": re.compile(r"\A[0-9]+\Z"),
    "list": re.compile(r"\A%s(?:, %s)*\Z" % (TOKEN, TOKEN)),
    "date": re.compile(r"\A(?:Mon|Tue|Wed|Thu|Fri|Sat|Sun), [0-9]{2} (?:Jan|Feb|Mar|Apr|May|Jun|Jul|Aug|Sep|Oct|Nov|Dec) "
                       r"[0-9]{4} [0-9]{2}:[0-9]{2}:[0-9]{2} GMT\Z"),
    "range": re.compile(r"\Abytes=(?:([0-9]+)-([0-9]*)|-([0-9]+))\Z"),
    "content_range": re.compile(r"\Abytes (?:([0-9]+)-([0-9]+)|\*)/(?:([0-9]+)|\*)\Z"),
    "etag": re.compile(r'\A(?:W/)?"[^\r\n]*"\Z'),
    "auth": re.compile(r"\A%s(?: [^\r\n]*)?\Z" % TOKEN),
    "content_type": re.compile(r"\A%s/%s(?:;[^\r\n]*)?\Z" % (TOKEN, TOKEN)),
}


def webob():
    import webob  # noqa
    from webob import Request, Response
    return Request, Response


# configurations ("knobs") the covered code reads: the class (subclass overriding default_charset / the plain
# BaseRequest without the ad-hoc attribute mix-in), default_charset set on the instance after construction
RESP_CFGS = ["default", "sub-latin1", "sub-none", "inst-latin1"]
REQ_CFGS = ["default", "base"]
_CLASSES = {}


def klass(side, cfg):
    Request, Response = webob()
    if not _CLASSES:
        from webob.request import BaseRequest
        _CLASSES["sub-latin1"] = type("Latin1Response", (Response,), {"default_charset": "latin-1"})
        _CLASSES["sub-none"] = type("NoCharsetResponse", (Response,), {"default_charset": None})
        _CLASSES["base"] = BaseRequest
    if side == "resp":
        return _CLASSES.get(cfg, Response)
    return _CLASSES["base"] if cfg == "base" else Request


def new_obj(side, cfg=None, **kw):
    cls = klass(side, cfg)
    r = cls(**kw) if side == "resp" else cls.blank("/", **kw)
    if side == "resp" and cfg == "inst-latin1":
        r.default_charset = "latin-1"
    return r


def default_charset_of(cfg):
    return {"sub-latin1": "latin-1", "inst-latin1": "latin-1", "sub-none": ""}.get(cfg, "UTF-8")


# ----------------------------------------------------------------------------------------------
# plumbing: objects, raw header access, JSON value codec
# ----------------------------------------------------------------------------------------------
def table(side):
    return RESP if side == "resp" else REQ


def mk(side, key, text, lines=None, cfg=None):
    if side == "resp":
        r = new_obj("resp", cfg)
        r.headerlist = ([] if text is None else [(key, text)]) if lines is None else [tuple(p) for p in lines]
    else:
        r = new_obj("req", cfg)
        if text is None:
            r.environ.pop(key, None)
        else:
            r.environ[key] = text
    return r


def raw(side, r, key):
    """the stored header: ABSENT, the text, or a list when several lines are present"""
    if side == "resp":
        vs = [v for k, v in r.headerlist if k.lower() == key.lower()]
        return ABSENT if not vs else (vs[0] if len(vs) == 1 else vs)
    return r.environ.get(key, ABSENT)


def enc_dt(d):
    off = None
    if d.tzinfo is not None:
        off = int(d.utcoffset().total_seconds())
    return {"t": "dt", "v": [d.year, d.month, d.day, d.hour, d.minute, d.second, d.microsecond], "tz": off}


def dec(v):
    """JSON case value -> Python value"""
    from webob.byterange import Range, ContentRange
    t = v["t"]
    x = v.get("v")
    if t in ("int", "str", "float", "none"):
        return x
    if t == "list":
        return [dec(e) if isinstance(e, dict) and "t" in e else e for e in x]
    if t == "tuple":
        return tuple(dec(e) if isinstance(e, dict) and "t" in e else e for e in x)
    if t == "dt":
        tz = None if v.get("tz") is None else datetime.timezone(TD(seconds=v["tz"]))
        return DT(*x, tzinfo=tz)
    if t == "date":
        return datetime.date(*x)
    if t == "struct":
        return time.gmtime(x)
    if t == "td":
        return TD(seconds=x)
    if t == "range_obj":
        return Range(*x)
    if t == "cr_obj":
        return ContentRange(*x)
    if t == "dict":
        return dict(x)
    if t == "auth":
        return (x[0], dict(x[1]) if isinstance(x[1], (dict, list)) and not isinstance(x[1], str) else x[1])
    raise ValueError(v)


def http_date(ts):
    """RFC 7231 IMF-fixdate of a POSIX timestamp, by datetime arithmetic only"""
    d = EPOCH + TD(seconds=ts)
    return "%s, %02d %s %04d %02d:%02d:%02d GMT" % (WD[d.weekday()], d.day, MON[d.month - 1], d.year,
                                                    d.hour, d.minute, d.second)


def instant(value):
    """POSIX second denoted by a date value (naive datetimes are UTC by webob's convention)"""
    if isinstance(value, DT):
        if value.tzinfo is None:
            return (value.replace(microsecond=0) - EPOCH) // TD(seconds=1)
        return (value.replace(microsecond=0) - EPOCH_AWARE) // TD(seconds=1)
    if isinstance(value, datetime.date):
        return (DT(value.year, value.month, value.day) - EPOCH) // TD(seconds=1)
    if isinstance(value, time.struct_time):
        return (DT(*value[:6]) - EPOCH) // TD(seconds=1)
    if isinstance(value, float):
        return int(value // 1)
    return int(value)


class NowHook:
    """webob.datetime_utils._now -> FIXED_NOW while at least one user is inside (re-entrant, thread-safe)"""
    lock = threading.Lock()
    depth = 0
    old = None

    def __enter__(self):
        import webob.datetime_utils as du
        with NowHook.lock:
            if NowHook.depth == 0:
                NowHook.old = du._now
                du._now = lambda: DT(*FIXED_NOW)
            NowHook.depth += 1
        return DT(*FIXED_NOW)

    def __exit__(self, *a):
        import webob.datetime_utils as du
        with NowHook.lock:
            NowHook.depth -= 1
            if NowHook.depth == 0:
                du._now = NowHook.old


# ----------------------------------------------------------------------------------------------
# oracle 1: totality of the getters
# ----------------------------------------------------------------------------------------------
def canonical_type_ok(side, attr, kind, v):
    from webob.byterange import Range, ContentRange
    from webob.cachecontrol import CacheControl
    if v is None:
        return kind not in ("cache_control", "req_content_type", "etag_matcher", "if_range")
    if kind == "int":
        return type(v) is int
    if kind in ("str", "etag", "etag_strong", "charset", "content_type", "req_content_type", "req_charset"):
        return isinstance(v, str)
    if kind == "list":
        return isinstance(v, tuple) and all(isinstance(x, str) for x in v)
    if kind in ("date", "date_delta"):
        return isinstance(v, DT)
    if kind == "range":
        return isinstance(v, Range)
    if kind == "content_range":
        return isinstance(v, ContentRange)
    if kind == "auth":
        return isinstance(v, tuple) and len(v) == 2 and isinstance(v[0], str) and isinstance(v[1], (str, dict))
    if kind == "ct_params":
        return isinstance(v, dict)
    if kind == "cache_control":
        return isinstance(v, CacheControl)
    return True


def classify_total(kind, text, exc, msg):
    """specific key of a totality failure"""
    if "Exceeds the limit" in msg:
        return "total:%s:int-digit-limit" % kind
    if kind == "range" and re.match(r"(?i)\Abytes *= *- *(?!\d)", text or ""):
        return "total:range:no-digits"
    if kind == "int":
        return "total:int:%s" % exc
    if kind in ("date", "if_range", "date_delta"):
        if kind == "date_delta" and re.match(r"\A\s*[-+]?[0-9_]+\s*\Z", text or ""):
            return "total:date_delta:seconds-%s" % exc
        return "total:date:%s" % exc
    return "total:%s:%s" % (kind, exc)


def o_total(case):
    side, attr, text = case["side"], case["attr"], case["text"]
    key, kind = table(side)[attr]
    r = mk(side, key, text, cfg=case.get("cfg"))
    try:
        with NowHook():
            v = getattr(r, attr)
            if kind == "cache_control":
                str(v)
                v.max_age
            if kind == "content_range" and v is not None:
                tuple(v)
    except Exception as e:  # noqa
        return (classify_total(kind, text, type(e).__name__, str(e)),
                "%s.%s raises %s (%s) when %s holds %r" % (side, attr, type(e).__name__, str(e)[:80], key,
                                                          text if text is None or len(text) < 80 else text[:40] + "..."))
    if not canonical_type_ok(side, attr, kind, v):
        return ("total:%s:result-type" % kind,
                "%s.%s returned %r (neither None nor the canonical type) for %r" % (side, attr, v, text))
    return None


# token alphabets per kind; texts are concatenations of tokens
ALPHA = {
    "int": ["0", "1", "9", "-", "+", " ", "_", "a", "\t", "\xa0", ".", "\xe9", "١", "e", "x", "\x1c"],
    "range": ["bytes", "=", "-", "0", "5", "12", " ", ",", "B", "*", "/", "x", "٥", "ſ", "bYtEs"],
    "content_range": ["bytes", " ", "0", "4", "9", "10", "-", "/", "*", "x", "٥", "Bytes"],
    "date": ["Mon,", "Monday,", " ", "01", "31", "0", "99", "Jan", "Feb", "2020", "1970", "9999", "10000", "99999",
             "00:00:00", "23:59:60", "24:61:61", "GMT", "+0500", "-9999", "+99999999999999999999", "EST", "-", ",", ":",
             "\xe9", "1", "(", ")"],
    "list": [",", " ", "a", "b", "\t", "\xe9", "GET", ";"],
    "auth": ["Basic", "Digest", "Foo", " ", "a", "b", "=", '"', ",", "\t", "\xe9", "\n", "realm", "A"],
    "cache_control": ["max-age", "=", "5", '"', ",", " ", ";", "public", "x", "-", "\t", "\xe9", "1_0", "private",
                      "\xa0", "99999999999999999999"],
    "content_type": ["text/html", ";", " ", "charset", "=", "utf-8", '"', "x", "CHARSET", "a", ",", "\t", "ſ",
                     "application/xml", "\\", "-", "+"],
    "etag": ["W/", '"', "a", "\\", " ", ",", "*", "\t", "w/"],
    "str": ["a", " ", "\xe9", "€", ",", ";", '"'],
}
KIND_ALPHA = {"date_delta": "date", "if_range": "date", "etag_strong": "etag", "etag_matcher": "etag",
              "charset": "content_type", "ct_params": "content_type", "req_content_type": "content_type",
              "req_charset": "content_type"}

SPECIAL = {
    "int": ["", "abc", "9" * 20, "1" * 4300, "1" * 4301, "0" * 5000, " 12 ", "0x10", "1e3", "\xb2", "12\n", "+5", "-0",
            "1_000", "１２", "١٢", "1" * 100000, "\x00", "١" * 4301],
    "range": ["bytes=-", "bytes= - ", "bytes=0-" + "1" * 4301, "bytes=" + "9" * 4301 + "-", "bytes=-" + "9" * 5000,
              "bytes=0-4", "bytes=-5", "bytes=5-", "bytes=5-3", "bytes=0-0", "bytes=0-4,6-9", "BYTES = 0 - 4", "bytes=a-b",
              "items=0-4", "", "bytes", "bytes=", "bytes=--1", "bytes=-٥"],
    "content_range": ["bytes */*", "bytes 0-4/10", "bytes 0-4/*", "bytes */10", "bytes 0-49/10", "bytes 4-0/10",
                      "bytes 0-4/" + "1" * 4301, "bytes " + "9" * 4301 + "-" + "9" * 4302 + "/*", "bytes 0-" + "9" * 5000 + "/*",
                      "bytes 0-4", "", " ", "bytes  0-4/10", "bytes 0-4/10garbage", "BYTES 0-4/10", "bytes -1-4/10"],
    "date": ["", "Mon, 01 Jan 2020 00:00:00 GMT", "Mon, 01 Jan 99999 00:00:00 GMT", "Mon, 01 Jan 10000 00:00:00 GMT",
             "Mon, 01 Jan 0 00:00:00 GMT", "Mon, 01 Jan 0000 00:00:00 GMT", "Mon, 01 Jan 0001 00:00:00 -0001",
             "Fri, 31 Dec 9999 23:59:59 -0001", "Mon, 01 Jan 2001 00:00:00 +999999999999999999999",
             "Mon, 01 Jan 2001 00:00:00 -999999999999", "Mon, 99 Jan 2001 99:99:99 GMT", "Mon, 01 Jan " + "9" * 400 + " 00:00:00 GMT",
             "Mon, 01 Jan " + "9" * 5000 + " 00:00:00 GMT", "Sunday, 06-Nov-94 08:49:37 GMT", "Sun Nov  6 08:49:37 1994",
             "9" * 20, "9" * 10, "-" + "9" * 20, "1" * 4301, "0", "-1", "120", " 120 ", "1_0", "1e3", "31 Dec 9999 23:59:59 -2359",
             "1 Jan 1 00:00 +2359", "01 Jan 1970 00:00:00 GMT", "Thu, 01 Jan 1970 00:00:00", "Jan", "GMT", ",", "Mon, 31 Feb 2020 00:00:00 GMT",
             "Mon, 00 Jan 2020 00:00:00 GMT", "Mon, 1 Jan 20 0:0:0 GMT", "Mon, 01 Jan 2020 00:00:00 " + "+" * 50,
             "\xe9\xe9", "€", "1 Jan 2020 1:2", "1 Jan 2020 1.2.3 GMT", "99999999999999999999 Jan 2020", "1 Jan 2020 99999999999999999999:0 GMT"],
    "list": ["", ",", " , ", "a", "a,b", "a, b", " a ,, b ", "\xe9", ",,,"],
    "auth": ["", "Basic", "Basic ", "Basic abc==", 'Basic "x"', "Digest", 'Digest a="b", c=d', 'Digest a="b', "Digest a=", "Digest =",
             'Digest a="b"c", d=e', "Digest a = b , c", "Foo bar", " Basic x", "Digest " + "a=b, " * 50, 'Digest a="\n"', "Digest a=\n,b=c",
             'Digest a="x", b="y"', 'Digest a="x" , b="y", c="z"', 'Digest a="x"y", b="z"', 'Digest a="x",b="y" ', 'Digest a="x", b="y"z'],
    "cache_control": ["", "max-age=5", "public, max-age=5", 'private="a, b"', 'x="', "123", ",", "max-age=" + "1" * 4301,
                      "max-age=1_0", 'max-age=" 5 "', "a=b=c", "MAX-AGE=5", "max-age =5", "max-age= 5", "no-cache, no-cache=x",
                      "\xe9=5", "a-", "a_b=c", "a\xa0=5"],
    "content_type": ["", "text/html", "text/html; charset=utf-8", 'text/html; charset="utf-8"', "text/html;charset=UTF-8;x=y",
                     "text/html; CHARSET=a", ";", "; charset=", "text/html; x", 'text/html; x="a;b"; y=1', "text/html ; charset = x",
                     "charset=x", 'text/html; a="b', "text/html; charset=a; charset=b", ";;;", "text/html;\tcharset=x", "a=b"],
    "etag": ["", '"a"', 'W/"a"', "a", '"a', 'a"', '"a\\"', '"a\\"b"', '"a", "b"', "*", ' "a"', 'w/"a"', '""', '"', 'W/', '"a" "b"'],
    "str": ["", "a", "\xe9"],
}


def total_texts(kind, depth, rng, nrand):
    """adversarial header texts for a kind: specials, every token sequence up to `depth`, random longer ones"""
    akey = kind if kind in ALPHA else KIND_ALPHA.get(kind, "str")
    alpha = ALPHA[akey]
    seen = set()
    out = []

    def add(t):
        if t not in seen:
            seen.add(t)
            out.append(t)

    for t in SPECIAL.get(akey, []):
        add(t)
    if kind in ("date_delta",):
        for t in SPECIAL["int"]:
            add(t)
    for d in range(0, depth + 1):
        for combo in itertools.product(alpha, repeat=d):
            add("".join(combo))
    # mutation of valid texts + random token strings
    valid = [t for t in SPECIAL.get(akey, []) if t]
    for _ in range(nrand):
        if valid and rng.random() < 0.5:
            t = list(rng.choice(valid)[:60])
            for _ in range(rng.randrange(1, 4)):
                p = rng.randrange(len(t) + 1)
                c = rng.random()
                if c < 0.4 and t:
                    del t[min(p, len(t) - 1)]
                elif c < 0.8:
                    t[p:p] = list(rng.choice(alpha))
                elif t:
                    t[min(p, len(t) - 1)] = rng.choice(alpha)[:1] or "0"
            add("".join(t))
        else:
            add("".join(rng.choice(alpha) for _ in range(rng.randrange(depth + 1, depth + 8))))
    return out


# ----------------------------------------------------------------------------------------------
# oracle 2: set a valid value, read it back, single line in wire syntax, None / del remove
# ----------------------------------------------------------------------------------------------
def expect(kind, value, now):
    """(expected header text or None when only the syntax is fixed, predicate on the value read back, description)"""
    from webob.byterange import Range, ContentRange
    if kind == "str":
        return value, (lambda g: g == value), repr(value)
    if kind == "int":
        return str(value), (lambda g: type(g) is int and g == value), repr(value)
    if kind == "list":
        toks = tuple(v.strip() for v in value.split(",")) if isinstance(value, str) else tuple(value)
        toks = tuple(t for t in toks if t)
        return ", ".join(toks) if not isinstance(value, str) else None, (lambda g: g == toks), repr(toks)
    if kind in ("date", "date_delta", "if_range"):
        if kind == "date_delta" and isinstance(value, (int, float)) and not isinstance(value, bool):
            want = now + TD(seconds=int(value))          # the instant, as naive local wall-clock time ...
            want_utc = EPOCH_AWARE + TD(seconds=int(time.mktime(now.timetuple())) + int(value))   # ... and as aware UTC
            return str(int(value)), (lambda g: (g == want) if g.tzinfo is None else (g == want_utc)), repr(want_utc)
        if isinstance(value, TD):
            ts = int(time.mktime(now.timetuple())) + value.days * 86400 + value.seconds
        else:
            ts = instant(value)
        want = EPOCH_AWARE + TD(seconds=ts)
        if kind == "if_range":
            return http_date(ts), (lambda g: getattr(g, "date", None) == want and g.date.utcoffset() == TD(0)), "IfRangeDate(%r)" % want
        return http_date(ts), (lambda g: isinstance(g, DT) and g.tzinfo is not None and g.utcoffset() == TD(0) and g == want), repr(want)
    if kind == "range":
        if isinstance(value, str):
            m = WIRE["range"].match(value)
            s, e = (int(m.group(1)), int(m.group(2)) + 1 if m.group(2) else None) if m.group(1) is not None else (-int(m.group(3)), None)
        else:
            s, e = tuple(value)
        hdr = "bytes=%d-%d" % (s, e - 1) if e is not None else ("bytes=%d-" % s if s >= 0 else "bytes=%d" % s)
        return hdr, (lambda g: isinstance(g, Range) and (g.start, g.end) == (s, e)), repr((s, e))
    if kind == "content_range":
        if isinstance(value, str):
            m = WIRE["content_range"].match(value)
            s, e = (None, None) if m.group(1) is None else (int(m.group(1)), int(m.group(2)) + 1)
            l = None if m.group(3) is None else int(m.group(3))
        else:
            t = tuple(value)
            s, e, l = t if len(t) == 3 else (t + (None,))
        hdr = "bytes %s/%s" % ("*" if s is None else "%d-%d" % (s, e - 1), "*" if l is None else "%d" % l)
        return hdr, (lambda g: isinstance(g, ContentRange) and (g.start, g.stop, g.length) == (s, e, l)), repr((s, e, l))
    if kind == "etag":
        tag, strong = (value, True) if isinstance(value, str) else value
        return None, (lambda g: g == tag), repr(tag)
    if kind == "auth":
        if isinstance(value, str):
            a, _, p = value.partition(" ")
            return value, (lambda g: g is not None and g[0] == a), repr(a)
        return None, (lambda g: g is not None and tuple(g) == (value[0], value[1])), repr(value)
    if kind in ("content_type", "req_content_type"):
        mt = value.split(";", 1)[0]
        return None, (lambda g: g == mt), repr(mt)
    if kind == "charset":
        return None, (lambda g: g == value), repr(value)
    if kind == "ct_params":
        return None, (lambda g: g == value), repr(value)
    raise ValueError(kind)


def wire_ok(kind, hdr, value):
    w = {"date_delta": "date", "if_range": "date", "req_content_type": "content_type", "charset": "content_type",
         "ct_params": "content_type"}.get(kind, kind)
    if kind == "date_delta" and isinstance(value, (int, float)):
        w = "int"
    if kind == "if_range" and isinstance(value, str):
        w = "etag"
    if kind == "list" and isinstance(value, str):
        return bool(re.match(r"\A[ \t]*%s(?:[ \t]*,[ \t]*%s)*[ \t]*\Z" % (TOKEN, TOKEN), hdr))
    rx = WIRE.get(w)
    return rx is None or bool(rx.match(hdr))


def is_valid_value(kind, v):
    """does the statement's round-trip clause speak about this (kind, JSON value)?"""
    t, x = v["t"], v.get("v")
    try:
        if kind == "int":
            return t == "int" and 0 <= x < 10 ** 4300
        if kind == "str":
            return t == "str" and "\n" not in x and "\r" not in x
        if kind == "list":
            if t == "str":
                return bool(re.match(r"\A[ \t]*%s(?:[ \t]*,[ \t]*%s)*[ \t]*\Z" % (TOKEN, TOKEN), x))
            return t in ("list", "tuple") and len(x) > 0 and all(isinstance(e, str) and re.match(r"\A%s\Z" % TOKEN, e) for e in x)
        if kind == "range":
            if t == "str":
                return bool(WIRE["range"].match(x))
            if t in ("tuple", "list", "range_obj") and len(x) == 2 and isinstance(x[0], int):
                return (x[0] >= 0 and (x[1] is None or (isinstance(x[1], int) and x[1] > x[0]))) or (x[0] < 0 and x[1] is None)
            return False
        if kind == "content_range":
            if t == "str":
                m = WIRE["content_range"].match(x)
                if not m:
                    return False
                x = [None, None] if m.group(1) is None else [int(m.group(1)), int(m.group(2)) + 1]
                x.append(None if m.group(3) is None else int(m.group(3)))
            if len(x) == 2:
                x = list(x) + [None]
            if len(x) != 3:
                return False
            a, b, c = x
            if a is None and b is None:
                return c is None or c >= 0
            if a is None or b is None:
                return False
            return 0 <= a < b and (c is None or b <= c)
        if kind == "auth":
            if t == "str":
                return "\n" not in x and "\r" not in x
            if t == "auth":
                if isinstance(x[1], str):
                    return x[0] not in ("Digest", "WSSE", "HMACDigest", "GoogleLogin", "Cookie", "OpenID") and \
                        not (x[0] == "Basic" and '"' in x[1]) and "\n" not in x[1] and " " not in x[0]
                return x[0] in ("Digest", "WSSE", "HMACDigest", "GoogleLogin", "Cookie", "OpenID") and \
                    all(re.match(r"\A[a-z]+\Z", k) and '"' not in w and "\n" not in w and "\r" not in w for k, w in dict(x[1]).items())
            return False
        if kind in ("date", "date_delta"):
            if t == "dt":
                d = dec(v)
                ts = instant(d)
                return d.year >= 100 and -62135596800 <= ts <= 253402300799
            if t == "date":
                return x[0] >= 100
            if t == "td":
                return True
            if t == "int":
                return 0 <= x <= 253402300799 if kind == "date" else 0 <= x < 10 ** 9
    except Exception:  # noqa
        return False
    return False


def o_rt(case):
    side, attr = case["side"], case["attr"]
    key, kind = table(side)[attr]
    if case.get("lenient") and not is_valid_value(kind, case["value"]):
        return None
    value = dec(case["value"])
    init = case.get("init")
    lines = case.get("lines") if side == "resp" else None
    cfg = case.get("cfg")
    r = mk(side, key, init, lines, cfg)
    family = side == "resp" and attr in HEADER_GETTER_FAMILY
    others = None if lines is None else [list(kv) for kv in lines if kv[0].lower() != key.lower()]
    tag = "%s.%s" % (side, attr)
    if lines is not None:
        tag += " (header list starting as %r)" % (lines,)
    if cfg:
        tag += " [%s]" % cfg
    with NowHook() as now:
        try:
            if case.get("via") == "ctor":
                # the same assignment made through the constructor keyword (Response(**kw) / Request.blank(path, **kw))
                tag += " given as constructor keyword"
                r = new_obj(side, cfg, **{attr: value})
            else:
                setattr(r, attr, value)
        except Exception as e:  # noqa
            return ("roundtrip:%s:set-raises-%s" % (kind, type(e).__name__),
                    "%s = %r raises %s: %s" % (tag, value, type(e).__name__, str(e)[:100]))
        hdr = raw(side, r, key)
        if family and isinstance(hdr, list):
            return ("single-header:%s:duplicate-lines-survive" % attr,
                    "%s = %r leaves %d lines of %s: %r (exactly one expected)" % (tag, value, len(hdr), key, hdr))
        if not isinstance(hdr, str) or hdr == ABSENT:
            return ("roundtrip:%s:not-one-line" % kind, "%s = %r stored %r under %s" % (tag, value, hdr, key))
        if "\r" in hdr or "\n" in hdr:
            return ("single-line:%s" % kind, "%s = %r stored a header with CR/LF: %r" % (tag, value, hdr))
        want_hdr, pred, want = expect(kind, value, now)
        if want_hdr is not None and hdr != want_hdr:
            sub = ":timedelta" if isinstance(value, TD) else (":aware" if isinstance(value, DT) and value.tzinfo is not None else "")
            return ("wire:%s%s" % (kind if not sub else "date", sub), "%s = %r stored %s: %r, the wire form of that value is %r (TZ=%s)"
                    % (tag, value, key, hdr, want_hdr, os.environ.get("TZ")))
        if not wire_ok(kind, hdr, value):
            return ("wire:%s:syntax" % kind, "%s = %r stored %r which is not in the field's wire syntax" % (tag, value, hdr))
        try:
            got = getattr(r, attr)
        except Exception as e:  # noqa
            return ("roundtrip:%s:get-raises-%s" % (kind, type(e).__name__),
                    "%s = %r then reading raises %s: %s" % (tag, value, type(e).__name__, str(e)[:100]))
        if not pred(got) and kind == "ct_params" and isinstance(value, dict):
            bad = [k for k in value if not isinstance(got, dict) or got.get(k) != value[k]]
            k = bad[0] if bad else next(iter(value))
            sub = ("token-name" if not re.match(r"\A[A-Za-z0-9]+\Z", k) else
                   "quoted-pair" if ('"' in value[k] or "\\" in value[k]) else
                   "unquoted-value" if '"' not in hdr.split(";", 1)[-1] else "quoted-value")
            return ("roundtrip:ct_params:" + sub, "%s = %r (header %r) reads back %r" % (tag, value, hdr, got))
        if not pred(got):
            sub = ":aware" if isinstance(value, DT) and value.tzinfo is not None else ""
            return ("roundtrip:%s%s" % (kind if not sub else "date", sub), "%s = %r (header %r) reads back %r, expected %s (TZ=%s)"
                    % (tag, value, hdr, got if kind != "if_range" else getattr(got, "date", got), want, os.environ.get("TZ")))
        if kind == "etag" and not isinstance(value, str):
            es = r.etag_strong
            if (es == value[0]) != bool(value[1]):
                return ("roundtrip:etag:strong-flag", "%s = %r: etag_strong is %r" % (tag, value, es))
        # None removes
        if attr == "server_port":
            return None
        removed = (lambda: raw(side, r, key) == ABSENT)
        if kind in ("charset", "ct_params"):
            ct = r.content_type
            removed = (lambda: (r.charset is None if kind == "charset" else r.content_type_params == {}) and r.content_type == ct)
        try:
            setattr(r, attr, None)
        except Exception as e:  # noqa
            return ("none-removes:%s:raises" % kind, "%s = None raises %s" % (tag, type(e).__name__))
        if not removed():
            if family and lines is not None:
                return ("single-header:%s:duplicate-lines-survive" % attr,
                        "%s = None leaves %s: %r (no line expected)" % (tag, key, raw(side, r, key)))
            return ("none-removes:%s" % kind, "%s = None leaves %s: %r" % (tag, key, raw(side, r, key)))
        try:
            if getattr(r, attr):
                return ("none-removes:%s:still-readable" % kind, "%s reads %r after = None" % (tag, getattr(r, attr)))
        except Exception as e:  # noqa
            return ("none-removes:%s:get-raises" % kind, "%s raises %s after = None" % (tag, type(e).__name__))
        # del removes
        try:
            setattr(r, attr, value)
            delattr(r, attr)
        except Exception as e:  # noqa
            return ("del-removes:%s:raises" % kind, "del %s raises %s" % (tag, type(e).__name__))
        if not removed():
            if family and lines is not None:
                return ("single-header:%s:duplicate-lines-survive" % attr,
                        "del %s leaves %s: %r (no line expected)" % (tag, key, raw(side, r, key)))
            return ("del-removes:%s" % kind, "del %s leaves %s: %r" % (tag, key, raw(side, r, key)))
        if family and getattr(r, attr) is not None:
            return ("del-removes:%s:still-readable" % kind, "%s reads %r after del" % (tag, getattr(r, attr)))
        if others is not None and [list(kv) for kv in r.headerlist] != others:
            return ("single-header:%s:other-lines-disturbed" % attr, "%s: set / None / del changed the other lines: %r -> %r"
                    % (tag, others, [list(kv) for kv in r.headerlist]))
    return None


def valid_values(kind, rng, n, bound):
    """JSON-encoded valid Python values for an attribute kind"""
    out = []
    tok = ["a", "GET", "x-y", "Accept-Encoding", "en", "fr-CA", "*", "b1"]
    if kind == "str":
        out += [{"t": "str", "v": v} for v in ["a", "gzip", "a b, c; d=\"e\"", "\xe9t\xe9", "http://x/y?z=1", "", " x "]]
    elif kind == "int":
        out += [{"t": "int", "v": v} for v in list(range(0, bound + 1)) + [255, 256, 65535, 2 ** 31, 2 ** 63, 2 ** 64 + 1, 10 ** 100,
                                                                          10 ** 4299, 10 ** 4300 - 1]]
        out += [{"t": "int", "v": rng.randrange(10 ** rng.randrange(1, 40))} for _ in range(n)]
    elif kind == "list":
        for k in range(1, 4):
            for combo in itertools.product(tok[:5], repeat=k):
                out.append({"t": "list", "v": list(combo)})
                out.append({"t": "tuple", "v": list(combo)})
        out += [{"t": "str", "v": v} for v in ["GET", "GET, POST", "a,b", " a , b "]]
        out += [{"t": "list", "v": [rng.choice(tok) for _ in range(rng.randrange(1, 6))]} for _ in range(n)]
    elif kind == "range":
        for s in range(0, bound + 1):
            out.append({"t": "tuple", "v": [s, None]})
            out.append({"t": "range_obj", "v": [s, None]})
            for e in range(s + 1, bound + 2):
                out.append({"t": "tuple", "v": [s, e]})
                out.append({"t": "list", "v": [s, e]})
                out.append({"t": "range_obj", "v": [s, e]})
                out.append({"t": "str", "v": "bytes=%d-%d" % (s, e - 1)})
        for s in range(1, bound + 1):
            out.append({"t": "tuple", "v": [-s, None]})
            out.append({"t": "range_obj", "v": [-s, None]})
            out.append({"t": "str", "v": "bytes=-%d" % s})
        for _ in range(n):
            s = rng.randrange(10 ** rng.randrange(1, 30))
            out.append({"t": "tuple", "v": [s, s + 1 + rng.randrange(10 ** rng.randrange(1, 30))]})
            out.append({"t": "tuple", "v": [-s - 1, None]})
    elif kind == "content_range":
        for l in list(range(0, bound + 1)) + [None]:
            out.append({"t": "tuple", "v": [None, None, l]})
            out.append({"t": "cr_obj", "v": [None, None, l]})
            top = bound if l is None else l
            for s in range(0, top):
                for e in range(s + 1, top + 1):
                    out.append({"t": "tuple", "v": [s, e, l]})
                    out.append({"t": "cr_obj", "v": [s, e, l]})
                    if l is None:
                        out.append({"t": "tuple", "v": [s, e]})
                        out.append({"t": "list", "v": [s, e]})
                    out.append({"t": "str", "v": "bytes %d-%d/%s" % (s, e - 1, "*" if l is None else l)})
        for _ in range(n):
            l = rng.randrange(1, 10 ** rng.randrange(1, 30))
            s = rng.randrange(l)
            e = rng.randrange(s + 1, l + 1)
            out.append({"t": "tuple", "v": [s, e, rng.choice([l, None])]})
    elif kind == "etag":
        alpha = ["a", "b", " ", "\\", "W", "/", ",", "\xe9", "*"]
        for k in range(1, 4):
            for combo in itertools.product(alpha, repeat=k):
                out.append({"t": "str", "v": "".join(combo)})
        out = out[: max(300, n)]
        out += [{"t": "tuple", "v": ["abc", True]}, {"t": "tuple", "v": ["abc", False]}, {"t": "tuple", "v": ["a b", False]}]
    elif kind == "auth":
        keys = ["realm", "nonce", "qop", "a"]
        vals = ["x", "a b", "a, b", "x=y", "", " pad ", "\xe9", "a\\b", "it's", "b=\\", "a,b"]
        for k in keys[:2]:
            for v in vals:
                out.append({"t": "auth", "v": ["Digest", {k: v}]})
        for _ in range(n):
            d = {}
            for _ in range(rng.randrange(0, 4)):
                d[rng.choice(keys)] = rng.choice(vals)
            out.append({"t": "auth", "v": [rng.choice(["Digest", "WSSE", "Cookie", "OpenID", "HMACDigest", "GoogleLogin"]), d]})
        out += [{"t": "auth", "v": ["Basic", "dXNlcjpwYXNz"]}, {"t": "auth", "v": ["Basic", "abc=="]}, {"t": "auth", "v": ["Bearer", "tok.en-1"]},
                {"t": "auth", "v": ["Bearer", 'a="b"']}, {"t": "str", "v": "Basic abc=="}, {"t": "str", "v": 'Digest realm="x"'},
                {"t": "auth", "v": ["Basic", {"realm": "x"}]}]
    elif kind in ("content_type", "req_content_type"):
        out += [{"t": "str", "v": v} for v in ["text/html", "text/plain", "application/json", "application/xml", "image/svg+xml",
                                              "application/atom+xml", "application/octet-stream", "text/x-foo", "a/b",
                                              "text/html; charset=latin-1", "application/json; x=y"]]
    elif kind == "charset":
        out += [{"t": "str", "v": v} for v in ["utf-8", "UTF-8", "latin-1", "iso-8859-1", "x"]]
    elif kind == "ct_params":
        vals = ["x", "a b", "a;b", "k=v", "\xe9", "A.b_c-d", "a,b", " ", "svg+xml", "+", 'x"y', "p\\q", "\\", '"', '\\"', "a\\\"b\\",
                "1.0+build7", "~", "a/b", "(c)", "x*", "%41", "q=0.5", "----=_Part_7+Qx"]
        for k in ["a", "charset", "B2", "x1", "foo-bar", "x_y.z", "q+", "!#$%&'*^`|~"]:
            for v in vals:
                out.append({"t": "dict", "v": {k: v}})
        for _ in range(n):
            out.append({"t": "dict", "v": {rng.choice(["a", "b", "c9", "charset"]): rng.choice(vals) for _ in range(rng.randrange(1, 4))}})
    return out


def date_values(rng, n, years):
    """date-ish values: naive/aware datetimes, dates, timestamps, struct_time"""
    out = []
    for y in years:
        out.append(enc_dt(DT(y, 1, 1, 0, 0, 0)))
        out.append(enc_dt(DT(y, 12, 31, 23, 59, 59)))
        if y % 4 == 0:
            out.append(enc_dt(DT(y, 2, 28, 23, 59, 59)))
            out.append(enc_dt(DT(y, 3, 1, 0, 0, 0)))
    lo, hi = 0, (DT(9999, 12, 31, 23, 59, 59) - EPOCH) // TD(seconds=1)
    offs = [0, 5 * 3600, -5 * 3600, 19800, 13 * 3600, -11 * 3600, 14 * 3600, -12 * 3600, 60, -60, 20700]
    for _ in range(n):
        ts = rng.randrange(lo, hi + 1) if rng.random() < 0.5 else rng.randrange(lo, 2 ** 32)
        d = EPOCH + TD(seconds=ts)
        c = rng.random()
        if c < 0.35:
            out.append(enc_dt(d.replace(microsecond=rng.choice([0, 0, 999999, 1]))))
        elif c < 0.7:
            off = rng.choice(offs)
            try:
                a = (EPOCH_AWARE + TD(seconds=ts)).astimezone(datetime.timezone(TD(seconds=off)))
            except OverflowError:
                continue
            out.append(enc_dt(a))
        elif c < 0.8:
            out.append({"t": "date", "v": [d.year, d.month, d.day]})
        elif c < 0.9:
            out.append({"t": "int", "v": ts})
        elif c < 0.95:
            out.append({"t": "float", "v": ts + 0.75})
        else:
            out.append({"t": "struct", "v": ts})
    # pre-epoch and 4-digit boundary instants are representable too
    out += [enc_dt(DT(1969, 12, 31, 23, 59, 59)), enc_dt(DT(1000, 1, 1)), enc_dt(DT(1900, 2, 28, 12, 0, 0)),
            enc_dt(DT(2020, 1, 1, 12, 0, 0, tzinfo=datetime.timezone(TD(hours=5)))),
            enc_dt(DT(2020, 1, 1, 2, 0, 0, tzinfo=datetime.timezone(TD(hours=-5))))]
    return out


DATE_ATTRS = [("resp", "date"), ("resp", "expires"), ("resp", "last_modified"), ("resp", "retry_after"),
              ("req", "date"), ("req", "if_modified_since"), ("req", "if_unmodified_since"), ("req", "if_range")]


def date_cases(rng, n, tier_years):
    vals = date_values(rng, n, tier_years)
    cases = []
    for i, v in enumerate(vals):
        side, attr = DATE_ATTRS[i % len(DATE_ATTRS)]
        if v["t"] in ("int", "float", "struct") and attr in ("retry_after", "if_range"):
            side, attr = "resp", "last_modified"     # a number is delta-seconds / an opaque tag there
        cases.append({"o": "rt", "side": side, "attr": attr, "value": v})
    # delta-seconds and timedelta
    for s in [0, 1, 59, 120, 3600, 86400, 10 ** 6, 2 ** 31 - 1]:
        cases.append({"o": "rt", "side": "resp", "attr": "retry_after", "value": {"t": "int", "v": s}})
    for s in [0, 1, 60, 3600, 86400, 86400 * 365, -3600]:
        for side, attr in DATE_ATTRS[:4] + DATE_ATTRS[5:6]:
            cases.append({"o": "rt", "side": side, "attr": attr, "value": {"t": "td", "v": s}})
    for s in [0, 120, 86400, 10 ** 6]:
        cases.append({"o": "self", "side": "resp", "attr": "retry_after", "value": {"t": "int", "v": s}})
    # canonical text -> instant
    for _ in range(n // 4 + 10):
        ts = rng.randrange(0, (DT(9999, 12, 31, 23, 59, 59) - EPOCH) // TD(seconds=1))
        side, attr = rng.choice(DATE_ATTRS[:7])
        cases.append({"o": "dtext", "side": side, "attr": attr, "ts": ts})
    return cases


def o_dtext(case):
    side, attr, ts = case["side"], case["attr"], case["ts"]
    key, kind = table(side)[attr]
    text = http_date(ts)
    r = mk(side, key, text)
    try:
        g = getattr(r, attr)
    except Exception as e:  # noqa
        return ("total:date:%s" % type(e).__name__, "%s.%s raises %s on %r" % (side, attr, type(e).__name__, text))
    want = EPOCH_AWARE + TD(seconds=ts)
    if not (isinstance(g, DT) and g.tzinfo is not None and g == want and g.utcoffset() == TD(0)):
        return ("date:canonical-text", "%s.%s reads %r as %r, expected %r (TZ=%s)" % (side, attr, text, g, want, os.environ.get("TZ")))
    return None


# ----------------------------------------------------------------------------------------------
# oracle 3: CR / LF refused on Response header attributes
# ----------------------------------------------------------------------------------------------
def o_crlf(case):
    attr, value = case["attr"], case["value"]
    key, kind = RESP[attr]
    r = mk("resp", key, case.get("init"))
    before = raw("resp", r, key)
    try:
        setattr(r, attr, value)
    except ValueError:
        if raw("resp", r, key) != before:
            return ("crlf:refused-but-header-changed", "resp.%s = %r was refused but %s changed from %r to %r"
                    % (attr, value, key, before, raw("resp", r, key)))
        return None
    except Exception as e:  # noqa
        return ("crlf:%s:wrong-exception" % kind, "resp.%s = %r raises %s instead of refusing with ValueError" % (attr, value, type(e).__name__))
    hdr = raw("resp", r, key)
    hdrs = hdr if isinstance(hdr, list) else [hdr]
    if any(("\r" in h or "\n" in h) for h in hdrs if h != ABSENT):
        return ("crlf:%s:accepted" % kind, "resp.%s = %r is not refused; stored %s: %r" % (attr, value, key, hdr))
    # the statement: a string containing CR or LF is REFUSED -- also when a serializer would normalise it away
    return ("crlf:%s:not-refused" % kind, "resp.%s = %r (a string containing CR or LF) is not refused; %s is now %r"
            % (attr, value, key, hdr))


# ----------------------------------------------------------------------------------------------
# oracle 4: Cache-Control is live in both directions, sides are enforced
# ----------------------------------------------------------------------------------------------
def ref_cc_parse(text):
    """RFC 7234 #cache-directive reader for WELL-FORMED text (comma list of token[=token|quoted-string])"""
    out = {}
    for part in re.findall(r'(?:[^,"]|"[^"]*")+', text):
        part = part.strip()
        if not part:
            continue
        name, eq, v = part.partition("=")
        v = v.strip()
        if v.startswith('"') and v.endswith('"') and len(v) >= 2:
            v = v[1:-1]
        out[name.strip()] = v if eq and v != "" else None
    return out


_DIRECTIVE = r'%s(?:=(?:[^\s",;=]*|"[^"]*"))?' % TOKEN
CC_WELL_FORMED = re.compile(r"\A\s*%s(?:\s*,\s*%s)*\s*\Z" % (_DIRECTIVE, _DIRECTIVE))


def cc_view(props):
    return {k: (None if v is None else str(v)) for k, v in props.items()}


def cc_header(side, r):
    key = "Cache-Control" if side == "resp" else "HTTP_CACHE_CONTROL"
    return raw(side, r, key)


def o_cc(case):
    """one history on Request/Response.cache_control; first failing observation or None.
    `request.cache_control = None` leaving '' is recorded and the history continues, so that it cannot
    hide another failure in the same history."""
    from webob.cachecontrol import CacheControl
    side = case["side"]
    typ = "response" if side == "resp" else "request"
    key = "Cache-Control" if side == "resp" else "HTTP_CACHE_CONTROL"
    r = mk(side, key, case.get("init"))
    ops = json.loads(json.dumps(case["ops"]))      # webob may keep (and mutate) the dicts handed to it
    held = None
    deferred = None
    # the response side removes an emptied header; the request side writes '' through its callback, which
    # the statement does not speak about (it speaks about None and del)
    gone = (ABSENT,) if side == "resp" else (ABSENT, "")

    def denotes(hdr):
        return {} if hdr in (ABSENT, "") else ref_cc_parse(hdr)

    for i, op in enumerate(ops):
        t = op[0]
        where = "step %d %r" % (i, case["ops"][i])
        try:
            if t == "get":
                held = r.cache_control
            elif t == "held_quiet":
                # change the object the caller holds and do NOT look at request/response.cache_control afterwards
                if held is not None:
                    try:
                        setattr(held, op[1], op[2])
                    except AttributeError:
                        pass
                continue
            elif t in ("setp", "delp", "setp_held", "delp_held"):
                attr = op[1]
                directive, dkind, dside = CC_ATTRS[attr]
                cc = held if (t.endswith("_held") and held is not None) else r.cache_control
                before = cc_header(side, r)
                p0 = dict(cc.properties)
                wrong = dside is not None and dside != typ
                try:
                    if t.startswith("setp"):
                        setattr(cc, attr, op[2])
                    else:
                        delattr(cc, attr)
                    raised = None
                except AttributeError:
                    raised = "AttributeError"
                if wrong and t.startswith("setp"):
                    if raised is None:
                        return ("cc-sides:%s" % side, "%s: setting the %s-only directive %s on a %s Cache-Control is not rejected"
                                % (where, dside, directive, typ))
                    if cc_header(side, r) != before or dict(cc.properties) != p0:
                        return ("cc-sides:%s:changed" % side, "%s: rejected but header/object changed" % where)
                    continue
                if raised and not wrong:
                    return ("cc-sides:%s:spurious" % side, "%s: %s raised for a directive allowed on this side" % (where, raised))
                if raised:
                    continue
                # changing a directive rewrites the header: it now denotes exactly the object's directives
                hdr = cc_header(side, r)
                want = cc_view(cc.properties)
                if dict(cc.properties) != p0:
                    if denotes(hdr) != want:
                        return ("cc-live:%s:mutation-not-written" % side,
                                "%s: the object holds %r but %s is %r" % (where, want, key, hdr))
                    if not want and hdr not in gone:
                        return ("cc-empty-header:%s" % side, "%s: no directive left but %s is %r" % (where, key, hdr))
                if t.startswith("setp"):
                    v = op[2]
                    present = directive in cc.properties
                    if dkind == "exists" and present != bool(v):
                        return ("cc-live:%s:exists" % side, "%s: directive presence is %r" % (where, present))
                    if dkind == "value" and v is not None and not present:
                        return ("cc-live:%s:value" % side, "%s: directive absent after set" % where)
            elif t in ("pset", "pdel", "pclear", "pupdate", "ppop", "psetdefault"):
                cc = r.cache_control
                p = cc.properties
                p0 = dict(p)
                if t == "pset":
                    p[op[1]] = op[2]
                elif t == "pdel":
                    if op[1] in p:
                        del p[op[1]]
                elif t == "pclear":
                    p.clear()
                elif t == "pupdate":
                    p.update(dict(op[1]))
                elif t == "ppop":
                    p.pop(op[1], None)
                elif t == "psetdefault":
                    p.setdefault(op[1], op[2])
                hdr = cc_header(side, r)
                want = cc_view(p)
                if dict(p) != p0:
                    if denotes(hdr) != want:
                        return ("cc-live:%s:mutation-not-written" % side, "%s: properties %r but %s is %r" % (where, want, key, hdr))
                    if not want and hdr not in gone:
                        return ("cc-empty-header:%s" % side, "%s: no directive left but %s is %r" % (where, key, hdr))
            elif t == "hset":
                if side == "resp":
                    r.headers["Cache-Control"] = op[1]
                else:
                    r.environ[key] = op[1]
            elif t == "hdel":
                if side == "resp":
                    r.headers.pop("Cache-Control", None)
                else:
                    r.environ.pop(key, None)
            elif t == "assign":
                v = op[1]
                if isinstance(v, dict) and v.get("cc") is not None:
                    v = CacheControl(dict(v["cc"]), typ)
                r.cache_control = v
                hdr = cc_header(side, r)
                if v is None and hdr != ABSENT:
                    f = ("cc-empty-header:resp" if (hdr == "" and side == "resp") else "none-removes:cache_control:%s" % side,
                         "%s: cache_control = None leaves %s: %r instead of removing it" % (where, key, hdr))
                    if side == "req" and hdr == "":
                        deferred = deferred or f
                    else:
                        return f
                if (v == "" or v == {}) and hdr not in gone:
                    return ("cc-empty-header:%s" % side, "%s: cache_control = %r leaves %s: %r" % (where, op[1], key, hdr))
            elif t == "assign_self":
                cc = r.cache_control
                p0 = cc_view(cc.properties)
                r.cache_control = cc if op[1] == "same" else cc.properties
                if cc_view(r.cache_control.properties) != p0:
                    return ("self-assign:cache_control:value-lost", "%s: the directives %r became %r"
                            % (where, p0, cc_view(r.cache_control.properties)))
            elif t == "del":
                del r.cache_control
                hdr = cc_header(side, r)
                if hdr != ABSENT:
                    return ("cc-empty-header:resp" if (hdr == "" and side == "resp") else "del-removes:cache_control:%s" % side,
                            "%s: del cache_control leaves %s: %r" % (where, key, hdr))
        except Exception as e:  # noqa
            return ("cc-live:%s:raises-%s" % (side, type(e).__name__), "%s raises %s: %s" % (where, type(e).__name__, str(e)[:100]))
        # after every step: what the accessor shows is what the header says (header -> object direction)
        try:
            cc = r.cache_control
            view = cc_view(cc.properties)
            s = str(cc)
        except Exception as e:  # noqa
            return ("cc-live:%s:raises-%s" % (side, type(e).__name__), "%s: reading cache_control raises %s" % (where, type(e).__name__))
        wf = op[2] if t == "hset" and len(op) == 3 else None   # expected directives of a well-formed header text
        if wf is not None and view != wf:
            return ("cc-live:%s:header-not-seen" % side, "%s: header %r but the object shows %r" % (where, op[1], view))
        if t in ("hdel",) and view:
            return ("cc-live:%s:header-not-seen" % side, "%s: header removed but the object shows %r" % (where, view))
        if t == "assign" and isinstance(op[1], (dict, str)) and len(op) == 3 and view != op[2]:
            return ("cc-live:%s:assign-not-seen" % side, "%s: the object shows %r, expected %r" % (where, view, op[2]))
        hdr1 = cc_header(side, r)
        if view and (hdr1 == s or hdr1 in (ABSENT, "") or CC_WELL_FORMED.match(hdr1)):
            # (a malformed text the caller stored is judged only through the parse the object shows of it)
            got = denotes(hdr1)
            if got != view:
                return ("cc-live:%s:object-header-differ" % side, "%s: object shows %r, %s is %r" % (where, view, key, hdr1))
            if s != hdr1 and ref_cc_parse(s) != got:
                return ("cc-live:%s:str-differs" % side, "%s: str(cache_control)=%r, header %r" % (where, s, hdr1))
    return deferred


CC_VALUES = [5, 0, 3600, True, None, "x", "set-cookie", "a, b", "x y"]
CC_TEXTS = [("max-age=5", {"max-age": "5"}), ("public, max-age=5", {"public": None, "max-age": "5"}),
            ("no-cache", {"no-cache": None}), ('private="a, b", no-store', {"private": "a, b", "no-store": None}),
            ("max-age=0,no-transform", {"max-age": "0", "no-transform": None}), ("", {}),
            ("max-stale", {"max-stale": None}), ("min-fresh=7 ,  only-if-cached", {"min-fresh": "7", "only-if-cached": None}),
            ('ext="q r"', {"ext": "q r"}), ("s-maxage=9", {"s-maxage": "9"})]


def rand_cc_op(rng, side):
    t = rng.choice(["get", "setp", "setp", "setp", "delp", "setp_held", "delp_held", "pset", "pdel", "pclear", "pupdate", "ppop",
                    "psetdefault", "hset", "hset", "hdel", "assign", "assign", "del", "assign_self"])
    if t == "assign_self":
        return [t, rng.choice(["same", "props"])]
    attrs = sorted(CC_ATTRS)
    if t in ("setp", "setp_held"):
        a = rng.choice(attrs)
        v = rng.choice(CC_VALUES) if CC_ATTRS[a][1] == "value" else rng.choice([True, False])
        if t == "setp_held" and rng.random() < 0.4:
            return ["held_quiet", a, v]
        return [t, a, v]
    if t in ("delp", "delp_held"):
        return [t, rng.choice(attrs)]
    if t in ("pset", "psetdefault"):
        return [t, rng.choice(["max-age", "ext", "no-cache", "private"]), rng.choice([None, 5, "x", "a b"])]
    if t in ("pdel", "ppop"):
        return [t, rng.choice(["max-age", "ext", "no-cache", "private"])]
    if t == "pupdate":
        return [t, {"ext": rng.choice([None, 1, "z"]), "max-age": rng.randrange(9)}]
    if t == "hset":
        if rng.random() < 0.8:
            text, wf = rng.choice(CC_TEXTS)
            return [t, text, wf]
        return [t, rng.choice(["123", ",", "=5", "max-age=5;public", 'x="unterminated', "\xe9", "a=b=c", " "])]
    if t == "assign":
        c = rng.random()
        if c < 0.3:
            text, wf = rng.choice(CC_TEXTS)
            return [t, text, wf]
        if c < 0.6:
            d = rng.choice([{"max-age": 5}, {"no-cache": None, "max-age": 0}, {"ext": "a b"}, {}])
            return [t, d, cc_view(d)]
        if c < 0.8:
            d = rng.choice([{"max-age": 7}, {"no-store": None}])
            return [t, {"cc": d}]
        return [t, None]
    return [t]



# ----------------------------------------------------------------------------------------------
# oracle 5: ONE long-lived Response / Request serving interleaved get / set / del of DIFFERENT typed
# attributes: every answer equals the answer of a brand-new object over the same header list / environ,
# reads leave the store alone, a write touches only its own header
# ----------------------------------------------------------------------------------------------
SHARED_HEADER = {"charset": "content-type", "content_type": "content-type", "content_type_params": "content-type",
                 "etag": "etag", "etag_strong": "etag"}


def obs_value(kind, v):
    """comparable observation of an attribute value (cache_control: what the object shows)"""
    if isinstance(v, Err):
        return v
    if kind == "cache_control":
        return ["cc", [[k, w] for k, w in sorted(v.properties.items())], str(v)]
    if kind == "if_range":
        return ["ifr", type(v).__name__, str(v) if getattr(v, "date", 1) is not None else None]
    if kind == "etag_matcher":
        return ["etm", type(v).__name__, str(v)]
    return canon(v)


def store_of(side, r):
    if side == "resp":
        return [list(kv) for kv in r.headerlist]
    return [r.environ.get(k, ABSENT) for k in WATCH]


def fresh_like(side, store, cfg=None):
    if side == "resp":
        r = new_obj("resp", cfg)
        r.headerlist = [tuple(p) for p in store]
        return r
    r = new_obj("req", cfg)
    for k, v in zip(WATCH, store):
        if v == ABSENT:
            r.environ.pop(k, None)
        else:
            r.environ[k] = v
    return r


def apply_hist_op(side, r, o):
    t = o[0]
    tab = table(side)
    if t == "get":
        return obs_value(tab[o[1]][1], catch(getattr, r, o[1]))
    if t == "set":
        return catch(setattr, r, o[1], dec(o[2]))
    if t == "del":
        return catch(delattr, r, o[1])
    if t == "raw":
        if side == "resp":
            r.headerlist.append((o[1], o[2]))
        else:
            r.environ[o[1]] = o[2]
        return None
    if t == "rawdel":
        if side == "resp":
            r.headerlist[:] = [(k, v) for k, v in r.headerlist if k.lower() != o[1].lower()]
        else:
            r.environ.pop(o[1], None)
        return None
    raise ValueError(o)


def o_hist(case):
    side = case["side"]
    tab = table(side)
    with NowHook():
        cfg = case.get("cfg")
        r = fresh_like(side, case["init"], cfg)
        view = r.headers if case.get("view") else None        # the headers view exists before the attributes are used
        sticky = None
        for i, o in enumerate(case["ops"]):
            before = store_of(side, r)
            twin = fresh_like(side, before, cfg)
            res = apply_hist_op(side, r, o)
            res2 = apply_hist_op(side, twin, o)
            after, after2 = store_of(side, r), store_of(side, twin)
            where = "step %d %r on the long-lived %s" % (i, o, "Response" if side == "resp" else "Request")
            if side == "req" and o[0] == "get" and o[1] == "charset":
                # the one documented per-object memory (property C01: "the request charset is fixed at first use"):
                # the FIRST read on this wrapper must be what a fresh wrapper answers; every later read repeats it,
                # whatever CONTENT_TYPE has become meanwhile (a brand-new Request may then answer differently)
                if sticky is None:
                    sticky = [res]
                else:
                    if res != sticky[0]:
                        return ("stateful:req:charset:not-fixed-at-first-use",
                                "%s gives %r, but this wrapper's first read gave %r" % (where, res, sticky[0]))
                    res2 = res
            if view is not None and side == "resp" and [list(kv) for kv in view.items()] != store_of(side, r):
                return ("stateful:resp:headers-view-out-of-sync", "%s: a resp.headers view taken earlier shows %r, headerlist is %r"
                        % (where, [list(kv) for kv in view.items()], store_of(side, r)))
            if res != res2:
                return ("stateful:%s:%s:answer-differs" % (side, o[1] if o[0] != "raw" and len(o) > 1 else "raw"), "%s gives %r, a fresh object over the same %s gives %r"
                        % (where, res, "header list" if side == "resp" else "environ", res2))
            if o[0] != "raw" and len(o) > 1 and tab.get(o[1], ("", ""))[1] == "cache_control":
                # reading cache_control may re-write the header in canonical form (and so move the line to the end
                # of a Response header list); an object that already did so need not do it again: compare the
                # stores up to that line, the directives are compared through `res`
                if side == "resp":
                    after = [kv for kv in after if kv[0].lower() != "cache-control"]
                    after2 = [kv for kv in after2 if kv[0].lower() != "cache-control"]
                else:
                    j = WATCH.index("HTTP_CACHE_CONTROL")
                    after = after[:j] + after[j + 1:]
                    after2 = after2[:j] + after2[j + 1:]
            if after != after2:
                return ("stateful:%s:store-differs" % side, "%s leaves %r, on a fresh object it leaves %r" % (where, after, after2))
            if side == "resp" and o[0] in ("set", "del") and o[1] in HEADER_GETTER_FAMILY and not isinstance(res, Err):
                key, kind = tab[o[1]]
                n = count_lines(r, key)
                removing = o[0] == "del" or o[2]["t"] == "none"
                if removing and (n != 0 or getattr(r, o[1]) is not None):
                    return ("single-header:%s:duplicate-lines-survive" % o[1],
                            "%s (header list before: %r) leaves %d line(s) of %s and the attribute reads %r"
                            % (where, before, n, key, catch(getattr, r, o[1])))
                if not removing and n > 1:
                    return ("single-header:%s:duplicate-lines-survive" % o[1],
                            "%s (header list before: %r) leaves %d lines of %s: %r"
                            % (where, before, n, key, [kv for kv in store_of(side, r) if kv[0].lower() == key.lower()]))
                if not removing and n == 1 and is_valid_value(kind, o[2]):
                    try:
                        want_hdr, pred, want = expect(kind, dec(o[2]), DT(*FIXED_NOW))
                        got = getattr(r, o[1])
                        okv = pred(got)
                    except Exception as e:  # noqa
                        got, okv, want = Err(type(e).__name__), False, "no exception"
                    if not okv:
                        return ("stateful:resp:%s:set-then-get" % o[1], "%s (header list before: %r) then reads %r, expected %s"
                                % (where, before, got, want))
            if o[0] in ("get", "set", "del"):
                key, kind = tab[o[1]]
                own = SHARED_HEADER.get(o[1], key.lower()) if side == "resp" else key
                if o[0] == "get" and kind != "cache_control" and after != before:
                    return ("stateful:%s:read-writes" % side, "%s changed the store from %r to %r" % (where, before, after))
                if side == "resp":
                    keep = lambda st: [kv for kv in st if kv[0].lower() != own]  # noqa
                    if keep(before) != keep(store_of(side, r)):
                        return ("stateful:resp:other-headers-disturbed", "%s changed other header lines: %r -> %r"
                                % (where, keep(before), keep(after)))
                else:
                    idx = [j for j, k in enumerate(WATCH) if k != own]
                    now_ = store_of(side, r)
                    if [before[j] for j in idx] != [now_[j] for j in idx]:
                        return ("stateful:req:other-keys-disturbed", "%s changed other environ keys" % where)
    return None


def hist_value(rng, kind):
    vals = HIST_VALUES.get(kind)
    if vals is None:
        if kind in ("date", "date_delta", "if_range"):
            vals = [v for v in date_values(rng, 40, [1970, 2024, 9999]) if v["t"] in ("dt", "date")]
            if kind == "date":
                vals += [{"t": "int", "v": 86400 * 366}, {"t": "td", "v": 60}]
            if kind == "date_delta":
                vals += [{"t": "int", "v": 120}]
            if kind == "if_range":
                vals += [{"t": "str", "v": '"abc"'}]
        elif kind in ("etag_matcher", "etag_strong", "req_charset"):
            vals = []
        elif kind == "cache_control":
            vals = [{"t": "str", "v": "max-age=5"}, {"t": "dict", "v": {"max-age": 7, "no-cache": None}}, {"t": "str", "v": "public, x=\"a b\""}]
        else:
            vals = valid_values(kind, rng, 12, 3)
            vals += [{"t": "str", "v": "a\nb"}]
        HIST_VALUES[kind] = vals
    return rng.choice(vals) if vals else None


HIST_VALUES = {}


def gen_mixed_history(rng, side, length):
    """init store with several (also duplicate / differently spelled) header lines, then a long interleaving"""
    tab = table(side)
    attrs = sorted(tab)
    init = []
    if side == "resp":
        for _ in range(rng.randrange(0, 6)):
            a = rng.choice(attrs)
            key, kind = tab[a]
            texts = total_texts(kind, 1, rng, 0)
            init.append([case_variants(rng, key), rng.choice(texts)[:80]])
    else:
        init = [ABSENT] * len(WATCH)
        for _ in range(rng.randrange(0, 6)):
            a = rng.choice(attrs)
            key, kind = tab[a]
            init[WATCH.index(key)] = rng.choice(total_texts(kind, 1, rng, 0))[:80]
        init[WATCH.index("SERVER_PORT")] = rng.choice(["80", "8080", "abc"])
    ops = []
    for _ in range(length):
        a = rng.choice(attrs)
        key, kind = tab[a]
        c = rng.random()
        if c < 0.45:
            ops.append(["get", a])
        elif c < 0.7 and (side, a) not in GET_ONLY:
            v = hist_value(rng, kind)
            if v is not None:
                ops.append(["set", a, v])
        elif c < 0.78 and (side, a) not in GET_ONLY and a != "server_port":
            ops.append(["set", a, {"t": "none"}])
        elif c < 0.84 and (side, a) not in GET_ONLY and a != "server_port":
            ops.append(["del", a])
        elif c < 0.96:
            texts = SPECIAL.get(kind if kind in SPECIAL else KIND_ALPHA.get(kind, "str"), ["x"])
            ops.append(["raw", case_variants(rng, key) if side == "resp" else key, rng.choice([t for t in texts if len(t) < 200] or ["x"])])
        elif a != "server_port":
            ops.append(["rawdel", key])
    return {"o": "hist", "side": side, "init": init, "ops": ops, "cfg": rng.choice(RESP_CFGS if side == "resp" else REQ_CFGS),
            "view": rng.random() < 0.5}


def perm_worker():
    """stdin: {items, order}: evaluate the reads in that order in THIS fresh process; stdout: answers by item index"""
    cfg = json.load(sys.stdin)
    items = cfg["items"]
    out = {}
    for j in cfg["order"]:
        it = items[j]
        r = mk(it[0], table(it[0])[it[1]][0], it[2])
        with NowHook():
            out[j] = fw.jsonable(obs_value(table(it[0])[it[1]][1], catch(getattr, r, it[1])))
    print(json.dumps([out[j] for j in range(len(items))]))


def o_perm(case):
    """module-level state: the same (attribute, text) reads asked in two different orders, each order in a fresh
    process of its own (a memo filled by one pass would otherwise answer the other pass consistently)"""
    items = case["items"]
    res = []
    for order in (list(range(len(items))), case["order"]):
        p = subprocess.run([sys.executable, "-B", "-c", "from harness.props import c12; c12.perm_worker()"],
                           input=json.dumps({"items": items, "order": order}), capture_output=True, text=True,
                           env=dict(os.environ), cwd=fw.ROOT)
        if p.returncode != 0:
            return ("stateful:module:worker", "order worker failed: " + p.stderr[-300:])
        res.append(json.loads(p.stdout.strip().split("\n")[-1]))
    for j, it in enumerate(items):
        if res[0][j] != res[1][j]:
            return ("stateful:module:order-dependent", "%s.%s on %r gives %r when asked in list order but %r when asked as number %d"
                    % (it[0], it[1], it[2], res[0][j], res[1][j], case["order"].index(j)))
    return None


def stateful_sweep(ctx):
    rng = ctx.sub_rng("oracle-stateful")
    n = ctx.scale(1500, 30000)
    for side in ("resp", "req"):
        for _ in range(n):
            case = gen_mixed_history(rng, side, rng.randrange(8, ctx.scale(40, 80)))
            report(ctx, o_hist(case), case, "stateful")
        ctx.oracle_count("stateful-" + side, n, n)
    m = ctx.scale(6, 40)
    nitems = 0
    for _ in range(m):
        items = []
        for _ in range(ctx.scale(150, 400)):
            side = rng.choice(["resp", "req"])
            a = rng.choice(sorted(table(side)))
            if side == "req" and a == "server_port":
                continue
            kind = table(side)[a][1]
            texts = SPECIAL.get(kind if kind in SPECIAL else KIND_ALPHA.get(kind, "str"), ["x"])
            t = rng.choice([t for t in texts if 0 < len(t) < 300] or ["x"])
            items.append([side, a, t])
            c = rng.random()
            # near-duplicates, for caches keyed on too little
            if t.endswith("GMT") and c < 0.5:
                items.append([side, a, t[:-3] + rng.choice(["+0500", "-0800", "EST", "+0001"])])
            elif c < 0.2:
                items.append([side, a, t[:-1] + "x"])
            elif c < 0.35:
                items.append([side, a, "x" + t[1:]])
            elif c < 0.5:
                pos = [i for i, ch in enumerate(t) if ch in "0123456789"]
                if pos:
                    i = rng.choice(pos)
                    items.append([side, a, t[:i] + str((int(t[i]) + 1 + rng.randrange(8)) % 10) + t[i + 1:]])
            elif c < 0.6:
                items.append([rng.choice(["resp", "req"]), a, t] if a in RESP and a in REQ else [side, a, t + " "])
        order = list(range(len(items)))
        rng.shuffle(order)
        nitems += len(items)
        case = {"o": "perm", "items": items, "order": order}
        report(ctx, o_perm(case), case, "stateful")
    m = nitems
    ctx.oracle_count("stateful-order", m, m)


# ----------------------------------------------------------------------------------------------
# oracle 6: argument shapes and value domains outside the model
# ----------------------------------------------------------------------------------------------
def o_self(case):
    """x.attr = x.attr (the identical object the getter returned) keeps the value"""
    side, attr = case["side"], case["attr"]
    key, kind = table(side)[attr]
    with NowHook():
        r = mk(side, key, case.get("init"), cfg=case.get("cfg"))
        try:
            setattr(r, attr, dec(case["value"]))
            first = getattr(r, attr)
            obs1 = obs_value(kind, first)
            how = case.get("how", "same")
            if how == "props" and kind == "cache_control":
                r.cache_control = r.cache_control.properties
            elif how == "equal" and kind == "cache_control":
                r.cache_control = first.copy()
            else:
                setattr(r, attr, first)
            if kind == "date_delta" and case["value"]["t"] == "int":
                # the datetime read for delta-seconds, assigned back, must still name now + delta
                want = http_date(int(time.mktime(DT(*FIXED_NOW).timetuple())) + case["value"]["v"])
                if raw(side, r, key) != want:
                    return ("self-assign:date_delta:instant-shifts",
                            "%s.%s = %d reads %r; assigning that value back stores %r, but now + %d s is %r (TZ=%s)"
                            % (side, attr, case["value"]["v"], first, raw(side, r, key), case["value"]["v"], want, os.environ.get("TZ")))
                return None
            obs2 = obs_value(kind, getattr(r, attr))
        except Exception as e:  # noqa
            return ("self-assign:%s:raises-%s" % (kind, type(e).__name__), "%s.%s = %s.%s raises %s: %s"
                    % (side, attr, side, attr, type(e).__name__, str(e)[:80]))
    if obs1 != obs2:
        return ("self-assign:%s:value-lost" % kind, "%s.%s reads %r; after %s.%s = <that %s> it reads %r (header %r)"
                % (side, attr, obs1, side, attr, {"same": "very object", "props": "object's .properties", "equal": "object's copy()"}[case.get("how", "same")],
                   obs2, raw(side, r, key)))
    return None


ODD_VALUES = [{"t": "list", "v": []}, {"t": "tuple", "v": []}, {"t": "str", "v": ""}, {"t": "dict", "v": {}}, {"t": "bytes", "v": "GET"},
              {"t": "bytes", "v": "Mon, 01 Jan 2001 00:00:00 GMT"}, {"t": "bool", "v": True}, {"t": "float", "v": 1.5}, {"t": "int", "v": -3},
              {"t": "bigint", "v": 5000}, {"t": "tuple", "v": [None, 5]}, {"t": "tuple", "v": [0, None, None]}, {"t": "list", "v": [1, "a"]},
              {"t": "str", "v": "€ ١ x"}, {"t": "str", "v": "a\x00b"}, {"t": "str", "v": "x\ny"}, {"t": "gen", "v": ["GET", "PUT"]},
              {"t": "iter", "v": ["a"]}, {"t": "auth_list", "v": ["Digest", {"realm": "x"}]}, {"t": "tuple", "v": ["Digest", "x", "y"]},
              {"t": "dt", "v": [1, 1, 1, 0, 0, 0, 0], "tz": None}, {"t": "td", "v": -10 ** 12}, {"t": "dict", "v": {"max-age": "x\ny"}}]
ALLOWED_REFUSALS = ("ValueError", "TypeError", "AssertionError", "AttributeError", "OverflowError", "DeprecationWarning", "KeyError")


def dec_odd(v):
    t, x = v["t"], v.get("v")
    if t == "bytes":
        return x.encode("latin-1")
    if t == "bool":
        return x
    if t == "bigint":
        return 10 ** x
    if t == "gen":
        return (e for e in x)
    if t == "iter":
        return iter(list(x))
    if t == "auth_list":
        return [x[0], dict(x[1])]
    return dec(v)


def short(v):
    try:
        t = repr(v)
    except Exception:  # noqa  (e.g. an int beyond the str() digit limit)
        t = "<%s value>" % v.get("t", "?") if isinstance(v, dict) else "<unprintable>"
    return t if len(t) < 120 else t[:100] + "..."


def o_invalid(case):
    """an INVALID Range / Content-Range value: either refused, or what is stored is still a line in the field's wire syntax"""
    side, attr = case["side"], case["attr"]
    key, kind = table(side)[attr]
    r = mk(side, key, None)
    try:
        setattr(r, attr, dec(case["value"]))
    except (ValueError, TypeError, AssertionError):
        return None
    except Exception as e:  # noqa
        return ("shape:%s:raises-%s" % (kind, type(e).__name__), "%s.%s = %r raises %s" % (side, attr, case["value"], type(e).__name__))
    hdr = raw(side, r, key)
    if hdr != ABSENT and not (isinstance(hdr, str) and WIRE[kind].match(hdr)):
        return ("wire:%s:invalid-value-stored" % kind, "%s.%s = %r is accepted and stores %s: %r, which is not in the field's wire syntax"
                % (side, attr, dec(case["value"]), key, hdr))
    return None


def o_emptylist(case):
    Request, Response = webob()
    r = Response()
    setattr(r, case["attr"], dec(case["value"]))
    got = getattr(r, case["attr"])
    if got != ():
        return ("roundtrip:list:empty-sequence", "resp.%s = %r stores %s: %r and reads back %r, not ()"
                % (case["attr"], dec(case["value"]), RESP[case["attr"]][0], raw("resp", r, RESP[case["attr"]][0]), got))
    return None


def o_shape(case):
    """a value of an unusual shape / outside the modelled domain: either refused with one of the documented exception
    classes and nothing half-written, or accepted and then the views stay coherent: one CR/LF-free line (Response
    header_getter family), and reading does not raise"""
    side, attr = case["side"], case["attr"]
    key, kind = table(side)[attr]
    with NowHook():
        r = mk(side, key, case.get("init"), cfg=case.get("cfg"))
        before = raw(side, r, key)
        value = dec_odd(case["value"])
        try:
            setattr(r, attr, value)
        except Exception as e:  # noqa
            if type(e).__name__ not in ALLOWED_REFUSALS:
                return ("shape:%s:raises-%s" % (kind, type(e).__name__), "%s.%s = %r raises %s: %s"
                        % (side, attr, short(case["value"]), type(e).__name__, str(e)[:80]))
            now_ = raw(side, r, key)
            if type(e).__name__ == "ValueError" and side == "resp" and attr in HEADER_GETTER_FAMILY and isinstance(value, str) \
                    and ("\n" in value or "\r" in value) and now_ != before:
                return ("crlf:refused-but-header-changed", "resp.%s = %s was refused but %s changed from %r to %r"
                        % (attr, short(case["value"]), key, before, now_))
            if now_ not in (before, ABSENT) and kind not in ("cache_control",):
                return ("shape:%s:refused-but-written" % kind, "%s.%s = %r was refused (%s) but %s changed from %r to %r"
                        % (side, attr, short(case["value"]), type(e).__name__, key, before, now_))
            return None
        hdr = raw(side, r, key)
        if side == "resp" and attr in HEADER_GETTER_FAMILY:
            if count_lines(r, key) > 1:
                return ("single-header:%s:duplicate-lines-survive" % attr, "resp.%s = %r leaves %r" % (attr, short(case["value"]), hdr))
            if isinstance(hdr, str) and hdr != ABSENT and ("\n" in hdr or "\r" in hdr):
                return ("crlf:%s:accepted" % kind, "resp.%s = %r stored %r" % (attr, short(case["value"]), hdr))
        if hdr != ABSENT and not isinstance(hdr, (str, list)):
            if side == "resp":
                return ("shape:%s:non-text-stored" % kind, "resp.%s = %s was accepted and stored the non-text object %r under %s"
                        % (attr, short(case["value"]), hdr, key))
            return None        # a non-text object was put into the environ: no header text to speak about
        try:
            got = getattr(r, attr)
            if kind == "cache_control":
                str(got)
        except Exception as e:  # noqa
            return ("shape:%s:get-raises-%s" % (kind, type(e).__name__), "%s.%s = %r was accepted (stored %r) but reading raises %s: %s"
                    % (side, attr, short(case["value"]), hdr, type(e).__name__, str(e)[:80]))
    return None


def run_case_sub(case):
    """run one case in a fresh process configured by the case: TZ, sys.set_int_max_str_digits"""
    env = dict(os.environ)
    if case.get("tz"):
        env["TZ"] = case["tz"]
    pre = "import sys, json; "
    if case.get("maxdigits") is not None:
        pre += "sys.set_int_max_str_digits(%d); " % case["maxdigits"]
    inner = dict(case)
    inner.pop("maxdigits", None)
    inner.pop("tz", None)
    p = subprocess.run([sys.executable, "-B", "-c", pre + "from harness.props import c12; "
                        "r = [c12.run_case(c) for c in json.load(sys.stdin)]; print(json.dumps(r))"],
                       input=json.dumps(inner["batch"] if "batch" in inner else [inner]), capture_output=True, text=True, env=env, cwd=fw.ROOT)
    if p.returncode != 0:
        return [("sub-worker", "worker failed: " + p.stderr[-300:])]
    return [tuple(r) if r else None for r in json.loads(p.stdout.strip().split("\n")[-1])]


def shapes_sweep(ctx):
    rng = ctx.sub_rng("oracle-shapes")
    n = 0
    # x.attr = x.attr for every settable attribute, all configurations
    for side in ("resp", "req"):
        for attr, (key, kind) in sorted(table(side).items()):
            if (side, attr) in GET_ONLY or attr == "server_port":
                continue
            if kind in ("date", "date_delta", "if_range"):
                vals = [enc_dt(DT(2020, 1, 1, 12, 0, 0)), enc_dt(DT(1999, 12, 31, 23, 59, 59, tzinfo=datetime.timezone(TD(hours=2))))]
            elif kind == "cache_control":
                vals = [{"t": "str", "v": "max-age=5, public" if side == "resp" else "max-age=5, no-cache"}, {"t": "dict", "v": {"max-age": 7}}]
            else:
                vals = valid_values(kind, rng, 6, 3)[: ctx.scale(12, 60)]
            for v in vals:
                for cfg in (RESP_CFGS if side == "resp" else REQ_CFGS):
                    inits = ["text/html; x=1"] if kind in ("charset", "ct_params") else [None]
                    for init in inits:
                        hows = ["same", "props", "equal"] if kind == "cache_control" else ["same"]
                        for how in hows:
                            case = {"o": "self", "side": side, "attr": attr, "value": v, "init": init, "cfg": cfg, "how": how}
                            report(ctx, o_self(case), case, "shapes")
                            n += 1
    ctx.oracle_count("self-assign", n, n)
    # odd shapes / outside-domain values on every settable attribute
    n = 0
    for side in ("resp", "req"):
        for attr, (key, kind) in sorted(table(side).items()):
            if (side, attr) in GET_ONLY or attr == "server_port":
                continue
            for v in ODD_VALUES:
                for init in (None, "old"):
                    if kind in ("charset", "ct_params") and init is None:
                        continue
                    case = {"o": "shape", "side": side, "attr": attr, "value": v, "init": "text/html" if kind in ("charset", "ct_params", "content_type", "req_content_type") and init else init,
                            "cfg": rng.choice(RESP_CFGS if side == "resp" else REQ_CFGS)}
                    report(ctx, o_shape(case), case, "shapes")
                    n += 1
    ctx.oracle_count("odd-shapes", n, n)
    # the same valid assignments made through constructor keywords
    n = 0
    for side in ("resp", "req"):
        for attr, (key, kind) in sorted(table(side).items()):
            if (side, attr) in GET_ONLY or kind in ("cache_control", "charset", "ct_params", "if_range") or attr == "server_port":
                continue
            if kind in ("date", "date_delta"):
                vals = [enc_dt(DT(2020, 1, 1, 12, 0, 0)), {"t": "date", "v": [2024, 2, 29]}]
            else:
                vals = valid_values(kind, rng, 4, 2)[: ctx.scale(10, 60)]
            for v in vals:
                case = {"o": "rt", "side": side, "attr": attr, "value": v, "via": "ctor", "cfg": rng.choice(RESP_CFGS if side == "resp" else REQ_CFGS)}
                report(ctx, o_rt(case), case, "shapes")
                n += 1
    ctx.oracle_count("constructor-keywords", n, n)
    # the interpreter's int digit limit is a knob too: totality with the limit off and at its minimum
    for md in (0, 640):
        batch = []
        for side, attr in (("resp", "content_length"), ("resp", "age"), ("resp", "content_range"), ("resp", "retry_after"),
                           ("resp", "cache_control"), ("req", "range"), ("req", "max_forwards"), ("req", "content_length"), ("req", "cache_control")):
            kind = table(side)[attr][1]
            for t in ["1" * 639, "1" * 640, "1" * 641, "9" * 4301, "bytes=0-" + "1" * 641, "bytes=" + "1" * 700 + "-", "bytes 0-4/" + "1" * 641,
                      "bytes */" + "9" * 5000, "max-age=" + "1" * 641, "max-age=" + "1" * 5000, "-" + "1" * 641, " " + "0" * 700]:
                batch.append({"o": "total", "side": side, "attr": attr, "text": t})
        res = run_case_sub({"batch": batch, "maxdigits": md})
        for c, r_ in zip(batch, res if len(res) == len(batch) else [res[0]] * len(batch)):
            report(ctx, r_, dict(c, maxdigits=md), "shapes")
        ctx.oracle_count("int-digit-limit-knob", len(batch), len(batch))

# ----------------------------------------------------------------------------------------------
# dispatch, TZ workers, replay
# ----------------------------------------------------------------------------------------------
ORACLES = {"total": o_total, "rt": o_rt, "crlf": o_crlf, "cc": o_cc, "dtext": o_dtext, "hist": o_hist, "perm": o_perm, "self": o_self, "shape": o_shape, "emptylist": o_emptylist, "invalid": o_invalid}


def run_case(case):
    return ORACLES[case["o"]](case)


def run_case_tz(case):
    """run one case in a subprocess whose TZ is case['tz']"""
    env = dict(os.environ, TZ=case["tz"])
    p = subprocess.run([sys.executable, "-B", "-c",
                        "import sys, json; from harness.props import c12; "
                        "r = c12.run_case(json.load(sys.stdin)); print(json.dumps(r))"],
                       input=json.dumps(case), capture_output=True, text=True, env=env, cwd=fw.ROOT)
    if p.returncode != 0:
        return ("tz-worker", "worker failed: " + p.stderr[-300:])
    r = json.loads(p.stdout.strip().split("\n")[-1])
    return tuple(r) if r else None


def tz_worker():
    """stdin: {seed, n, years:[lo,hi,step]}; runs the date oracle in THIS process's TZ; stdout: JSON summary"""
    import random
    cfg = json.load(sys.stdin)
    time.tzset()
    rng = random.Random("%d/C12/dates" % cfg["seed"])     # same cases in every zone
    cases = date_cases(rng, cfg["n"], range(*cfg["years"]))
    fails = {}
    for c in cases:
        res = run_case(c)
        if res:
            fails.setdefault(res[0], [res[1], c, 0])
            fails[res[0]][2] += 1
    print(json.dumps({"count": len(cases), "failures": [[k] + v for k, v in sorted(fails.items())],
                      "localtime_check": time.strftime("%z")}))


def table_check(ctx):
    """every typed attribute declared in the two attribute tables of the source is in RESP / REQ"""
    pat = re.compile(r"^    (\w+) = (?:converter|converter_date|header_getter|list_header|date_header|etag_property|"
                     r"environ_getter\(\s*\"(?:HTTP_|CONTENT_|SERVER_PORT))", re.M)
    for side, fn, tab in (("resp", "response.py", RESP), ("req", "request.py", REQ)):
        src = open(os.path.join(fw.REPO, "src", "webob", fn)).read()
        src = re.sub(r"= converter\(\n\s+", "= converter(", src)
        names = set(pat.findall(src))
        names = {n for n in names if not n.startswith("_")}
        missing = sorted(n for n in names if n not in tab)
        if missing:
            ctx.broken.append("attribute table of %s has typed attributes the check does not know: %s" % (fn, ", ".join(missing)))
    return None


def report(ctx, res, case, source):
    if res:
        ctx.fail(res[0], res[1], case, True, source)


def oracle_sweep(ctx):
    rng = ctx.sub_rng("oracle")
    depth = ctx.scale(3, 4)
    nrand = ctx.scale(3000, 40000)
    # ---- totality, every attribute of both tables
    for side in ("resp", "req"):
        for attr, (key, kind) in sorted(table(side).items()):
            d = depth
            akey = kind if kind in ALPHA else KIND_ALPHA.get(kind, "str")
            if len(ALPHA[akey]) > 20:
                d = depth - 1
            texts = total_texts(kind, d, rng, nrand)
            n = 0
            cfgs = RESP_CFGS if side == "resp" else REQ_CFGS
            for t in texts:
                case = {"o": "total", "side": side, "attr": attr, "text": t, "cfg": cfgs[n % len(cfgs)]}
                report(ctx, o_total(case), case, "total")
                n += 1
            case = {"o": "total", "side": side, "attr": attr, "text": None}
            if not (side == "req" and attr == "server_port"):
                report(ctx, o_total(case), case, "total")
            ctx.oracle_count("total", n + 1, n)
    # ---- round trip / single line / None / del
    bound = ctx.scale(12, 24)
    for side in ("resp", "req"):
        for attr, (key, kind) in sorted(table(side).items()):
            if (side, attr) in GET_ONLY or kind in ("cache_control", "date", "date_delta", "if_range"):
                continue
            vals = valid_values(kind, rng, ctx.scale(200, 3000), bound)
            for v in vals:
                inits = [None]
                if kind in ("charset", "ct_params"):
                    inits = ["text/html", "text/html; charset=utf-8; x=1", "application/json"]
                elif kind == "req_content_type":
                    inits = [None, "text/plain; charset=utf-8"]
                elif rng.random() < 0.2:
                    inits = [None, "previous"]
                for init in inits:
                    cfgs = RESP_CFGS if side == "resp" else REQ_CFGS
                    case = {"o": "rt", "side": side, "attr": attr, "value": v, "init": init, "cfg": cfgs[vals.index(v) % len(cfgs)]}
                    report(ctx, o_rt(case), case, "roundtrip")
                    ctx.oracle_count("roundtrip", 1, 1)
                if side == "resp" and attr in HEADER_GETTER_FAMILY:
                    # the field is already present 0, 1, 2, 3 times in different spellings
                    vi = vals.index(v)
                    for n in ([0, 1, 2, 3] if vi < 6 else [vi % 4]):
                        case = {"o": "rt", "side": side, "attr": attr, "value": v, "lines": dup_lines(key, n)}
                        report(ctx, o_rt(case), case, "roundtrip")
                        ctx.oracle_count("roundtrip-duplicates", 1, 1)
    for attr in ("date", "expires", "last_modified", "retry_after"):
        key = RESP[attr][0]
        for v in [enc_dt(DT(2020, 1, 1, 12, 0, 0)), enc_dt(DT(1999, 12, 31, 23, 59, 59, tzinfo=datetime.timezone(TD(hours=2)))),
                  {"t": "date", "v": [2024, 2, 29]}]:
            for n in (0, 1, 2, 3):
                case = {"o": "rt", "side": "resp", "attr": attr, "value": v, "lines": dup_lines(key, n)}
                report(ctx, o_rt(case), case, "roundtrip")
                ctx.oracle_count("roundtrip-duplicates", 1, 1)
    # ---- dates in this process (whatever its TZ is) and in one subprocess per zone
    ny = ctx.scale(40, 1)
    years = [1970, 10000, ny]
    ndate = ctx.scale(3000, 60000)
    for tz in TZS:
        env = dict(os.environ, TZ=tz)
        p = subprocess.run([sys.executable, "-B", "-c", "from harness.props import c12; c12.tz_worker()"],
                           input=json.dumps({"seed": ctx.seed, "n": ndate, "years": years}),
                           capture_output=True, text=True, env=env, cwd=fw.ROOT)
        if p.returncode != 0:
            ctx.broken.append("date oracle worker for TZ=%s failed: %s" % (tz, p.stderr[-400:]))
            continue
        res = json.loads(p.stdout.strip().split("\n")[-1])
        ctx.oracle_count("dates-" + tz, res["count"], res["count"])
        for k, what, case, cnt in res["failures"]:
            case = dict(case, tz=tz)
            for _ in range(cnt):
                ctx.fail(k, what, case, True, "dates-" + tz)
    # ---- content_type_params: every value of one or two visible ASCII characters (what the setter leaves unquoted
    # must be what the getter's unquoted alternative reads; everything else goes through quoting)
    vis = [chr(c) for c in range(32, 127)]
    n = 0
    for v in vis + [a + b for a in vis for b in vis]:
        case = {"o": "rt", "side": "resp", "attr": "content_type_params", "value": {"t": "dict", "v": {"type": v}}, "init": "text/html"}
        report(ctx, o_rt(case), case, "roundtrip")
        n += 1
    for k in vis:
        if re.match(r"\A%s\Z" % TOKEN, k):
            for kk in (k, "a" + k + "b"):
                case = {"o": "rt", "side": "resp", "attr": "content_type_params", "value": {"t": "dict", "v": {kk: "v"}}, "init": "text/html"}
                report(ctx, o_rt(case), case, "roundtrip")
                n += 1
    ctx.oracle_count("content-type-params-ascii", n, n)
    # ---- every (start, stop) / (start, stop, length) up to the bound that is NOT valid: refused, or still wire syntax
    n = 0
    b = ctx.scale(6, 12)
    for s_ in range(-2, b):
        for e_ in list(range(-2, b)) + [None]:
            if e_ is None or 0 <= s_ < e_:
                continue
            for t in ("tuple", "list"):
                case = {"o": "invalid", "side": "req", "attr": "range", "value": {"t": t, "v": [s_, e_]}}
                report(ctx, o_invalid(case), case, "roundtrip")
                n += 1
            if e_ >= 0:
                case = {"o": "invalid", "side": "req", "attr": "range", "value": {"t": "range_obj", "v": [s_, e_]}}
                report(ctx, o_invalid(case), case, "roundtrip")
                n += 1
            for l_ in list(range(-1, b)) + [None]:
                if 0 <= s_ < e_ and (l_ is None or e_ <= l_):
                    continue
                case = {"o": "invalid", "side": "resp", "attr": "content_range", "value": {"t": "tuple", "v": [s_, e_, l_]}}
                report(ctx, o_invalid(case), case, "roundtrip")
                n += 1
    ctx.oracle_count("invalid-ranges", n, n)
    # ---- an empty list of methods is a value of Allow (RFC 7231 7.4.1: Allow = #method)
    for v in ({"t": "tuple", "v": []}, {"t": "list", "v": []}):
        case = {"o": "emptylist", "attr": "allow", "value": v}
        report(ctx, o_emptylist(case), case, "roundtrip")
    # ---- CR / LF
    n = 0
    for attr, (key, kind) in sorted(RESP.items()):
        if attr in CRLF_EXEMPT:
            continue
        wire = {"content_range": "bytes 0-4/10", "etag": '"a"', "date": "Mon, 01 Jan 2001 00:00:00 GMT", "date_delta": "120",
                "int": "5", "list": "GET, PUT", "auth": "Basic abc=", "str": "x"}.get(kind, "x")
        edge = [wire + "\n", "\n" + wire, wire + "\r\n", "\r" + wire, " " + wire + " \n ", wire + "\r", "\r\n"]
        for bad in ["a\nb", "a\rb", "a\r\nSet-Cookie: x=y", "\n", "x\n", "\ry", "bytes 0-1/2\nX: y", "W/\"a\"\n", "5\n", "Basic a\nb"] + edge:
            for init in (None, "old"):
                case = {"o": "crlf", "attr": attr, "value": bad, "init": init}
                report(ctx, o_crlf(case), case, "crlf")
                n += 1
    ctx.oracle_count("crlf", n, n)
    # ---- Cache-Control histories
    r2 = ctx.sub_rng("oracle-cc")
    m = ctx.scale(4000, 60000)
    for side in ("resp", "req"):
        # every pair of ops from a fixed universe, then random longer histories
        uni = [["get"], ["setp", "max_age", 5], ["setp", "no_cache", True], ["setp", "max_age", None], ["delp", "max_age"],
               ["setp_held", "no_store", True], ["setp", "public", True], ["setp", "only_if_cached", True],
               ["setp", "private", "a, b"], ["setp", "max_stale", 3], ["pset", "ext", "a b"], ["pclear"], ["ppop", "max-age"],
               ["hset", "max-age=7, no-store", {"max-age": "7", "no-store": None}], ["hset", "123"], ["hdel"],
               ["assign", "no-cache", {"no-cache": None}], ["assign", {"max-age": 5}, {"max-age": "5"}], ["assign", {"cc": {"max-age": 7}}],
               ["assign", None], ["assign", ""], ["del"]]
        cnt = 0
        for init in (None, "max-age=1", "public,max-age=1 , x=\"y z\""):
            for k in range(1, ctx.scale(2, 3) + 1):
                for ops in itertools.product(uni, repeat=k):
                    case = {"o": "cc", "side": side, "init": init, "ops": json.loads(json.dumps(ops))}
                    report(ctx, o_cc(case), case, "cache-control")
                    cnt += 1
        # the header is set back to a text the object was parsed from earlier, after the object changed
        muts = [["setp", "max_age", 9], ["setp", "no_cache", True], ["delp", "max_age"], ["pset", "ext", "q"], ["pclear"],
                ["setp", "no_store", True], ["ppop", "max-age"], ["assign", {"max-age": 3}, {"max-age": "3"}]]
        for text, wf in CC_TEXTS:
            for mu in muts:
                for pre in ([], [["get"]]):
                    case = {"o": "cc", "side": side, "init": None,
                            "ops": json.loads(json.dumps(pre + [["hset", text, wf], mu, ["hset", text, wf]]))}
                    report(ctx, o_cc(case), case, "cache-control")
                    cnt += 1
            for attr, v in (("max_age", 9), ("no_cache", True), ("no_store", True), ("max_age", None)):
                case = {"o": "cc", "side": side, "init": None,
                        "ops": json.loads(json.dumps([["hset", text, wf], ["get"], ["held_quiet", attr, v], ["hset", text, wf]]))}
                report(ctx, o_cc(case), case, "cache-control")
                cnt += 1
        for _ in range(m):
            case = {"o": "cc", "side": side, "init": r2.choice([None, "max-age=1", "no-cache, x=1", "garbage 1 2"]),
                    "ops": json.loads(json.dumps([rand_cc_op(r2, side) for _ in range(r2.randrange(1, 12))]))}
            report(ctx, o_cc(case), case, "cache-control")
            cnt += 1
        ctx.oracle_count("cache-control", cnt, cnt)


# ----------------------------------------------------------------------------------------------
# correspondence: Gallina models vs the real functions / attributes
# ----------------------------------------------------------------------------------------------
IMPORTS = ["Webob.Lib.PyStr", "Webob.Lib.C12_PyInt", "Webob.Lib.C12_Civil", "Webob.Model.C12_Headers",
           "Webob.Model.C12_ByteRange", "Webob.Model.C12_Dates", "Webob.Model.C12_CacheControl", "Webob.Model.C12_AuthCT", "Webob.Model.C12_Attrs"]
CFG = {"anch": False, "zn": False, "req_drop": True}


def source_cfg(ctx):
    """which of the known variants of Range.parse this tree has (fail-closed on anything else)"""
    import inspect
    from webob import byterange
    base = r"bytes *= *(\d*) *- *(\d*)"
    pat, flags = byterange._rx_range.pattern, byterange._rx_range.flags
    if pat == base:
        CFG["anch"] = False
    elif pat == base + " *$":
        CFG["anch"] = True
    else:
        ctx.broken.append("byterange._rx_range is %r: not a form the Range scanner model knows" % pat)
    if not (flags & re.I) or (flags & (re.M | re.S | re.X | re.A)):
        ctx.broken.append("byterange._rx_range flags changed: %r" % flags)
    crp = byterange._rx_content_range
    if crp.pattern != r"bytes (?:(\d+)-(\d+)|[*])/(?:(\d+)|[*])" or (crp.flags & (re.I | re.M | re.S | re.X | re.A)):
        ctx.broken.append("byterange._rx_content_range is %r: not the form the scanner model knows" % crp.pattern)
    src = inspect.getsource(byterange.Range.parse)
    CFG["zn"] = "not int(end)" in src
    from webob.request import BaseRequest
    src = inspect.getsource(BaseRequest._update_cache_control)
    CFG["req_drop"] = bool(re.search(r'\["webob\._cache_control"\]\s*=\s*\(None,\s*None\)', src))
    ctx.note("source variant: _rx_range anchored=%s, bytes=-0 unparsable=%s, request cache entry dropped on write=%s"
             % (CFG["anch"], CFG["zn"], CFG["req_drop"]))


def cfields(f):
    return "(%s)" % ", ".join(cz(x) for x in f)


def ccfg():
    now = DT(*FIXED_NOW)
    now_utc = int(time.mktime(now.timetuple()))
    return "(mkCfg %s %s %s %s)" % (cbool(CFG["anch"]), cbool(CFG["zn"]), cfields(FIXED_NOW), cz(now_utc))


def ascii_digits_only(t):
    """the scanner models read \\d as [0-9]: keep other decimal digits out of correspondence inputs"""
    return not any(c.isdecimal() and ord(c) > 127 for c in t) and not any(ord(c) > 255 and c.isspace() for c in t)



def latin1(t):
    return all(ord(c) < 256 for c in t)


BIG = 10 ** 30


def limit_long(texts, keep=2, longer=1000):
    """Coq evaluates a 4000-digit input in about a second: keep only a few of them per correspondence"""
    out, n = [], 0
    for t in texts:
        if len(t) > longer:
            n += 1
            if n > keep:
                continue
        out.append(t)
    return out


def nbytes(n):
    n = abs(n)
    return n.to_bytes((n.bit_length() + 7) // 8, "big")


def cz(n):
    """Coq term of type Z; big integers as octet strings (Coq parses long decimal literals very slowly)"""
    if abs(n) < BIG:
        return cZ(n)
    return "(Zb %s %s)" % (cbool(n < 0), cstr(nbytes(n)))


def bigfix(v):
    """expected-output form of integers beyond 10^30 (mirrors Lib/C12_PyInt.vint)"""
    if isinstance(v, bool) or v is None or isinstance(v, (str, bytes, Err)):
        return v
    if isinstance(v, int):
        return v if abs(v) < BIG else ["big", v < 0, nbytes(v)]
    if isinstance(v, (list, tuple)):
        return [bigfix(x) for x in v]
    return v


def cpyv(v):
    """Coq term of type pyv for a JSON-encoded Python value"""
    t, x = v["t"], v.get("v")
    if t == "none":
        return "PNone"
    if t == "int":
        return "(PInt %s)" % cz(x)
    if t == "str":
        return "(PStr %s)" % cstr(x)
    if t in ("list", "tuple"):
        if all(isinstance(e, str) for e in x):
            return "(PStrs %s)" % clist(cstr(e) for e in x)
        return "(PInts %s)" % clist(copt(None if e is None else cz(e)) for e in x)
    if t == "range_obj":
        return "(PRange %s %s)" % (cz(x[0]), copt(None if x[1] is None else cz(x[1])))
    if t == "cr_obj":
        return "(PCRange %s %s %s)" % tuple(copt(None if e is None else cz(e)) for e in x)
    if t == "dt":
        return "(PDateTime %s %s)" % (" ".join(cz(e) for e in x[:6]), copt(None if v.get("tz") is None else cz(v["tz"])))
    if t == "date":
        return "(PDate %s)" % " ".join(cz(e) for e in x)
    if t == "td":
        return "(PDelta %s)" % cz(x)
    if t == "auth":
        if isinstance(x[1], str):
            return "(PAuthS %s %s)" % (cstr(x[0]), cstr(x[1]))
        return "(PAuth %s %s)" % (cstr(x[0]), clist(cpair(cstr(k), cstr(w)) for k, w in dict(x[1]).items()))
    if t == "etag_pair":
        return "(PEtag %s %s)" % (cstr(x[0]), cbool(x[1]))
    raise ValueError(v)


def cop(prefix, o):
    t = o[0]
    if t == "get":
        return "(HGet %s_%s)" % (prefix, o[1])
    if t == "set":
        return "(HSet %s_%s %s)" % (prefix, o[1], cpyv(o[2]))
    if t == "del":
        return "(HDel %s_%s)" % (prefix, o[1])
    if t == "raw":
        return "(HRaw %s %s)" % (cstr(o[1]), cstr(o[2]))
    if t == "rawdel":
        return "(HRawDel %s)" % cstr(o[1])
    raise ValueError(o)


def canon(v):
    """observation of a value read from a typed attribute"""
    from webob.byterange import Range, ContentRange
    if v is None or isinstance(v, (int, str, Err)):
        return v
    if isinstance(v, DT):
        return ["dt", v.year, v.month, v.day, v.hour, v.minute, v.second,
                None if v.tzinfo is None else int(v.utcoffset().total_seconds())]
    if isinstance(v, Range):
        return ["range", v.start, v.end]
    if isinstance(v, ContentRange):
        return ["crange", v.start, v.stop, v.length]
    if isinstance(v, tuple) and hasattr(v, "authtype"):
        p = v.params
        return ["auth", v.authtype, p if isinstance(p, str) else [[k, w] for k, w in p.items()]]
    if isinstance(v, dict):
        return [[k, w] for k, w in v.items()]
    if isinstance(v, (tuple, list)):
        return [canon(x) for x in v]
    return repr(v)


WATCH = sorted({k for k, _ in REQ.values()})


def run_history(side, init, ops, cfg=None):
    """the real object (of the class / configuration `cfg`) driven through a history; per step [result, store]"""
    out = []
    with NowHook():
        if side == "resp":
            r = new_obj("resp", cfg)
            r.headerlist = [tuple(p) for p in init]
        else:
            r = new_obj("req", cfg)
            for k in WATCH:
                r.environ.pop(k, None)
            for k, v in init:
                r.environ[k] = v
        for o in ops:
            t = o[0]
            if t == "get":
                res = bigfix(canon(catch(getattr, r, o[1])))
            elif t == "set":
                res = catch(setattr, r, o[1], dec(o[2]))
            elif t == "del":
                res = catch(delattr, r, o[1])
            elif t == "raw":
                res = None
                if side == "resp":
                    r.headerlist.append((o[1], o[2]))
                else:
                    r.environ[o[1]] = o[2]
            elif t == "rawdel":
                res = None
                if side == "resp":
                    r.headerlist[:] = [(k, v) for k, v in r.headerlist if k.lower() != o[1].lower()]
                else:
                    r.environ.pop(o[1], None)
            if side == "resp":
                store = [list(kv) for kv in r.headerlist]
            else:
                store = [r.environ.get(k) for k in WATCH]
            out.append([res, store])
    return out


def case_variants(rng, name):
    c = rng.random()
    return name if c < 0.6 else (name.lower() if c < 0.8 else name.upper())


def gen_history(rng, side, attrs, maxlen):
    """random history over the given attributes: raw adversarial texts, valid and invalid assignments"""
    tab = table(side)
    init = []
    ops = []
    for _ in range(rng.randrange(1, maxlen + 1)):
        attr = rng.choice(attrs)
        key, kind = tab[attr]
        c = rng.random()
        if c < 0.3:
            texts = GEN_TEXTS[kind]
            t = rng.choice(texts)
            k = case_variants(rng, key) if side == "resp" else key
            ops.append(["raw", k, t])
            ops.append(["get", attr])
        elif c < 0.6:
            vals = GEN_VALUES[kind]
            ops.append(["set", attr, rng.choice(vals)])
            ops.append(["get", attr])
        elif c < 0.7:
            if not (side == "req" and attr == "server_port"):      # environ["SERVER_PORT"] = None: outside the model
                ops.append(["set", attr, {"t": "none"}])
        elif c < 0.8:
            if not (side == "req" and attr == "server_port" and rng.random() < 0.8):
                ops.append(["del", attr])
        elif c < 0.9:
            ops.append(["get", attr])
        else:
            ops.append(["rawdel", key])
    return init, ops


GEN_TEXTS = {}
GEN_VALUES = {}


def prepare_generators(ctx):
    rng = ctx.sub_rng("gen")
    for kind in ("int", "list", "str", "range", "content_range", "date", "date_delta", "auth", "etag", "if_range"):
        texts = [t for t in total_texts(kind, 2, rng, ctx.scale(300, 3000)) if latin1(t) and len(t) < 200]
        GEN_TEXTS[kind] = texts
    for kind in ("range", "content_range"):
        GEN_TEXTS[kind] += [t for t in SPECIAL[kind] if ascii_digits_only(t) and len(t) < 1000]
    GEN_VALUES["range"] = ([{"t": "tuple", "v": [a, b]} for a in (0, 1, 5, 10 ** 40) for b in (None, 0, 1, 6, 7, -1, 10 ** 40 + 5)]
                           + [{"t": "tuple", "v": [-5, None]}, {"t": "list", "v": [2, 9]}, {"t": "tuple", "v": [1, 2, 3]},
                              {"t": "tuple", "v": [4]}, {"t": "tuple", "v": []}, {"t": "tuple", "v": [-3, 4]}]
                           + [{"t": "range_obj", "v": v} for v in ([0, None], [0, 5], [-7, None], [3, 4], [10 ** 35, None])]
                           + [{"t": "str", "v": v} for v in ["bytes=0-4", "bytes=-5", "junk", "", "bytes=1-\n"]])
    GEN_VALUES["content_range"] = ([{"t": "tuple", "v": [a, b, c]} for a in (None, 0, 2) for b in (None, 0, 3, 9) for c in (None, 0, 5, 9, -1)]
                                   + [{"t": "tuple", "v": [0, 5]}, {"t": "list", "v": [2, 1]}, {"t": "tuple", "v": [1]},
                                      {"t": "list", "v": [1, 2, 3, 4]}, {"t": "tuple", "v": [10 ** 40, 10 ** 40 + 1, None]}]
                                   + [{"t": "cr_obj", "v": v} for v in ([0, 5, 10], [None, None, 7], [None, None, None], [3, 4, None], [0, 50, 10])]
                                   + [{"t": "str", "v": v} for v in ["bytes 0-4/10", "  bytes */5 ", " ", "", "junk", "a\nb"]])
    crlf = [{"t": "str", "v": v} for v in ["a\nb", "x\r", "\r\n", "1\n"]]
    GEN_VALUES["int"] = ([{"t": "int", "v": v} for v in [0, 1, 7, 10, 99, 255, 4096, 2 ** 31, 10 ** 30, -1, -20, 10 ** 60 + 7]]
                         + [{"t": "int", "v": rng.randrange(10 ** rng.randrange(1, 25))} for _ in range(30)]
                         + [{"t": "str", "v": v} for v in ["12", "abc", ""]] + crlf)
    toks = ["GET", "POST", "a", "x-y", "Accept-Encoding", "*", "en"]
    GEN_VALUES["list"] = ([{"t": "list", "v": [rng.choice(toks) for _ in range(rng.randrange(1, 4))]} for _ in range(30)]
                          + [{"t": "tuple", "v": ["GET", "HEAD"]}, {"t": "list", "v": []}, {"t": "list", "v": ["a\nb"]}]
                          + [{"t": "str", "v": v} for v in ["GET, POST", "a,b", " a ,, b ", ""]] + crlf)
    GEN_VALUES["str"] = [{"t": "str", "v": v} for v in ["a", "gzip", "a b, c", "\xe9", "", " x "]] + crlf


def disagreement(ctx, name, case, checks):
    """a model/implementation disagreement: a property failure on the implementation if any derived
    oracle case fails, otherwise a broken tie"""
    for c in checks:
        try:
            res = run_case(c)
        except Exception:  # noqa
            res = None
        if res:
            ctx.fail(res[0], res[1], c, True, "corr")
            return
    ctx.broken.append("correspondence %s: model and implementation disagree on %s" % (name, json.dumps(case)[:600]))


def derived_checks(side, ops):
    """oracle cases that speak about the same inputs as a history"""
    tab = table(side)
    out = []
    last_raw = {}
    for o in ops:
        if o[0] == "raw":
            for attr, (key, kind) in tab.items():
                if key.lower() == o[1].lower():
                    out.append({"o": "total", "side": side, "attr": attr, "text": o[2]})
        elif o[0] == "set" and o[2]["t"] != "none":
            key, kind = tab[o[1]]
            v = o[2]
            if v["t"] == "str" and ("\n" in v["v"] or "\r" in v["v"]):
                if side == "resp":
                    out.append({"o": "crlf", "attr": o[1], "value": v["v"], "init": None})
            else:
                out.append({"o": "rt", "side": side, "attr": o[1], "value": v, "init": None, "lenient": True})
                if side == "resp" and o[1] in HEADER_GETTER_FAMILY:
                    for n in (2, 3):
                        out.append({"o": "rt", "side": side, "attr": o[1], "value": v, "lines": dup_lines(key, n), "lenient": True})
    return out


def corr_group1(ctx):
    rng = ctx.sub_rng("corr1")
    # int() and str()
    texts = [t for t in total_texts("int", 3, rng, ctx.scale(400, 6000)) if latin1(t)]
    texts = texts[: ctx.scale(1000, 20000)]
    texts = limit_long([t for t in texts if len(t) < 9000], ctx.scale(4, 8))
    cases = [(cstr(t), bigfix(catch(int, t)), {"fn": "int", "text": t}) for t in texts]
    bad = ctx.corr("py_int", IMPORTS, "(fun s => match py_int s with Some z => vint z | None => VErr ValueError end)", cases,
                   in_type="str")
    for i in bad[:5]:
        ctx.broken.append("correspondence py_int: model and CPython disagree on int(%r)" % cases[i][2]["text"][:80])
    # (N.div is quadratic: a 4300-digit str_of_Z takes minutes in Coq, so printing is compared up to 10^300 only;
    #  reading is compared up to and beyond the 4300-digit limit by the py_int correspondence)
    nums = [0, 1, -1, 9, 10, 11, 99, 100, 101, 2 ** 31, -2 ** 63, 10 ** 20, 10 ** 300 + 1, -(10 ** 299)]
    nums += [rng.randrange(-10 ** 30, 10 ** 30) for _ in range(ctx.scale(300, 3000))]
    nums += list(range(-30, 130))
    sys.set_int_max_str_digits(max(sys.get_int_max_str_digits(), 4300))
    cases = [(cz(n), str(n), {"fn": "str", "n": str(n)}) for n in nums]
    bad = ctx.corr("str_of_int", IMPORTS, "(fun z => VStr (str_of_Z z))", cases, in_type="Z")
    for i in bad[:5]:
        ctx.broken.append("correspondence str_of_int: model and CPython disagree on str(%r)" % cases[i][2]["n"])
    # attribute histories
    n = ctx.scale(400, 5000)
    rattrs = [a for a, (k, kind) in RESP.items() if kind in ("int", "list", "str")]
    qattrs = [a for a, (k, kind) in REQ.items() if kind in ("int", "str")]
    cases = []
    for _ in range(n):
        init, ops = gen_history(rng, "resp", rattrs, 6)
        out = run_history("resp", init, ops)
        cases.append((cpair("(@nil (str * str))", clist(cop("R", o) for o in ops)), out, {"side": "resp", "ops": ops}))
    bad = ctx.corr("resp-attrs-1", IMPORTS, "(fun c => run_resp %s (fst c) (snd c))" % ccfg(), cases,
                   in_type="(pairs * list (hop rattr))")
    for i in bad[:5]:
        disagreement(ctx, "resp-attrs-1", cases[i][2], derived_checks("resp", cases[i][2]["ops"]))
    cases = []
    watch = clist(cstr(k) for k in WATCH)
    for _ in range(n):
        init, ops = gen_history(rng, "req", qattrs, 6)
        if not any(o[0] == "rawdel" and o[1] == "SERVER_PORT" for o in ops):
            init = [("SERVER_PORT", "80")]
        out = run_history("req", init, ops)
        cases.append((cpair(clist(cpair(cstr(k), cstr(v)) for k, v in init), clist(cop("Q", o) for o in ops)), out,
                      {"side": "req", "ops": ops, "init": init}))
    bad = ctx.corr("req-attrs-1", IMPORTS, "(fun c => run_req %s %s (fst c) (snd c))" % (ccfg(), watch), cases,
                   in_type="(pairs * list (hop qattr))")
    for i in bad[:5]:
        disagreement(ctx, "req-attrs-1", cases[i][2], derived_checks("req", cases[i][2]["ops"]))


def corr_group2(ctx):
    """Range / Content-Range: the two regex scanners, the two parsers, the validity predicate"""
    from webob import byterange
    rng = ctx.sub_rng("corr2")
    anch, zn = cbool(CFG["anch"]), cbool(CFG["zn"])

    def groups(rx, t):
        m = rx.match(t)
        return None if m is None else list(m.groups())

    for kind, rx, fn, parse, pfn in (
            ("range", byterange._rx_range,
             "(fun s => match rx_range %s s with None => VNone | Some (a, b) => VList [VStr a; VStr b] end)" % anch,
             byterange.Range.parse,
             "(fun s => match range_parse %s %s s with Ok r => bigv (range_val r) | Raise e => VErr e end)" % (anch, zn)),
            ("content_range", byterange._rx_content_range,
             "(fun s => match rx_content_range s with None => VNone | Some (a, b, c) => VList [oval a; oval b; oval c] end)",
             byterange.ContentRange.parse,
             "(fun s => match crange_parse s with Ok r => bigv (crange_val r) | Raise e => VErr e end)")):
        texts = [t for t in total_texts(kind, 4, rng, ctx.scale(600, 8000)) if ascii_digits_only(t) and len(t) < 9000]
        rng.shuffle(texts)
        head = [t for t in SPECIAL[kind] if ascii_digits_only(t) and len(t) < 9000]
        texts = limit_long(head + texts[: ctx.scale(1000, 30000)], ctx.scale(2, 6))
        cases = [(cstr(t), groups(rx, t), {"fn": "rx_" + kind, "text": t}) for t in texts]
        bad = ctx.corr("rx_" + kind, IMPORTS, fn, cases, in_type="str")
        for i in bad[:5]:
            ctx.broken.append("correspondence rx_%s: scanner model and re disagree on %r" % (kind, cases[i][2]["text"][:100]))
        cases = [(cstr(t), bigfix(canon(catch(parse, t))), {"fn": kind + ".parse", "text": t}) for t in texts]
        bad = ctx.corr(kind + "_parse", IMPORTS, pfn, cases, in_type="str")
        attr = ("req", "range") if kind == "range" else ("resp", "content_range")
        for i in bad[:5]:
            disagreement(ctx, kind + "_parse", cases[i][2],
                         [{"o": "total", "side": attr[0], "attr": attr[1], "text": cases[i][2]["text"]}])
    dom = [None, -1, 0, 1, 2, 3]
    cases = []
    for a in dom:
        for b in dom:
            for c in dom:
                for resp in (False, True):
                    cases.append(("(%s, %s, %s, %s)" % (copt(None if a is None else cZ(a)), copt(None if b is None else cZ(b)),
                                                         copt(None if c is None else cZ(c)), cbool(resp)),
                                  bool(byterange._is_content_range_valid(a, b, c, response=resp)),
                                  {"fn": "_is_content_range_valid", "args": [a, b, c, resp]}))
    bad = ctx.corr("cr_valid", IMPORTS, "(fun x => match x with (a, b, c, r) => VBool (cr_valid a b c r) end)", cases,
                   in_type="(option Z * option Z * option Z * bool)")
    for i in bad[:5]:
        ctx.broken.append("correspondence cr_valid: model and _is_content_range_valid disagree on %r" % (cases[i][2]["args"],))
    # attribute level, mixed with the group-1 attributes
    n = ctx.scale(300, 4000)
    cases = []
    for _ in range(n):
        init, ops = gen_history(rng, "resp", ["content_range", "content_range", "content_length", "allow"], 6)
        out = run_history("resp", init, ops)
        cases.append((cpair("(@nil (str * str))", clist(cop("R", o) for o in ops)), out, {"side": "resp", "ops": ops}))
    bad = ctx.corr("resp-attrs-2", IMPORTS, "(fun c => run_resp %s (fst c) (snd c))" % ccfg(), cases,
                   in_type="(pairs * list (hop rattr))")
    for i in bad[:5]:
        disagreement(ctx, "resp-attrs-2", cases[i][2], derived_checks("resp", cases[i][2]["ops"]))
    cases = []
    watch = clist(cstr(k) for k in WATCH)
    for _ in range(n):
        init, ops = gen_history(rng, "req", ["range", "range", "max_forwards", "referer"], 6)
        out = run_history("req", init, ops)
        cases.append((cpair("(@nil (str * str))", clist(cop("Q", o) for o in ops)), out, {"side": "req", "ops": ops, "init": []}))
    bad = ctx.corr("req-attrs-2", IMPORTS, "(fun c => run_req %s %s (fst c) (snd c))" % (ccfg(), watch), cases,
                   in_type="(pairs * list (hop qattr))")
    for i in bad[:5]:
        disagreement(ctx, "req-attrs-2", cases[i][2], derived_checks("req", cases[i][2]["ops"]))


def canonical_shaped(rng):
    """a text of the exact IMF-fixdate shape; fields mostly in range, sometimes not"""
    c = rng.random()
    if c < 0.6:
        ts = rng.randrange(-62135596800, 253402300800)
        return http_date(ts) if ts >= -62135596800 else http_date(0)
    wd = rng.choice(WD)
    mon = rng.choice(MON)
    two = lambda hi: "%02d" % rng.choice([0, 1, hi - 1, hi, 99, rng.randrange(100)])  # noqa
    year = "%04d" % rng.choice([0, 1, 68, 69, 99, 100, 999, 1000, 1969, 1970, 2024, 9999, rng.randrange(10000)])
    return "%s, %s %s %s %s:%s:%s GMT" % (wd, two(31), mon, year, two(24), two(60), two(60))


def corr_group3(ctx):
    """dates: timegm, fromtimestamp/formatdate, parsedate_tz on the canonical shape, attribute histories"""
    import calendar
    from email.utils import formatdate, parsedate_tz
    rng = ctx.sub_rng("corr3")
    n = ctx.scale(600, 8000)
    # calendar.timegm
    cases = []
    for _ in range(n):
        if rng.random() < 0.7:
            f = [rng.choice([1, 4, 100, 1600, 1900, 1970, 2000, 2024, 9999, rng.randrange(1, 10000)]), rng.randrange(1, 13),
                 rng.randrange(1, 32), rng.randrange(24), rng.randrange(60), rng.randrange(60)]
        else:
            f = [rng.choice([0, -1, 10000, 99999, 2020]), rng.choice([0, 1, 12, 13, 6]), rng.choice([0, 31, 99, -5]),
                 rng.choice([0, 99, -1]), rng.choice([0, 99]), rng.choice([0, 99, 61])]
        cases.append((cfields(f), catch(calendar.timegm, tuple(f) + (0, 1, -1)), {"fn": "timegm", "fields": f}))
    bad = ctx.corr("timegm", IMPORTS, "(fun f => match timegm f with Ok t => VInt t | Raise e => VErr e end)", cases, in_type="fields")
    for i in bad[:5]:
        ctx.broken.append("correspondence timegm: model and calendar.timegm disagree on %r" % (cases[i][2]["fields"],))
    # formatdate(ts, usegmt=True)  (= fromtimestamp + weekday + formatting)
    cases = []
    tss = [0, -1, 1, 86399, 86400, -62135596800, 253402300799, 951782400, 951868800, 4102444800, -2208988800,
           253402300800, -62135596801]
    tss += [rng.randrange(-62135596800, 253402300800) for _ in range(n)]
    tss += [(DT(y, 1, 1) - EPOCH) // TD(seconds=1) - k for y in range(1, 10000, ctx.scale(97, 7)) for k in (0, 1)]
    for ts in tss:
        cases.append((cz(ts), catch(formatdate, ts, usegmt=True), {"fn": "formatdate", "ts": ts}))
    bad = ctx.corr("formatdate", IMPORTS, "(fun t => match format_date t with Ok s => VStr s | Raise e => VErr e end)", cases, in_type="Z")
    for i in bad[:5]:
        ctx.broken.append("correspondence formatdate: model and email.utils.formatdate disagree on %r" % cases[i][2]["ts"])
    # parsedate_tz on canonical-shaped text
    cases = []
    for _ in range(n):
        t = canonical_shaped(rng)
        r = parsedate_tz(t)
        cases.append((cstr(t), None if r is None else [list(r[:6]), r[9]], {"fn": "parsedate_tz", "text": t}))
    bad = ctx.corr("parsedate_tz-canonical", IMPORTS,
                   "(fun s => match parse_imf s with None => VNone | Some ((y, m, d, h, mi, ss), tz) => "
                   "VList [VList [VInt y; VInt m; VInt d; VInt h; VInt mi; VInt ss]; oz tz] end)", cases, in_type="str")
    for i in bad[:5]:
        ctx.broken.append("correspondence parsedate_tz: model and email.utils.parsedate_tz disagree on %r" % cases[i][2]["text"])
    # attribute histories: date attributes of both sides
    GEN_TEXTS["date"] = [canonical_shaped(rng) for _ in range(400)] + ["", "abc", "GMT"]
    GEN_TEXTS["date_delta"] = GEN_TEXTS["date"] + ["0", "120", "-5", " 7 ", "1_0", "99999999999999999999", "-99999999999999999999",
                                                   "86399999999999", "86400000000000", "253370764800", "253370800000", "-63000000000",
                                                   "+3"]
    vals = [v for v in date_values(rng, 300, [1970, 2000, 9999]) if v["t"] in ("dt", "date", "int")]
    vals += [{"t": "td", "v": x} for x in (0, 1, -1, 3600, 86400 * 365, -86400)]
    vals += [{"t": "str", "v": x} for x in ("Mon, 01 Jan 2001 00:00:00 GMT", "tomorrow", "a\nb", "")]
    vals += [enc_dt(DT(1, 1, 1)), enc_dt(DT(9999, 12, 31, 23, 59, 59)), {"t": "int", "v": 253402300800}, {"t": "int", "v": -62135596801}]
    GEN_VALUES["date"] = vals
    GEN_VALUES["date_delta"] = [v for v in vals if v["t"] != "int"] + [{"t": "int", "v": x} for x in (0, 5, 120, 10 ** 12, -7)]
    m = ctx.scale(300, 4000)
    cases = []
    for _ in range(m):
        init, ops = gen_history(rng, "resp", ["date", "expires", "last_modified", "retry_after", "retry_after", "age"], 6)
        out = run_history("resp", init, ops)
        cases.append((cpair("(@nil (str * str))", clist(cop("R", o) for o in ops)), out, {"side": "resp", "ops": ops}))
    bad = ctx.corr("resp-attrs-3", IMPORTS, "(fun c => run_resp %s (fst c) (snd c))" % ccfg(), cases,
                   in_type="(pairs * list (hop rattr))")
    for i in bad[:5]:
        disagreement(ctx, "resp-attrs-3", cases[i][2], derived_checks("resp", cases[i][2]["ops"]))
    cases = []
    watch = clist(cstr(k) for k in WATCH)
    for _ in range(m):
        init, ops = gen_history(rng, "req", ["date", "if_modified_since", "if_unmodified_since", "range"], 6)
        out = run_history("req", init, ops)
        cases.append((cpair("(@nil (str * str))", clist(cop("Q", o) for o in ops)), out, {"side": "req", "ops": ops, "init": []}))
    bad = ctx.corr("req-attrs-3", IMPORTS, "(fun c => run_req %s %s (fst c) (snd c))" % (ccfg(), watch), cases,
                   in_type="(pairs * list (hop qattr))")
    for i in bad[:5]:
        disagreement(ctx, "req-attrs-3", cases[i][2], derived_checks("req", cases[i][2]["ops"]))


# ---- Cache-Control
def ccval(v):
    if v is None:
        return "CNone"
    if isinstance(v, bool):
        return "(CStr %s)" % cstr(str(v))
    if isinstance(v, int):
        return "(CInt %s)" % cz(v)
    return "(CStr %s)" % cstr(v)


def cprops(d):
    return clist(cpair(cstr(k), ccval(v)) for k, v in d.items())


def cdval(v):
    if v is None:
        return "DNone"
    if v is True:
        return "DTrue"
    if v is False:
        return "DFalse"
    if isinstance(v, int):
        return "(DInt %s)" % cz(v)
    return "(DStr %s)" % cstr(v)


def cccv(v):
    if v is None:
        return "ANone"
    if isinstance(v, str):
        return "(AText %s)" % cstr(v)
    if "cc" in v and isinstance(v.get("cc"), dict):
        return "(ADict %s)" % cprops(v["cc"])
    return "(ADict %s)" % cprops(v)


def ccop(side, o):
    t = o[0]
    q = side == "req"
    if t == "get":
        return "QGet" if q else "CGet"
    if t in ("setp", "setp_held"):
        return ("(QSetAttr %s A_%s %s)" % (cbool(t.endswith("held")), o[1], cdval(o[2]))) if q else "(CSetAttr A_%s %s)" % (o[1], cdval(o[2]))
    if t in ("delp", "delp_held"):
        return ("(QDelAttr %s A_%s)" % (cbool(t.endswith("held")), o[1])) if q else "(CDelAttr A_%s)" % o[1]
    if t == "pset":
        return "(%s %s %s)" % ("QPSet" if q else "CPSet", cstr(o[1]), ccval(o[2]))
    if t == "ppop":
        return "(CPDel %s)" % cstr(o[1])
    if t == "pclear":
        return "QPClear" if q else "CPClear"
    if t == "hset":
        return "(%s %s)" % ("QHeader" if q else "CHeader", cstr(o[1]))
    if t == "hdel":
        return "QHeaderDel" if q else "CHeaderDel"
    if t == "assign":
        return "(%s %s)" % ("QAssign" if q else "CAssign", cccv(o[1]))
    if t == "del":
        return "QDelete" if q else "CDelete"
    if t == "assign_self":
        return "CAssignSelf"
    raise ValueError(o)


def run_cc_history(side, init, ops):
    """the real attribute driven through a history; per step [exception, header before the read,
    properties shown by the accessor, (str(cc),) header after the read]"""
    from webob.cachecontrol import CacheControl
    Request, Response = webob()
    ops = json.loads(json.dumps(ops))
    key = "HTTP_CACHE_CONTROL"
    if side == "resp":
        r = Response()
        r.headerlist = [] if init is None else [("Cache-Control", init)]
    else:
        r = Request.blank("/")
        if init is not None:
            r.environ[key] = init
    held = None
    out = []

    def store():
        if side == "resp":
            return [list(kv) for kv in r.headerlist]
        return r.environ.get(key)

    for o in ops:
        t = o[0]
        exc = None
        try:
            if t == "get":
                held = r.cache_control
            elif t in ("setp", "setp_held"):
                cc = held if (t.endswith("held") and held is not None) else r.cache_control
                setattr(cc, o[1], o[2])
            elif t in ("delp", "delp_held"):
                cc = held if (t.endswith("held") and held is not None) else r.cache_control
                delattr(cc, o[1])
            elif t == "pset":
                r.cache_control.properties[o[1]] = o[2]
            elif t == "ppop":
                r.cache_control.properties.pop(o[1], None)
            elif t == "pclear":
                r.cache_control.properties.clear()
            elif t == "hset":
                if side == "resp":
                    r.headers["Cache-Control"] = o[1]
                else:
                    r.environ[key] = o[1]
            elif t == "hdel":
                if side == "resp":
                    r.headers.pop("Cache-Control", None)
                else:
                    r.environ.pop(key, None)
            elif t == "assign":
                v = o[1]
                if isinstance(v, dict) and isinstance(v.get("cc"), dict):
                    v = CacheControl(dict(v["cc"]), "response" if side == "resp" else "request")
                r.cache_control = v
            elif t == "del":
                del r.cache_control
            elif t == "assign_self":
                r.cache_control = r.cache_control
        except Exception as e:  # noqa
            exc = Err(type(e).__name__)
        before = store()
        cc = r.cache_control
        props = [[k, bigfix(v)] for k, v in cc.properties.items()]
        if side == "resp":
            out.append([exc, before, props, str(cc), store()])
        else:
            out.append([exc, before, props, store()])
    return out


def cc_corr_op(rng, side):
    """ops of the oracle's language that the Coq machines model"""
    while True:
        o = rand_cc_op(rng, side)
        t = o[0]
        if t in ("pdel", "pupdate", "psetdefault", "held_quiet"):
            continue
        if t == "assign_self" and (side == "req" or o[1] != "same"):
            continue
        if side == "resp" and t in ("setp_held", "delp_held", "ppop") and t != "ppop":
            continue
        if side == "req" and t == "ppop":
            continue
        if t == "assign" and isinstance(o[1], dict) and isinstance(o[1].get("cc"), dict) and not o[1]["cc"]:
            continue
        if t in ("setp", "setp_held") and isinstance(o[2], str) and not latin1(o[2]):
            continue
        return o[:3] if t in ("hset", "assign") and len(o) == 3 and t == "hset" else (o[:2] if t == "assign" else o)


def corr_group4(ctx):
    from webob import cachecontrol
    rng = ctx.sub_rng("corr4")
    texts = [t for t in total_texts("cache_control", 3, rng, ctx.scale(500, 8000)) if latin1(t) and len(t) < 9000]
    rng.shuffle(texts)
    texts = limit_long([t for t in SPECIAL["cache_control"] if latin1(t)] + [c[0] for c in CC_TEXTS] + texts[: ctx.scale(1200, 20000)])
    cases = [(cstr(t), [[m.group(1), m.group(2) or m.group(3) or ""] for m in cachecontrol.token_re.finditer(t)],
              {"fn": "token_re.finditer", "text": t}) for t in texts]
    bad = ctx.corr("token_re", IMPORTS, "(fun s => VList (map (fun nv => VList [VStr (fst nv); VStr (snd nv)]) (tokens (S (@List.length N s)) s)))",
                   cases, in_type="str")
    for i in bad[:5]:
        ctx.broken.append("correspondence token_re: scanner model and re disagree on %r" % cases[i][2]["text"][:100])
    cases = [(cstr(t), [[k, bigfix(v)] for k, v in cachecontrol.CacheControl.parse(t).properties.items()],
              {"fn": "CacheControl.parse", "text": t}) for t in texts]
    bad = ctx.corr("cc_parse", IMPORTS, "(fun s => props_val (parse_cc s))", cases, in_type="str")
    for i in bad[:5]:
        disagreement(ctx, "cc_parse", cases[i][2], [{"o": "total", "side": "resp", "attr": "cache_control", "text": cases[i][2]["text"]}])
    # serialize_cache_control
    names = ["max-age", "no-cache", "private", "a", "B", "ab", "a-b", "a_b", "z", "public", "s-maxage"]
    vals = [None, 0, 5, -3, 10 ** 40, "x", "a b", "a,b", 'q"r', "", "\xe9", "1.5", "A_b-c.d", "set-cookie", " "]
    cases = []
    for _ in range(ctx.scale(500, 6000)):
        d = {}
        for _ in range(rng.randrange(0, 5)):
            d[rng.choice(names)] = rng.choice(vals)
        cases.append((cprops(d), cachecontrol.serialize_cache_control(d), {"fn": "serialize_cache_control", "props": d}))
    bad = ctx.corr("cc_serialize", IMPORTS, "(fun p => VStr (serialize_cc p))", cases, in_type="props")
    for i in bad[:5]:
        ctx.broken.append("correspondence cc_serialize: model and serialize_cache_control disagree on %r" % (cases[i][2]["props"],))
    # the two bindings, over histories
    n = ctx.scale(400, 6000)
    for side, fn, ty in (("resp", "(fun c => run_resp_cc (match fst c with Some t => [(cc_name, t)] | None => [] end) (snd c))", "(option str * list cop)"),
                         ("req", "(fun c => run_req_cc %s (fst c) (snd c))" % cbool(CFG["req_drop"]), "(option str * list qop)")):
        cases = []
        for j in range(n):
            init = rng.choice([None, "max-age=1", "public,max-age=1 , x=\"y z\"", "garbage 1 2", "no-cache"])
            if j % 7 == 0:
                text, wf = rng.choice(CC_TEXTS)
                ops = [["hset", text], cc_corr_op(rng, side), ["hset", text], cc_corr_op(rng, side)]
            else:
                ops = [cc_corr_op(rng, side) for _ in range(rng.randrange(1, 8))]
            ops = json.loads(json.dumps(ops))
            out = run_cc_history(side, init, ops)
            cases.append((cpair(copt(None if init is None else cstr(init)), clist(ccop(side, o) for o in ops)), out,
                          {"o": "cc", "side": side, "init": init, "ops": ops}))
        bad = ctx.corr("cc-binding-" + side, IMPORTS, fn, cases, in_type=ty)
        for i in bad[:5]:
            disagreement(ctx, "cc-binding-" + side, cases[i][2], [cases[i][2]])


# ---- credentials and Content-Type
def run_ct_history(init, ops, cfg=None):
    r = new_obj("resp", cfg)
    r.headerlist = [tuple(p) for p in init]
    out = []
    for o in ops:
        t = o[0]
        if t == "get":
            res = canon(catch(getattr, r, o[1]))
        elif t == "set":
            res = catch(setattr, r, o[1], dec(o[2]))
        elif t == "del":
            res = catch(delattr, r, o[1])
        elif t == "raw":
            res = None
            r.headerlist.append((o[1], o[2]))
        elif t == "rawdel":
            res = None
            r.headerlist[:] = [(k, v) for k, v in r.headerlist if k.lower() != "content-type"]
        out.append([res, [list(kv) for kv in r.headerlist]])
    return out


def ctop(o):
    a = {"charset": "T_charset", "content_type": "T_content_type", "content_type_params": "T_params"}
    t = o[0]
    if t == "get":
        return "(TGet %s)" % a[o[1]]
    if t == "set":
        v = o[2]
        if v["t"] == "dict":
            return "(TSet %s (PAuth [] %s))" % (a[o[1]], clist(cpair(cstr(k), cstr(w)) for k, w in v["v"].items()))
        return "(TSet %s %s)" % (a[o[1]], cpyv(v))
    if t == "del":
        return "(TDel %s)" % a[o[1]]
    if t == "raw":
        return "(TRaw %s %s)" % (cstr(o[1]), cstr(o[2]))
    return "TRawDel"


def corr_group5(ctx):
    from webob import descriptors, response as wresp, request as wreq
    rng = ctx.sub_rng("corr5")
    # _rx_auth_param.findall / parse_auth
    texts = [t for t in total_texts("auth", 4, rng, ctx.scale(800, 10000)) if latin1(t) and len(t) < 2000]
    rng.shuffle(texts)
    texts = [t for t in SPECIAL["auth"] if latin1(t)] + texts[: ctx.scale(1000, 30000)]
    cases = [(cstr(t), [list(m) for m in descriptors._rx_auth_param.findall(t)], {"fn": "_rx_auth_param.findall", "text": t}) for t in texts]
    bad = ctx.corr("auth_params", IMPORTS, "(fun s => dict_val (auth_params (S (@List.length N s)) s))", cases, in_type="str")
    for i in bad[:5]:
        ctx.broken.append("correspondence auth_params: scanner model and re disagree on %r" % cases[i][2]["text"][:100])
    cases = [(cstr(t), canon(catch(descriptors.parse_auth, t)), {"fn": "parse_auth", "text": t}) for t in texts]
    bad = ctx.corr("parse_auth", IMPORTS, "(fun s => match parse_auth (Some s) with Ok v => v | Raise e => VErr e end)", cases, in_type="str")
    for i in bad[:5]:
        disagreement(ctx, "parse_auth", cases[i][2], [{"o": "total", "side": "req", "attr": "authorization", "text": cases[i][2]["text"]}])
    # CHARSET_RE.search and _PARAM_RE.finditer
    texts = [t for t in total_texts("content_type", 4, rng, ctx.scale(800, 10000)) if latin1(t) and len(t) < 2000]
    rng.shuffle(texts)
    texts = [t for t in SPECIAL["content_type"] if latin1(t)] + texts[: ctx.scale(1000, 30000)]

    def cs(t):
        m = descriptors.CHARSET_RE.search(t)
        return None if m is None else [t[:m.start()], m.group(1), t[m.end():]]

    cases = [(cstr(t), cs(t), {"fn": "CHARSET_RE.search", "text": t}) for t in texts]
    bad = ctx.corr("charset_re", IMPORTS, "(fun s => match charset_re s with None => VNone | Some (a, b, c) => VList [VStr a; VStr b; VStr c] end)",
                   cases, in_type="str")
    for i in bad[:5]:
        ctx.broken.append("correspondence charset_re: scanner model and re disagree on %r" % cases[i][2]["text"][:100])
    qp = getattr(wresp, "_QUOTED_PAIR_RE", None)

    def pvalue(m):
        g2 = m.group(2)
        if g2 is not None and qp is not None:
            g2 = qp.sub(r"\1", g2)
        return g2 or m.group(3) or ""

    ptexts = texts + [t for t in ['a="x\\"y"; b=1', 'a="p\\\\q"', 'a="\\', 'a="x\\', 'foo-bar=z; q+=1', 'a="b\\\nc"', "x_y.z=1;!#$=2", 'a="\\\\"; b="\\""']]
    cases = [(cstr(t), [[m.group(1), pvalue(m)] for m in wresp._PARAM_RE.finditer(t)], {"fn": "_PARAM_RE.finditer", "text": t})
             for t in ptexts]
    bad = ctx.corr("param_re", IMPORTS, "(fun s => dict_val (param_scan (S (@List.length N s)) s))", cases, in_type="str")
    for i in bad[:5]:
        disagreement(ctx, "param_re", cases[i][2],
                     [{"o": "rt", "side": "resp", "attr": "content_type_params", "value": {"t": "dict", "v": {"a": 'x"y'}}, "init": "text/html"},
                      {"o": "rt", "side": "resp", "attr": "content_type_params", "value": {"t": "dict", "v": {"foo-bar": "z"}}, "init": "text/html"}])
    # Request content_type / charset
    Request, Response = webob()

    def qobs(env, newv):
        r = Request.blank("/")
        r.environ.pop("CONTENT_TYPE", None)
        if env is not None:
            r.environ["CONTENT_TYPE"] = env
        a = [r.content_type, catch(lambda: r.charset)]
        r.content_type = newv
        return a + [r.environ.get("CONTENT_TYPE")]

    cases = []
    for t in [None] + texts[: ctx.scale(600, 8000)]:
        nv = rng.choice([None, "text/plain", "a/b; x=1", "", "text/html;charset=latin-1"])
        cases.append((cpair(copt(None if t is None else cstr(t)), copt(None if nv is None else cstr(nv))), qobs(t, nv),
                      {"fn": "Request.content_type/charset", "env": t, "new": nv}))
    bad = ctx.corr("req-content-type", IMPORTS, "(fun c => VList [qct_get (fst c); qcharset_get (fst c); ostr (qct_set (snd c) (fst c))])",
                   cases, in_type="(option str * option str)")
    for i in bad[:5]:
        disagreement(ctx, "req-content-type", cases[i][2],
                     [{"o": "total", "side": "req", "attr": "charset", "text": cases[i][2]["env"]},
                      {"o": "total", "side": "req", "attr": "content_type", "text": cases[i][2]["env"]}])
    # Response charset / content_type / content_type_params histories
    cts = [t for t in texts if "\n" not in t][:200] + ["text/html", "text/html; charset=utf-8", "application/json", 'a/b; x="1"; y=2']
    vals = {"charset": [{"t": "str", "v": v} for v in ["utf-8", "latin-1", "x", ""]] + [{"t": "none"}],
            "content_type": [{"t": "str", "v": v} for v in ["text/html", "text/plain", "application/json", "application/xml", "image/svg+xml",
                                                            "application/atom+xml", "text/x; charset=a", "a/b; x=y", "", "image/png+xml"]]
            + [{"t": "none"}],
            "content_type_params": [{"t": "dict", "v": d} for d in [{"a": "x"}, {"b": "p q", "a": "1"}, {"c": 'q"r'}, {"charset": "utf-8"}, {"foo-bar": "p\\q"}, {"t": "svg+xml"},
                                                                    {}, {"B": ""}, {"a": "x\n"}, {"z": "\xe9"}]] + [{"t": "none"}]}
    cases = []
    for _ in range(ctx.scale(500, 6000)):
        init = []
        if rng.random() < 0.8:
            init = [("Content-Type", rng.choice(cts))]
            if rng.random() < 0.1:
                init.append(("content-type", rng.choice(cts)))
        ops = []
        for _ in range(rng.randrange(1, 6)):
            a = rng.choice(["charset", "content_type", "content_type_params"])
            c = rng.random()
            if c < 0.35:
                ops.append(["get", a])
            elif c < 0.7:
                ops.append(["set", a, rng.choice(vals[a])])
                ops.append(["get", a])
            elif c < 0.85:
                ops.append(["del", a])
            elif c < 0.95:
                ops.append(["raw", rng.choice(["Content-Type", "content-type"]), rng.choice(cts)])
            else:
                ops.append(["rawdel"])
        cfg = rng.choice(RESP_CFGS)
        out = run_ct_history(init, ops, cfg)
        cases.append(("(%s, %s, %s)" % (cstr(default_charset_of(cfg)),
                                        clist(cpair(cstr(k), cstr(v)) for k, v in init) if init else "(@nil (str * str))",
                                        clist(ctop(o) for o in ops)), out, {"side": "resp", "init": init, "ops": ops, "cfg": cfg}))
    bad = ctx.corr("resp-content-type", IMPORTS, "(fun c => match c with (d, i, o) => run_ct d i o end)", cases,
                   in_type="(str * pairs * list ctop)")
    for i in bad[:5]:
        checks = []
        for o in cases[i][2]["ops"]:
            if o[0] == "raw":
                for a in ("charset", "content_type", "content_type_params"):
                    checks.append({"o": "total", "side": "resp", "attr": a, "text": o[2]})
        disagreement(ctx, "resp-content-type", cases[i][2], checks)
    # credentials through the attribute machines
    GEN_TEXTS["auth"] = texts_auth = [t for t in SPECIAL["auth"] if latin1(t)] + [t for t in total_texts("auth", 2, rng, 300) if latin1(t)][:300]
    GEN_VALUES["auth"] = ([v for v in valid_values("auth", rng, 60, 0) if latin1(json.dumps(v, ensure_ascii=False))]
                          + [{"t": "str", "v": "a\nb"}, {"t": "auth", "v": ["Digest", {"realm": "a\nb"}]}])
    m = ctx.scale(300, 4000)
    cases = []
    for _ in range(m):
        init, ops = gen_history(rng, "resp", ["www_authenticate", "www_authenticate", "server"], 5)
        out = run_history("resp", init, ops)
        cases.append((cpair("(@nil (str * str))", clist(cop("R", o) for o in ops)), out, {"side": "resp", "ops": ops}))
    bad = ctx.corr("resp-attrs-5", IMPORTS, "(fun c => run_resp %s (fst c) (snd c))" % ccfg(), cases, in_type="(pairs * list (hop rattr))")
    for i in bad[:5]:
        disagreement(ctx, "resp-attrs-5", cases[i][2], derived_checks("resp", cases[i][2]["ops"]))
    cases = []
    watch = clist(cstr(k) for k in WATCH)
    for _ in range(m):
        init, ops = gen_history(rng, "req", ["authorization", "authorization", "pragma"], 5)
        out = run_history("req", init, ops)
        cases.append((cpair("(@nil (str * str))", clist(cop("Q", o) for o in ops)), out, {"side": "req", "ops": ops, "init": []}))
    bad = ctx.corr("req-attrs-5", IMPORTS, "(fun c => run_req %s %s (fst c) (snd c))" % (ccfg(), watch), cases, in_type="(pairs * list (hop qattr))")
    for i in bad[:5]:
        disagreement(ctx, "req-attrs-5", cases[i][2], derived_checks("req", cases[i][2]["ops"]))


def corr_mix(ctx):
    """model counterpart of the stateful oracle: ONE header list / environ driven through long interleavings of
    ALL modelled attributes (the models are pure functions of the store, so this checks that the code is too);
    Response histories start from lists with several, also duplicate and differently spelled, lines"""
    rng = ctx.sub_rng("corr-mix")
    rattrs = ["allow", "vary", "content_language", "content_length", "age", "content_encoding", "content_location", "content_md5",
              "content_disposition", "accept_ranges", "location", "pragma", "server", "content_range", "date", "expires",
              "last_modified", "retry_after", "www_authenticate"]
    qattrs = ["max_forwards", "content_length", "server_port", "pragma", "referer", "user_agent", "range", "date",
              "if_modified_since", "if_unmodified_since", "authorization"]
    n = ctx.scale(150, 3000)
    cases = []
    for _ in range(n):
        _, ops = gen_history(rng, "resp", rattrs, ctx.scale(14, 30))
        init = []
        for _ in range(rng.randrange(0, 5)):
            a = rng.choice(rattrs)
            key, kind = RESP[a]
            init.append((case_variants(rng, key), rng.choice(GEN_TEXTS[kind])))
        cfg = rng.choice(RESP_CFGS)
        out = run_history("resp", init, ops, cfg)
        cases.append((cpair(clist(cpair(cstr(k), cstr(v)) for k, v in init) if init else "(@nil (str * str))",
                            clist(cop("R", o) for o in ops)), out,
                      {"o": "hist", "side": "resp", "init": [list(p) for p in init], "ops": ops, "cfg": cfg}))
    bad = ctx.corr("resp-attrs-mix", IMPORTS, "(fun c => run_resp %s (fst c) (snd c))" % ccfg(), cases, in_type="(pairs * list (hop rattr))")
    for i in bad[:5]:
        disagreement(ctx, "resp-attrs-mix", cases[i][2], [cases[i][2]] + derived_checks("resp", cases[i][2]["ops"]))
    cases = []
    watch = clist(cstr(k) for k in WATCH)
    for _ in range(n):
        _, ops = gen_history(rng, "req", qattrs, ctx.scale(14, 30))
        init = [("SERVER_PORT", "80")]
        for _ in range(rng.randrange(0, 4)):
            a = rng.choice(qattrs)
            key, kind = REQ[a]
            init = [kv for kv in init if kv[0] != key] + [(key, rng.choice(GEN_TEXTS[kind]))]
        cfg = rng.choice(REQ_CFGS)
        out = run_history("req", init, ops, cfg)
        st = [dict(init).get(k, ABSENT) for k in WATCH]
        cases.append((cpair(clist(cpair(cstr(k), cstr(v)) for k, v in init), clist(cop("Q", o) for o in ops)), out,
                      {"o": "hist", "side": "req", "init": st, "ops": ops, "cfg": cfg}))
    bad = ctx.corr("req-attrs-mix", IMPORTS, "(fun c => run_req %s %s (fst c) (snd c))" % (ccfg(), watch), cases,
                   in_type="(pairs * list (hop qattr))")
    for i in bad[:5]:
        disagreement(ctx, "req-attrs-mix", cases[i][2], [cases[i][2]] + derived_checks("req", cases[i][2]["ops"]))



# ----------------------------------------------------------------------------------------------
# traceability: what the Gallina models mirror by hand (ctx.modelled records file, lines and a hash of each)
# ----------------------------------------------------------------------------------------------
_RESP_TABLE = ["allow", "vary", "content_language", "content_length", "age", "content_encoding", "content_location", "content_md5",
               "content_disposition", "accept_ranges", "location", "pragma", "server", "content_range", "date", "expires",
               "last_modified", "retry_after", "www_authenticate", "charset", "content_type", "content_type_params", "cache_control"]
_REQ_TABLE = ["authorization", "cache_control", "date", "if_modified_since", "if_unmodified_since", "max_forwards", "pragma", "range",
              "referer", "user_agent", "content_length", "server_port", "content_type", "charset"]
MODELLED = (
    # Model/C12_Headers.v
    ["webob.descriptors:" + n for n in ("environ_getter", "header_getter", "converter", "list_header", "parse_list", "serialize_list",
                                        "converter_date", "date_header", "parse_int", "parse_int_safe", "serialize_int")]
    # Model/C12_ByteRange.v
    + ["webob.byterange:" + n for n in ("_rx_range", "_rx_content_range", "Range.__init__", "Range.__str__", "Range.parse",
                                        "ContentRange.__init__", "ContentRange.__str__", "ContentRange.parse", "_is_content_range_valid")]
    + ["webob.descriptors:" + n for n in ("parse_range", "serialize_range", "parse_content_range", "serialize_content_range")]
    # Model/C12_Dates.v (with the stdlib functions it mirrors; _parsedate_tz on the canonical IMF-fixdate form only)
    + ["webob.datetime_utils:" + n for n in ("parse_date", "serialize_date", "parse_date_delta", "serialize_date_delta", "_UTC")]
    + ["calendar:timegm", "email._parseaddr:mktime_tz", "email._parseaddr:_parsedate_tz", "email.utils:formatdate",
       "email.utils:format_datetime", "email.utils:_format_timetuple_and_zone"]
    # Model/C12_CacheControl.v
    + ["webob.cachecontrol:" + n for n in ("UpdateDict", "token_re", "need_quote_re", "exists_property", "value_property", "CacheControl",
                                           "serialize_cache_control")]
    + ["webob.response:Response." + n for n in ("_cache_control__get", "_cache_control__set", "_cache_control__del", "_update_cache_control")]
    + ["webob.request:BaseRequest." + n for n in ("_cache_control__get", "_cache_control__set", "_cache_control__del", "_update_cache_control")]
    # Model/C12_AuthCT.v
    + ["webob.descriptors:" + n for n in ("_rx_auth_param", "parse_auth_params", "known_auth_schemes", "parse_auth", "serialize_auth",
                                          "CHARSET_RE")]
    + ["webob.response:" + n for n in ("_PARAM_RE", "_OK_PARAM_RE", "_QUOTED_PAIR_RE", "_is_xml", "_content_type_has_charset", "Response._charset__get",
                                       "Response._charset__set", "Response._charset__del", "Response._content_type__get",
                                       "Response._content_type__set", "Response._content_type__del", "Response._content_type_params__get",
                                       "Response._content_type_params__set", "Response._content_type_params__del")]
    + ["webob.headers:ResponseHeaders.__getitem__", "webob.headers:ResponseHeaders.__setitem__", "webob.multidict:MultiDict.pop"]
    + ["webob.request:" + n for n in ("BaseRequest._content_type__get", "BaseRequest._content_type__set", "BaseRequest._content_type_raw",
                                      "detect_charset", "_is_utf8")]
    # Model/C12_Attrs.v: the two attribute tables (which header / environ key and which converter each attribute uses)
    + ["webob.response:Response." + n for n in _RESP_TABLE]
    + ["webob.request:BaseRequest." + n for n in _REQ_TABLE]
)
REGENERATED = ["webob.response:_PARAM_RE", "webob.response:_OK_PARAM_RE"]     # character classes -> coq/Gen/C12_ParamClasses.v
ORACLE_ONLY = (["webob.descriptors:" + n for n in ("_rx_etag", "parse_etag_response", "serialize_etag_response", "serialize_if_range")]
               + ["webob.etag:" + n for n in ("etag_property", "ETagMatcher.parse", "IfRange.parse", "IfRangeDate")]
               + ["webob.response:Response.etag", "webob.response:Response.etag_strong", "webob.request:BaseRequest.if_range",
                  "webob.request:BaseRequest.if_match", "webob.request:BaseRequest.if_none_match"])

def gen(ctx):
    """coq/Gen/C12_ParamClasses.v: the character classes of the two Content-Type parameter regexes, read off the LIVE
    compiled patterns (code points < 256): what the setter leaves unquoted, what the getter's unquoted alternative
    accepts, what the getter accepts in a name.  Props/C12.v proves setter-unquoted is a subset of getter-unquoted and that the
    hand-written classes of the model are these."""
    from webob import response as wresp
    cps = range(256)
    setter = [c for c in cps if wresp._OK_PARAM_RE.search(chr(c)) and chr(c) != "\n"]
    getter = []
    keys = []
    for c in cps:
        m = wresp._PARAM_RE.fullmatch("a=" + chr(c))
        if m and m.group(3) == chr(c):
            getter.append(c)
        m = wresp._PARAM_RE.fullmatch(chr(c) + "=")
        if m and m.group(1) == chr(c):
            keys.append(c)
    txt = ("(* REGENERATED by harness/props/c12.py gen() from webob.response._OK_PARAM_RE / _PARAM_RE -- do not edit *)\n"
           "From Coq Require Import NArith List.\nImport ListNotations.\nLocal Open Scope N_scope.\n"
           "Definition setter_unquoted : list N := [%s].\nDefinition getter_unquoted : list N := [%s].\n"
           "Definition getter_name : list N := [%s].\n"
           % ("; ".join(map(str, setter)), "; ".join(map(str, getter)), "; ".join(map(str, keys))))
    fw.write_if_changed(os.path.join(fw.COQ, "Gen", "C12_ParamClasses.v"), txt)


def run(ctx):
    gen(ctx)
    ctx.modelled(MODELLED)
    ctx.extra["regenerated_from_source"] = REGENERATED
    ctx.extra["oracle_only"] = ORACLE_ONLY
    ctx.build(["Props/C12.vo"])
    table_check(ctx)
    source_cfg(ctx)
    prepare_generators(ctx)
    # the correspondences spend their time in coqc subprocesses, the oracle in this process: run them side by side
    # (every part draws from its own ctx.sub_rng stream, so the cases do not depend on the scheduling)
    parts = [corr_group1, corr_group2, corr_group3, corr_group4, corr_group5, oracle_sweep, stateful_sweep, shapes_sweep]
    with cf.ThreadPoolExecutor(len(parts)) as ex:
        futs = [(f.__name__, ex.submit(f, ctx)) for f in parts]
        for name, fu in futs:
            try:
                fu.result()
            except Exception:  # noqa
                ctx.broken.append("check machinery raised in %s: %s" % (name, traceback.format_exc()[-1200:]))
    try:
        corr_mix(ctx)        # needs the generators of all groups
    except Exception:  # noqa
        ctx.broken.append("check machinery raised in corr_mix: %s" % traceback.format_exc()[-1200:])
    ctx.extra["rule"] = ("correspondence: distinct generated inputs (adversarial texts / random attribute histories) per model "
                         "function; oracle totality: every attribute x (hand-picked adversarial texts + every concatenation of "
                         "<= 3-4 tokens of the field's adversarial alphabet + mutated/random longer texts), counted non-trivial "
                         "when non-empty; oracle round trip: every valid value generated (all (start, stop, length) <= bound, "
                         "year boundaries 1970-9999 stepwise, random instants, naive/aware, 4 process time zones), each "
                         "(attribute, value) counted once; cache-control: every history of <= 2-3 ops of a 22-op universe x 3 "
                         "initial headers + random histories")
    ctx.extra["exhaustive"] = False
    ctx.assume += ["header and environ texts are str with code points < 256 in the Coq model (WSGI native strings); wider "
                   "text is covered by the oracle only",
                   "sys.get_int_max_str_digits() has its default value 4300"]
    ctx.trusted += ["email.utils.parsedate_tz on arbitrary text is not modelled (section variable in the totality theorem); "
                    "the canonical IMF-fixdate form is modelled and proved"]


def replay(ctx, path):
    data = json.load(open(path))
    case = data["case"]
    if not isinstance(case, dict) or "o" not in case:
        print("replay: nothing executable in this file (broken obligation): %s" % data.get("what"))
        return 1
    if case.get("maxdigits") is not None:
        res = run_case_sub(case)[0]
    else:
        res = run_case_tz(case) if case.get("tz") else run_case(case)
    if res:
        print("VIOLATION property=C12 replay=%s" % path)
        print("  (%s) %s" % (res[0], res[1]))
        return 1
    print("replay passes on the current tree")
    return 0
