"""C14 — a scheme-less Location is always resolved to the request's own origin (design_notes/C14.md).

Ties to the source:
  * gen(ctx): SCHEME_RE, _CTL_OR_SPACE_RE and _COLON_IN_FIRST_SEGMENT_RE are translated from the live compiled
    patterns into coq/Gen/C14_regexes.v on every run; Props/C14.v proves them equal to the hand functions the
    model uses.
  * correspondence of coq/Model/C14_urlsplit.v (urlsplit/urlparse/urljoin vs urllib.parse) and of
    coq/Model/C14_location.v (_request_uri, path_url, _make_location_absolute, Response.__call__,
    conditional_response_app, every _HTTPMove class) with the real code.
  * oracle: the Location passed to start_response is parsed with an independent WHATWG-style splitter and its
    origin compared with the request's; absolute URLs must come out unchanged; CR/LF must be refused by the
    redirect classes.
"""
import io
import itertools
import json
import os
import re

from harness import fw
from harness.fw import Err, cstr, clist, cpair, copt, cbool

IMPORTS = ["Webob.Lib.PyStr", "Webob.Model.C14_urlsplit", "Webob.Model.C14_location"]
MOVE_CLASSES = ["HTTPMultipleChoices", "HTTPMovedPermanently", "HTTPFound", "HTTPSeeOther", "HTTPUseProxy",
                "HTTPTemporaryRedirect", "HTTPPermanentRedirect", "_HTTPMove"]
C0SP = "".join(chr(i) for i in range(0x21))
SPECIAL = ("http", "https", "ws", "wss", "ftp", "file")


# ============================================================================ translator (gen)
def _class_members(src, flags):
    """Code points matched by the one-character pattern `src` under `flags`, as CPython's engine sees it."""
    import sys
    pat = re.compile(src, flags)
    allc = "".join(chr(i) for i in range(sys.maxunicode + 1))
    return sorted(ord(c) for c in pat.findall(allc))


def _ranges(chars):
    out = []
    for c in chars:
        if out and out[-1][1] == c - 1:
            out[-1][1] = c
        else:
            out.append([c, c])
    return out


def _cls_term(chars):
    return "(Cls false [%s])" % "; ".join("(%d,%d)" % (a, b) for a, b in _ranges(chars))


class Untranslatable(Exception):
    pass


def _item_src(op, a):
    import re._constants as sc
    if op == sc.LITERAL:
        return "\\U%08x" % a
    if op == sc.RANGE:
        return "\\U%08x-\\U%08x" % tuple(a)
    if op == sc.CATEGORY:
        names = {sc.CATEGORY_DIGIT: "\\d", sc.CATEGORY_NOT_DIGIT: "\\D", sc.CATEGORY_SPACE: "\\s",
                 sc.CATEGORY_NOT_SPACE: "\\S", sc.CATEGORY_WORD: "\\w", sc.CATEGORY_NOT_WORD: "\\W"}
        if a in names:
            return names[a]
    raise Untranslatable("class item %r" % (op,))


def _node_chars(node, flags):
    """Members of a single-character node (LITERAL / NOT_LITERAL / IN / ANY)."""
    import re._constants as sc
    op, a = node
    f = flags & (re.I | re.A | re.S)
    if op == sc.LITERAL:
        return _class_members("[\\U%08x]" % a, f)
    if op == sc.NOT_LITERAL:
        return _class_members("[^\\U%08x]" % a, f)
    if op == sc.ANY:
        return _class_members(".", f)
    if op == sc.IN:
        neg = any(o == sc.NEGATE for o, _ in a)
        body = "".join(_item_src(o, x) for o, x in a if o != sc.NEGATE)
        return _class_members("[%s%s]" % ("^" if neg else "", body), f)
    raise Untranslatable("node %r" % (op,))


def _cat(xs):
    xs = [x for x in xs if x != "Eps"]
    if not xs:
        return "Eps"
    out = xs[-1]
    for x in reversed(xs[:-1]):
        out = "(Cat %s %s)" % (x, out)
    return out


def _rx(items, flags):
    import re._constants as sc
    out = []
    for op, a in items:
        if op in (sc.LITERAL, sc.NOT_LITERAL, sc.ANY, sc.IN):
            out.append(_cls_term(_node_chars((op, a), flags)))
        elif op in (sc.MAX_REPEAT, sc.MIN_REPEAT):
            lo, hi, sub = a
            r = _rx(sub, flags)
            parts = [r] * lo
            if hi == sc.MAXREPEAT:
                parts.append("(Star %s)" % r)
            else:
                if hi - lo > 8:
                    raise Untranslatable("bounded repeat too wide")
                opt = "Eps"
                for _ in range(hi - lo):
                    opt = "(Alt Eps %s)" % _cat([r, opt])
                parts.append(opt)
            out.append(_cat(parts))
        elif op == sc.SUBPATTERN:
            out.append(_rx(a[3], flags))
        elif op == sc.BRANCH:
            alts = [_rx(x, flags) for x in a[1]]
            t = alts[-1]
            for x in reversed(alts[:-1]):
                t = "(Alt %s %s)" % (x, t)
            out.append(t)
        else:
            raise Untranslatable("construct %r" % (op,))
    return _cat(out)


def translate_prefix(pat):
    """(rx term of the language after an optional leading ^, anchored?) for a pattern used with .search/.match."""
    import re._constants as sc
    import re._parser as sp
    if pat.flags & (re.M | re.X | re.L):
        raise Untranslatable("flags %r" % pat.flags)
    items = list(sp.parse(pat.pattern, pat.flags))
    anchored = False
    if items and items[0] == (sc.AT, sc.AT_BEGINNING):
        anchored = True
        items = items[1:]
    return _rx(items, pat.flags), anchored


def translate_single_class(pat):
    import re._parser as sp
    items = list(sp.parse(pat.pattern, pat.flags))
    if len(items) != 1:
        raise Untranslatable("not a single character class")
    return _ranges(_node_chars(items[0], pat.flags))


def gen(ctx):
    """Regenerate coq/Gen/C14_regexes.v from the live patterns of $WEBOB_REPO and check their use sites."""
    import inspect
    from webob import descriptors, response
    problems = []
    out = ["(* GENERATED from %s/src/webob/{descriptors,response}.py by harness/props/c14.py - do not edit *)" % fw.REPO,
           "From Coq Require Import NArith List Bool.", "Require Import Webob.Lib.Val Webob.Lib.Rx.",
           "Import ListNotations.", "Local Open Scope N_scope."]
    info = {}
    src = inspect.getsource(response.Response._make_location_absolute)

    def prefix(name, obj, attr, use):
        pat = getattr(obj, attr, None)
        term, anchored = "Emp", False
        if pat is None:
            problems.append("%s.%s does not exist" % (obj.__name__, attr))
        else:
            try:
                term, anchored = translate_prefix(pat)
                info[attr] = {"pattern": pat.pattern, "flags": int(pat.flags), "anchored": anchored}
            except Exception as e:  # fail closed
                problems.append("translator cannot express %s (%r): %r" % (attr, e, pat.pattern))
                term = "Emp"
            if use not in src:
                problems.append("use site `%s` not found in Response._make_location_absolute" % use)
                term = "Emp"
        out.append("Definition %s : rx := %s." % (name, term))
        out.append("Definition %s_anchored : bool := %s." % (name, cbool(anchored)))

    prefix("gen_scheme_re", descriptors, "SCHEME_RE", "SCHEME_RE.search(value)")
    prefix("gen_colon_first_segment", response, "_COLON_IN_FIRST_SEGMENT_RE", "_COLON_IN_FIRST_SEGMENT_RE.match(value)")
    rs = []
    pat = getattr(response, "_CTL_OR_SPACE_RE", None)
    if pat is None:
        problems.append("webob.response._CTL_OR_SPACE_RE does not exist")
    else:
        try:
            rs = translate_single_class(pat)
            info["_CTL_OR_SPACE_RE"] = {"pattern": pat.pattern, "ranges": rs}
        except Exception as e:
            problems.append("translator cannot express _CTL_OR_SPACE_RE (%r): %r" % (e, pat.pattern))
        if "_CTL_OR_SPACE_RE.sub(_percent_encode_match, value)" not in src:
            problems.append("use site `_CTL_OR_SPACE_RE.sub(_percent_encode_match, value)` not found")
            rs = []
        else:
            enc = getattr(response, "_percent_encode_match", None)
            try:
                ok = all(enc(re.match("(?s).", chr(i))) == "%%%02X" % i for i in range(256))
            except Exception:
                ok = False
            if not ok:
                problems.append("_percent_encode_match is not '%%%02X' % ord(c) on 0..255")
                rs = []
    out.append("Definition gen_ctl_or_space : ranges := [%s]." % "; ".join("(%d,%d)" % (a, b) for a, b in rs))
    fw.write_if_changed(os.path.join(fw.COQ, "Gen", "C14_regexes.v"), "\n".join(out) + "\n")
    ctx.extra["translator"] = info
    return problems


# ============================================================================ environments
def mkenv(scheme="http", host=None, name="srv.local", port="80", script="", path="/", query=None):
    """Abstract environ (the fields of Model.C14_location.environ); None = key absent."""
    return {"scheme": scheme, "host": host, "name": name, "port": port, "script": script, "path": path, "query": query}


def wsgi_environ(e, method="GET", extra=None):
    d = {"wsgi.url_scheme": e["scheme"], "SERVER_NAME": e["name"], "SERVER_PORT": e["port"], "REQUEST_METHOD": method,
         "SERVER_PROTOCOL": "HTTP/1.1", "wsgi.version": (1, 0), "wsgi.input": io.BytesIO(b""),
         "wsgi.errors": io.StringIO(), "wsgi.multithread": False, "wsgi.multiprocess": False, "wsgi.run_once": False}
    if e["host"] is not None:
        d["HTTP_HOST"] = e["host"]
    if e["script"] is not None:
        d["SCRIPT_NAME"] = e["script"]
    if e["path"] is not None:
        d["PATH_INFO"] = e["path"]
    if e["query"] is not None:
        d["QUERY_STRING"] = e["query"]
    if extra:
        d.update(extra)
    return d


def cenv(e):
    o = lambda x: copt(None if x is None else cstr(x))  # noqa
    return "(mkEnv %s %s %s %s %s %s %s)" % (cstr(e["scheme"]), o(e["host"]), cstr(e["name"]), cstr(e["port"]),
                                            o(e["script"]), o(e["path"]), o(e["query"]))


HOSTS = [None, "example.org", "example.org:80", "example.org:8080", "example.org:443", "localhost", "127.0.0.1:8000",
         "EXAMPLE.org", "a.b-c.example:81", "user@example.org"]
HOSTS += ["10.0.0.80:80", "web08:80", "10.1.2.34:443", "h43:443", "192.168.1.8", "80", "x0:8080"]   # host text vs port text
HOSTS_V6 = ["[::1]", "[::1]:8080", "[2001:db8::1]:443"]
# host names that END in a character of the default-port text ":80" / ":443" (or ARE that text), and port spellings
# around the defaults: cutting the default port must not touch the host (an exhaustive small product, see port_envs)
PORT_NAMES = ["10.0.0.80", "192.168.1.8", "10.0.0.0", "172.16.0.43", "10.1.2.34", "10.9.9.3", "web08", "a8", "x0", "h43",
              "h4", "n3", "80", "443", "8", "0", "4", "example.org", "EXAMPLE.ORG80"]
PORT_TEXTS = [None, "80", "443", "8080", "4430", "800", "4433", "08", "43", "8", "0"]


def port_envs(v6=False, script="", path="/p"):
    out = []
    for scheme in ("http", "https"):
        for name in PORT_NAMES + (["[::8]", "[::80]", "[1::443]"] if v6 else []):
            for port in PORT_TEXTS:
                out.append(mkenv(scheme=scheme, host=name if port is None else name + ":" + port, name="unused.local",
                                 port="8081", script=script, path=path, query="q=1"))
                if port is not None and not name.startswith("["):
                    out.append(mkenv(scheme=scheme, host=None, name=name, port=port, script=script, path=path, query="q=1"))
    return out
SCRIPTS = [None, "", "/app", "/a b", "/app;v=1", "/x/y"]
PATHS = ["", "/", "/dir/page", "//evil.com/x", "/a/../b", "/x;y/z;w", "/a%b", "/dir/", "/q?r", "/\xc3\xa9", "/..", "/a//b/"]
QUERIES = [None, "", "x=1", "a=b&c=d/e", "next=//evil.com"]
PORTS = ["80", "443", "8080"]


def rand_env(rng, ascii_paths=False, with_path=False):
    paths = [p for p in PATHS if not ascii_paths or all(ord(c) < 128 for c in p)]
    return mkenv(scheme=rng.choice(["http", "https"]), host=rng.choice(HOSTS),
                 name=rng.choice(["srv.local", "10.0.0.1", "10.0.0.80", "h43"]),
                 port=rng.choice(PORTS), script=rng.choice(SCRIPTS),
                 path=rng.choice(paths) if with_path or rng.random() < 0.9 else None, query=rng.choice(QUERIES))


def small_envs():
    return [mkenv(host="example.org", path="/dir/page", query="x=1"),
            mkenv(scheme="https", host="example.org:8443", script="/app", path="//evil.com/x"),
            mkenv(host=None, name="srv.local", port="8080", script=None, path="/a/b/"),
            mkenv(host="example.org:80", script="", path="")]


def all_envs():
    out = []
    for scheme in ("http", "https"):
        for host in HOSTS + HOSTS_V6:
            for script in SCRIPTS:
                for path in PATHS:
                    out.append(mkenv(scheme=scheme, host=host, port="443" if scheme == "https" else "8080",
                                     script=script, path=path, query="x=1"))
    return out


# ============================================================================ the property oracle
def expected_origin(e):
    """(scheme, host[:port]) of the request, independently of webob: default port and case normalised."""
    host = e["host"] if e["host"] else e["name"] + ":" + e["port"]
    return e["scheme"].lower(), norm_host(e["scheme"].lower(), host)


def norm_host(scheme, host):
    host = host.rsplit("@", 1)[-1].lower()
    m = re.match(r"^(.*?)(?::(\d*))?$", host, flags=re.S)
    if m and not m.group(1).endswith("]") and "]" in m.group(1):
        m = None
    name, port = (m.group(1), m.group(2)) if m else (host, None)
    if port in (None, "", {"http": "80", "https": "443"}.get(scheme)):
        return name
    return name + ":" + port


def whatwg_origin(loc):
    """Independent splitter: WHATWG-style cleaning, then an RFC 3986 style scan in which - as browsers do for the
    special schemes - a backslash counts as a slash and any run of two or more slashes introduces the authority.
    Returns (scheme, host[:port]) or a string saying why the value is not an absolute URL with an authority."""
    s = loc.strip(C0SP).replace("\t", "").replace("\n", "").replace("\r", "")
    m = re.match(r"([A-Za-z][A-Za-z0-9+.\-]*):", s)
    if not m:
        return "no scheme (a relative reference)"
    scheme = m.group(1).lower()
    rest = s[m.end():]
    slash = "/\\" if scheme in SPECIAL else "/"
    n = 0
    while n < len(rest) and rest[n] in slash:
        n += 1
    if n < 2:
        return "scheme %r without '//' authority" % scheme
    rest = rest[n:] if scheme in SPECIAL else rest[2:]
    m = re.match(r"[^/\\?#]*" if scheme in SPECIAL else r"[^/?#]*", rest)
    return scheme, norm_host(scheme, m.group(0))


SCHEME_ALPHA = re.compile(r"[A-Za-z]+:")


def has_alpha_scheme(v):
    return bool(SCHEME_ALPHA.match(v))


def classify(v):
    """Specific classifier of WHY a scheme-less value is dangerous (used as the finding key)."""
    if v.startswith("//"):
        return "double-slash"
    if v.lstrip(C0SP) != v:
        return "leading-c0-or-space"
    if any(c in v for c in "\t\r\n"):
        return "embedded-tab-cr-lf"
    if re.match(r"[A-Za-z][A-Za-z0-9+.\-]*:", v):
        return "non-alpha-scheme-prefix"
    if re.match(r"[a-z]+:", v, re.I):
        return "non-ascii-scheme-letter"       # U+017F, U+212A, U+0130, U+0131 case-fold to ASCII letters
    return "other"


def emit(path, e, value, add_slash=False, key="Location"):
    """Serve through the real webob; returns ("ok", [Location values], headerlist) or ("raise", class name)."""
    from webob import Response, exc
    got = {}

    def start_response(status, headers, exc_info=None):
        got["status"] = status
        got["headers"] = [(k, v) for k, v in headers]

    try:
        if path == "static":
            r = Response._make_location_absolute(wsgi_environ(e), value)
            return ("ok", [r], [])
        if path.startswith("move:"):
            cls = getattr(exc, path[5:])
            app = cls(add_slash=True) if add_slash else cls(location=value)
            env = wsgi_environ(e)
        else:
            hl = [("Content-Type", "text/plain"), ("Content-Length", "10"), ("ETag", '"tag"'), (key, value)]
            app = Response(status="302 Found", headerlist=hl, app_iter=[b"0123456789"])
            extra = {}
            if path != "plain":
                app.conditional_response = True
                extra = {"cond-304": {"HTTP_IF_NONE_MATCH": '"tag"'}, "cond-206": {"HTTP_RANGE": "bytes=2-5"},
                         "cond-416": {"HTTP_RANGE": "bytes=50-60"}, "cond-plain": {}}[path]
                if path in ("cond-206", "cond-416"):
                    app.status = "200 OK"
            env = wsgi_environ(e, extra=extra)
        body = app(env, start_response)
        for _ in body:
            pass
    except Exception as ex:  # noqa
        return ("raise", type(ex).__name__)
    want = {"cond-304": "304", "cond-206": "206", "cond-416": "416"}.get(path)
    if want and not got["status"].startswith(want):
        return ("raise", "harness: expected status %s, got %s" % (want, got["status"]))
    return ("ok", [v for k, v in got["headers"] if k.lower() == "location"], got["headers"])


def check_case(case):
    """The property on one case; None or (key, message).  case: path, env, value, add_slash."""
    path, e, v = case["path"], case["env"], case.get("value")
    add_slash = bool(case.get("add_slash"))
    kind = "move" if path.startswith("move:") else ("response" if path in ("plain", "static") else "conditional")
    if kind == "move" and not add_slash and v is not None and ("\r" in v or "\n" in v):
        r = emit(path, e, v)
        if r != ("raise", "ValueError"):
            return ("move:crlf-accepted", "%s(location=%r) did not raise ValueError: %r" % (path[5:], v, r[:2]))
        return None
    r = emit(path, e, v, add_slash, case.get("key") or "Location")
    absolute = not add_slash and v is not None and has_alpha_scheme(v)
    if r[0] == "raise":
        if absolute:
            return ("%s:absolute-url-rewritten" % kind,
                    "%s: Location %r has an <alpha>+: scheme and must be sent unchanged, but serving it raised %s"
                    % (path, v, r[1]))
        return ("%s:raises-%s" % (kind, r[1].split(":")[0]), "%s with Location %r on %r raised %s" % (path, v, e, r[1]))
    locs = r[1]
    if len(locs) != 1:
        return ("%s:location-count" % kind, "%s emitted %d Location headers for %r" % (path, len(locs), v))
    loc = locs[0]
    if absolute:
        if loc != v:
            return ("%s:absolute-url-rewritten" % kind,
                    "%s: Location %r has an <alpha>+: scheme and must be sent unchanged, got %r" % (path, v, loc))
        return None
    want = expected_origin(e)
    got = whatwg_origin(loc)
    if got != want:
        cause = "add-slash" if add_slash else ("no-location" if v is None else classify(v))
        if kind != "response" and not add_slash and v is not None:
            # the same value through the shared function: a failure there is the Response defect, not one of this path
            r0 = emit("static", e, v)
            if r0[0] == "ok" and whatwg_origin(r0[1][0]) != want:
                kind = "response"
        return ("%s:%s" % (kind, cause),
                "%s: scheme-less Location %r on request %s://%s%s%s was emitted as %r, whose origin is %r, not the "
                "request's %r" % (path, v, e["scheme"], e["host"] or (e["name"] + ":" + e["port"]), e["script"] or "",
                                  e["path"] or "", loc, got, want))
    return None


# ============================================================================ generators
ALPHABET = ["/", "\\", ".", "\t", " ", "\x01", "%", "@", ":", "?", "#", "a"]
EXTRA = ["\r", "\n", "\x00", "\x1f", ";", "1", "+", "-", "A", "z", "\x7f", "\xa0", "\xe9", "2", "f", "h", "[", "=",
         "\u212a", "\u017f", "\uff0f", "\u2028", "\uff20", "\u2100"]
SUFFIXES = ["", "evil.com", "evil.com/x", "@evil.com", "evil.com:80/x", "/evil.com/..", "http://evil.com", "%2f%2fevil.com",
            "\\evil.com", "evil.com?a#b", "../x", "./:x", "a1://evil.com", "svn+ssh://evil.com/", "javascript:alert(1)"]
SEEDS = ["/\t/evil.com", "\t//evil.com", " //evil.com", "\x01//evil.com", "\thttp://evil.com", "//evil.com/x", "///evil.com",
         "////evil.com", "/\\evil.com", "\\\\evil.com", "\\/evil.com", "/\\/evil.com", "java\tscript:alert(1)",
         "evil.com:80/x", "a1://evil.com/", "svn+ssh://evil.com/", "h\tttp://evil.com", "http\t://evil.com", "ht tp://evil.com",
         ":evil.com", "://evil.com", ":\t//evil.com", "/%09/evil.com", "/%2f/evil.com", "/.//evil.com", "/..//evil.com",
         "./../..//evil.com", "..//evil.com", ".//evil.com", "?//evil.com", "#//evil.com", ";//evil.com", "", ".", "..", "/",
         "a", "a/b;c?d#e", ";x", "?q", "#f", "\x00//evil.com", "\x1f//evil.com", "\x20\x20//evil.com", "\r//evil.com",
         "\n//evil.com", "/\r/evil.com", "/\n/evil.com", "\t", " ", "\t\t//evil.com", "/\t\t/evil.com", "\t/\t/evil.com",
         "\u212a://evil.com/x", "\u017f://evil.com", "\u0130://evil.com", "\u0131:x", "\uff0f\uff0fevil.com",
         "\u2028//evil.com", "\u3000//evil.com", "\x85//evil.com", "\xa0//evil.com", "htt\u212a://evil.com",
         "web+evil://evil.example/x", "a-b://evil.example/x", "a.b://evil.example/x", "x+y-z.9://evil.example/x",
         "h2://evil.example/", "web+evil:evil.example", "z-://evil.example",
         "x:\t//evil.com", "1http://evil.com", "+://evil.com", ".://evil.com", "a.b://evil.com", "a-b:c", "A1:", "z9+.-:x"]
ABSOLUTE = ["http://example.com/", "https://example.com/path?x=1#f", "HTTP://Example.com/a/../b?", "http://example.com/a b\tc",
            "ftp://example.com/%7e", "http://example.com", "mailto:user@example.com", "http:foo", "HTTPS://example.com:443/",
            "http://user:pw@example.com:8080/p;x?y#z", "http://[::1]:8080/", "x://y", "urn:isbn:0", "http://example.com/?",
            "http://example.com/#", "http://example.com//a//b", "Http://example.com/\\x"]


def strings_upto(alphabet, n):
    for k in range(n + 1):
        for t in itertools.product(alphabet, repeat=k):
            yield "".join(t)


SCHEME_TAIL = "ab19+-.Zz0"


def rand_value(rng, maxlen=7):
    r = rng.random()
    if r < 0.15:
        return rng.choice(SEEDS)
    if r < 0.25:      # scheme-like prefix [A-Za-z][A-Za-z0-9+.-]*: that is not <alpha>+: (keeps + - . digits in play)
        p = rng.choice("awXz") + "".join(rng.choice(SCHEME_TAIL) for _ in range(rng.randrange(1, 5)))
        if p.isalpha():
            p += rng.choice("+-.7")
        return p + ":" + rng.choice(["//evil.example/x", "/\\evil.example", "evil.example", "", "//evil.example:80/?q#f",
                                     "\t//evil.example"])
    alpha = ALPHABET if r < 0.6 else ALPHABET + EXTRA
    s = "".join(rng.choice(alpha) for _ in range(rng.randrange(0, maxlen + 1)))
    if rng.random() < 0.5:
        s += rng.choice(SUFFIXES)
    if rng.random() < 0.08:
        s = rng.choice(ABSOLUTE)[:rng.randrange(3, 12)] + s
    return s


def no_brackets(*ss):
    return not any(("[" in s and "]" in s) for s in ss if s)


# ============================================================================ histories: ONE object, SEVERAL requests
COND_EXTRA = {"plain": {}, "304": {"HTTP_IF_NONE_MATCH": '"tag"'}, "206": {"HTTP_RANGE": "bytes=2-5"},
              "416": {"HTTP_RANGE": "bytes=50-60"}}


def build_app(app):
    """A new, identically constructed WSGI app of the kind described by `app`."""
    from webob import Response, exc
    if app["type"] == "move":
        cls = getattr(exc, app["class"])
        return cls(add_slash=True) if app.get("add_slash") else cls(location=app.get("value"))
    hl = [("Content-Type", "text/plain"), ("Content-Length", "10"), ("ETag", '"tag"'),
          (app.get("key") or "Location", app["value"])]
    r = Response(status="200 OK", headerlist=hl, app_iter=[b"0123456789"])
    if app["type"] == "conditional":
        r.conditional_response = True
    return r


def app_state(app, obj):
    """What serving a request must leave alone: the stored location (and, for a Response, every header)."""
    locs = [v for k, v in obj.headerlist if k.lower() == "location"]
    if app["type"] == "move":
        return [obj.location, locs]
    return [obj.location, [list(h) for h in obj.headerlist]]


def serve(obj, app, step):
    got = {}

    def start_response(status, headers, exc_info=None):
        got["status"] = status
        got["headers"] = list(headers)

    extra = COND_EXTRA[step.get("cond") or "plain"] if app["type"] == "conditional" else {}
    try:
        for _ in obj(wsgi_environ(step["env"], method=step.get("method") or "GET", extra=extra), start_response):
            pass
    except Exception as ex:  # noqa
        return ["raise", type(ex).__name__]
    return [got["status"][:3], [v for k, v in got["headers"] if k.lower() == "location"]]


def check_history(case):
    """ONE long-lived app serves the steps in order.  Every answer must be the answer of a brand-new identical app
    to that request, must carry that request's own origin (or the unchanged absolute URL), and the app's stored
    location / headers must be what they were before the first request."""
    app, steps = case["app"], case["steps"]
    kind = "move" if app["type"] == "move" else "response"
    try:
        obj = build_app(app)
    except Exception:  # noqa  (constructor refuses the value: nothing to serve)
        return None
    state0 = app_state(app, obj)
    rewritten = None
    v = app.get("value")
    for i, step in enumerate(steps):
        got = serve(obj, app, step)
        fresh = serve(build_app(app), app, step)
        e = step["env"]
        where = "request #%d (%s://%s%s%s) to ONE %s(%s)" % (
            i + 1, e["scheme"], e["host"] or (e["name"] + ":" + e["port"]), e["script"] or "", e["path"] or "",
            app.get("class") or app["type"], "add_slash=True" if app.get("add_slash") else "location=%r" % (v,))
        if got != fresh:
            return ("%s:instance-answers-differ-from-fresh" % kind,
                    "%s answered %r, a fresh identical object answers %r (earlier requests: %s)"
                    % (where, got, fresh, ", ".join("%s://%s" % (s["env"]["scheme"], s["env"]["host"] or s["env"]["name"])
                                                    for s in steps[:i]) or "none"))
        if got[0] != "raise":
            if len(got[1]) != 1:
                return ("%s:location-count" % kind, "%s emitted %r" % (where, got[1]))
            if v is not None and not app.get("add_slash") and has_alpha_scheme(v):
                if got[1][0] != v:
                    return ("%s:absolute-url-rewritten" % kind, "%s emitted %r" % (where, got[1][0]))
            elif whatwg_origin(got[1][0]) != expected_origin(e):
                return ("%s:instance-wrong-origin" % kind, "%s emitted %r, not the request's origin %r"
                        % (where, got[1][0], expected_origin(e)))
        st = app_state(app, obj)
        if st != state0 and rewritten is None:      # keep going: a wrong later answer is the plainer report
            rewritten = ("%s:stored-location-rewritten" % kind,
                         "%s: serving changed the object's stored state from %r to %r" % (where, state0, st))
    return rewritten


def order_check(items):
    import subprocess
    import sys
    fwd = [list(emit("static", e, v)[:2]) for e, v in items]
    code = ("import json,sys\nfrom harness.props import c14\nitems=json.load(sys.stdin)\n"
            "print(json.dumps([list(c14.emit('static', e, v)[:2]) for e, v in reversed(items)][::-1]))")
    p = subprocess.run([sys.executable, "-B", "-c", code], input=json.dumps([[e, v] for e, v in items]),
                       capture_output=True, text=True, cwd=fw.ROOT)
    if p.returncode != 0:
        return "fresh interpreter failed: " + p.stderr[-300:]
    bwd = json.loads(p.stdout)
    for (e, v), x, y in zip(items, fwd, bwd):
        if json.loads(json.dumps(x)) != y:
            return ("Location %r on %r: %r in this process (after other requests), %r from a fresh interpreter serving the "
                    "same requests in the reverse order" % (v, e, x, y))
    return None


def rand_history(rng, n=4):
    t = rng.random()
    if t < 0.5:
        r = rng.random()
        app = {"type": "move", "class": rng.choice(MOVE_CLASSES)}
        if r < 0.2:
            app["add_slash"] = True
        elif r < 0.3:
            app["value"] = None
        else:
            app["value"] = rand_value(rng, 6)
    else:
        app = {"type": "response" if t < 0.75 else "conditional", "value": rand_value(rng, 6),
               "key": rng.choice(["Location", "location", "LOCATION"])}
    steps = [{"env": rand_env(rng, ascii_paths=True, with_path=True), "method": rng.choice(["GET", "GET", "HEAD", "POST"]),
              "cond": rng.choice(list(COND_EXTRA))} for _ in range(rng.randrange(2, n + 1))]
    return {"kind": "history", "app": app, "steps": steps}


def history_stage(ctx, seeds_only=False):
    a = mkenv(host="a.example", path="/x/y", query="q=1")
    b = mkenv(scheme="https", host="b.example:8443", script="/app", path="/z")
    c = mkenv(host=None, name="srv.local", port="8080", script=None, path="//evil.com/x")
    steps = [{"env": a, "method": "GET", "cond": "plain"}, {"env": b, "method": "HEAD", "cond": "304"},
             {"env": c, "method": "GET", "cond": "206"}, {"env": a, "method": "GET", "cond": "416"}]
    cases = []
    for val in ["/login", "//evil.com/x", "\t//evil.com", "evil.com:80/x", "", "http://other.example/p?q"]:
        cases.append({"kind": "history", "app": {"type": "move", "class": "HTTPFound", "value": val}, "steps": steps})
        cases.append({"kind": "history", "app": {"type": "response", "value": val}, "steps": steps})
        cases.append({"kind": "history", "app": {"type": "conditional", "value": val, "key": "location"}, "steps": steps})
    cases.append({"kind": "history", "app": {"type": "move", "class": "HTTPSeeOther", "add_slash": True}, "steps": steps})
    cases.append({"kind": "history", "app": {"type": "move", "class": "HTTPMovedPermanently", "value": None}, "steps": steps})
    if not seeds_only:
        rng = ctx.sub_rng("history")
        cases += [rand_history(rng) for _ in range(ctx.scale(1500, 30000))]
    nt = 0
    for case in cases:
        nt += 1
        res = check_history(case)
        if res:
            ctx.fail(res[0], res[1], case, True, "history")
    ctx.oracle_count("history", len(cases), nt)
    if seeds_only:
        return
    # module-level state (urlsplit's lru_cache, compiled patterns, anything memoised): the same inputs answered in this
    # long-running process, in this order, and by a brand-new interpreter in the reverse order
    rng = ctx.sub_rng("order")
    items = [(rand_env(rng), rand_value(rng, 6)) for _ in range(ctx.scale(600, 6000))]
    items += [(e2, v) for (_, v), (e2, _) in zip(items[:200], items[200:400])]      # same value, other request
    msg = order_check(items)
    if msg:
        ctx.fail("response:order-dependent", msg, {"kind": "order", "items": [[e_, v_] for e_, v_ in items]}, True, "order")
    ctx.oracle_count("order", 2 * len(items), len(items))



# ============================================================================ configurations, argument shapes, value domains
KNOWN_SCHEMES = ("http", "https", "ws", "wss", "ftp")        # in urllib's uses_relative and uses_netloc
SET_RESPONSE = ["headerlist", "tuple", "dict", "ctor", "attr", "headers"]
SET_MOVE = ["kw", "pos", "headers", "headers_dict", "attr_after", "headers_and_kw"]
STATUSES_ANY = [302, "302 Found", "302 Go Away", 301, "201 Created", 200, "200 Fine", "404 Not Found", "500 Oops"]
ACCEPTS = [None, "", "text/html", "application/json", "*/*", "text/plain;q=0.5, application/json", "garbage;;"]


def build_cfg_app(case):
    """The WSGI app of a configured case; constructor-time refusals propagate as exceptions."""
    from webob import Response, exc
    cfg, v = case["cfg"], case.get("value")
    if case["app"] == "move":
        cls = getattr(exc, case["class"])
        if cfg.get("subclass") == "empty_body":
            cls = type("EmptyBodyMove", (cls,), {"empty_body": True})
        kw = {}
        if cfg.get("detail"):
            kw.update(detail="moved <b>", comment="c -->")
        if cfg.get("template"):
            kw["body_template"] = "go to ${location} (${detail}) ${HTTP_HOST}"
        how = cfg.get("set") or "kw"
        key = case.get("key") or "Location"
        if case.get("add_slash"):
            if how in ("headers", "headers_dict") and v is not None:      # a Location smuggled in by headers= is overridden
                app = cls(headers=[(key, v)] if how == "headers" else {key: v}, add_slash=1, **kw)
            else:
                app = cls(add_slash=True, **kw)
        elif how == "kw":
            app = cls(location=v, **kw)
        elif how == "pos":
            app = cls(kw.get("detail"), None, kw.get("comment"), kw.get("body_template"), v)
        elif how == "headers":
            app = cls(headers=[("X-Other", "1"), (key, v)], **kw)
        elif how == "headers_dict":
            app = cls(headers={key: v}, **kw)
        elif how == "attr_after":
            app = cls(**kw)
            app.location = v
        else:  # headers_and_kw: the keyword wins
            app = cls(headers=[(key, "http://wrong.example/")], location=v, **kw)
        if cfg.get("body") == "explicit":
            app.body = b"explicit body"
        return app
    base = [("Content-Type", "text/plain"), ("Content-Length", "10"), ("ETag", '"tag"')]
    pairs = [(case.get("key") or "Location", v)] + [tuple(x) for x in case.get("extra_locations") or []]
    cond = case["app"] == "conditional"
    exit_ = cfg.get("exit") or "plain"
    status = cfg.get("status", "302 Found")
    if cond and exit_ in ("206", "416"):
        status = cfg.get("status200", "200 OK")
    cls = Response
    ckw = {}
    if cond:
        how_c = cfg.get("cond_how") or "attr"
        if how_c == "subclass":
            cls = type("CondResponse", (Response,), {"default_conditional_response": True})
        elif how_c == "ctor":
            ckw["conditional_response"] = True
    how = cfg.get("set") or "headerlist"
    if how == "headerlist":
        app = cls(status=status, headerlist=base + pairs, app_iter=[b"0123456789"], **ckw)
    elif how == "tuple":          # headerlist setter: any iterable of pairs
        app = cls(status=status, app_iter=[b"0123456789"], **ckw)
        app.headerlist = tuple(base + pairs)
    elif how == "dict":           # headerlist setter: a mapping
        app = cls(status=status, app_iter=[b"0123456789"], **ckw)
        app.headerlist = dict(base + pairs)
    elif how == "ctor":
        app = cls(status=status, headerlist=list(base), app_iter=[b"0123456789"], location=v, **ckw)
    elif how == "attr":
        app = cls(status=status, headerlist=list(base), app_iter=[b"0123456789"], **ckw)
        app.location = v
    else:
        app = cls(status=status, headerlist=list(base), app_iter=[b"0123456789"], **ckw)
        for k, x in pairs:
            app.headers.add(k, x)
    if cond and (cfg.get("cond_how") or "attr") == "attr":
        app.conditional_response = True
    return app


def serve_cfg(case):
    """-> ("ok", status, [(key, value) of every Location header]) or ("raise", class name, stage)."""
    from webob import Request, exc
    from webob.dec import wsgify
    cfg = case["cfg"]
    got = {}

    def start_response(status, headers, exc_info=None):
        got["status"] = status
        got["headers"] = list(headers)

    extra = dict(cfg.get("env_extra") or {})
    if case["app"] == "conditional":
        extra.update(COND_EXTRA[cfg.get("exit") or "plain"])
    if cfg.get("accept") is not None:
        extra["HTTP_ACCEPT"] = cfg["accept"]
    environ = wsgi_environ(case["env"], method=cfg.get("method") or "GET", extra=extra)
    try:
        app = build_cfg_app(case)
    except Exception as ex:  # noqa
        return ("raise", type(ex).__name__, "construct")
    serve = cfg.get("serve") or "direct"
    try:
        if serve == "call_application":
            status, headers, it = Request(environ).call_application(app)
            got["status"], got["headers"] = status, list(headers)
            for _ in it:
                pass
        elif serve == "get_response":
            r = Request(environ).get_response(app)
            got["status"], got["headers"] = r.status, list(r.headerlist)
        elif serve in ("wsgify", "middleware"):
            def raiser(req_or_env, sr=None):
                raise app
            wrapped = wsgify(raiser) if serve == "wsgify" else exc.HTTPExceptionMiddleware(raiser)
            for _ in wrapped(environ, start_response):
                pass
        else:
            for _ in app(environ, start_response):
                pass
    except Exception as ex:  # noqa
        return ("raise", type(ex).__name__, "serve")
    return ("ok", got["status"], [(k, x) for k, x in got["headers"] if k.lower() == "location"])


def utf8_ok(s):
    try:
        (s or "").encode("latin-1").decode("utf-8")
        return True
    except UnicodeError:
        return False


def check_cfg(case):
    """The property under a non-default configuration / argument shape / outside the theorems' value domain."""
    cfg, e, v = case["cfg"], case["env"], case.get("value")
    kind = "move" if case["app"] == "move" else case["app"]
    add_slash = bool(case.get("add_slash"))
    how = cfg.get("set") or ("kw" if kind == "move" else "headerlist")
    crlf = v is not None and ("\r" in v or "\n" in v)
    r = serve_cfg(case)
    desc = "%s %s(%s via %s) cfg=%s on %s://%s%s%s" % (
        kind, case.get("class") or "", "add_slash" if add_slash else "location=%r" % (v,), how,
        json.dumps(cfg, sort_keys=True), e["scheme"], e["host"] if e["host"] is not None else (e["name"] + ":" + e["port"]),
        e["script"] or "", e["path"] if e["path"] is not None else "<no PATH_INFO>")
    if r[0] == "raise":
        # documented refusals: CR/LF through a checked door; location= together with add_slash is not generated
        if crlf and r[1] == "ValueError" and how in ("ctor", "attr", "kw", "pos", "attr_after", "headers_and_kw"):
            return None
        if crlf and r[1] == "ValueError" and kind == "move" and not add_slash and has_alpha_scheme(v):
            return None          # headers= let it in, but an absolute URL with CR/LF cannot be stored back unchanged
        uses_path_url = kind == "move" and (add_slash or not v)
        if uses_path_url and e["path"] is None and r[1] == "KeyError":
            return None          # outside the statement: Request.path_info needs PATH_INFO (noted in design_notes)
        if uses_path_url and r[1] == "UnicodeDecodeError" and cfg.get("env_extra", {}).get("webob.url_encoding", "UTF-8") == "UTF-8" \
                and not (utf8_ok(e["path"]) and utf8_ok(e["script"])):
            return None          # outside: SCRIPT_NAME / PATH_INFO bytes that are not valid in url_encoding
        return ("%s:raises-%s" % (kind, r[1]), "%s raised %s while %sing" % (desc, r[1], r[2]))
    if kind == "move" and crlf and how in ("kw", "pos", "attr_after", "headers_and_kw") and not add_slash:
        return ("move:crlf-accepted", "%s did not raise ValueError" % desc)
    locs = r[2]
    if kind == "move":
        inputs = [None if (add_slash or not v) else v]
    else:
        inputs = [v] + [x[1] for x in case.get("extra_locations") or []]
    if len(locs) != len(inputs):
        return ("%s:location-count" % kind, "%s emitted %d Location headers for %d given: %r" % (desc, len(locs), len(inputs), locs))
    known = e["scheme"].lower() in KNOWN_SCHEMES
    for (k, loc), given in zip(locs, inputs):
        if given is not None and has_alpha_scheme(given):
            if loc != given:
                return ("%s:absolute-url-rewritten" % kind, "%s: %r must be sent unchanged, got %r" % (desc, given, loc))
        elif known and not (given is None and e["host"] == ""):
            # (an EMPTY Host header with add_slash / no location: Request.host_url has no host to spell - there is no
            #  "request's own origin"; outside the statement, host_url is C13's subject)
            got, want = whatwg_origin(loc), expected_origin(e)
            if got != want:
                cause = "add-slash" if add_slash else ("no-location" if given is None else classify(given))
                return ("%s:%s" % ("response" if kind == "conditional" and False else kind, cause),
                        "%s: emitted %r (header %r), whose origin is %r, not the request's %r" % (desc, loc, k, got, want))
        # a wsgi.url_scheme urljoin does not know: outside the statement (PEP 3333: http / https); only "no exception"
    return None


def rand_cfg_case(rng, outside=False):
    t = rng.random()
    e = rand_env(rng, with_path=True)
    if rng.random() < 0.25:
        e["scheme"] = rng.choice(["HTTP", "Https", "ws", "wss", "ftp"])
    cfg = {"method": rng.choice(["GET", "GET", "HEAD", "POST"]), "accept": rng.choice(ACCEPTS),
           "serve": "direct"}
    v = rand_value(rng, 6)
    if t < 0.5:
        case = {"kind": "cfg", "app": "move", "class": rng.choice(MOVE_CLASSES), "value": v, "env": e, "cfg": cfg}
        cfg["set"] = rng.choice(SET_MOVE)
        cfg["serve"] = rng.choice(["direct", "direct", "call_application", "get_response", "wsgify", "middleware"])
        cfg["body"] = rng.choice([None, None, "explicit"])
        cfg["subclass"] = rng.choice([None, None, "empty_body"])
        cfg["detail"] = rng.random() < 0.3
        cfg["template"] = rng.random() < 0.3
        if cfg["set"] in ("headers", "headers_dict"):
            case["key"] = rng.choice(["Location", "location", "LOCATION"])
        r = rng.random()
        if r < 0.2:
            case["add_slash"] = True
            if cfg["set"] not in ("headers", "headers_dict"):
                case["value"] = None
        elif r < 0.3 and cfg["set"] in ("kw", "pos"):
            case["value"] = rng.choice([None, ""])
        if rng.random() < 0.2:
            cfg["env_extra"] = {"webob.url_encoding": rng.choice(["latin-1", "UTF-8"])}
    else:
        case = {"kind": "cfg", "app": "response" if t < 0.7 else "conditional", "value": v, "env": e, "cfg": cfg,
                "key": rng.choice(["Location", "location", "LOCATION", "LoCaTiOn"])}
        cfg["set"] = rng.choice(SET_RESPONSE)
        cfg["serve"] = rng.choice(["direct", "direct", "call_application", "get_response"])
        cfg["status"] = rng.choice(STATUSES_ANY)
        if case["app"] == "conditional":
            cfg["exit"] = rng.choice(list(COND_EXTRA))
            cfg["cond_how"] = rng.choice(["attr", "ctor", "subclass"])
            cfg["status200"] = rng.choice([200, "200 OK", "200 Fine"])
            if cfg["method"] == "POST":
                cfg["method"] = "GET"
        if rng.random() < 0.3 and cfg["set"] in ("headerlist", "tuple", "headers"):
            case["extra_locations"] = [[rng.choice(["location", "LOCATION", "Location"]), rand_value(rng, 6)]
                                       for _ in range(rng.choice([1, 1, 2]))]
    if outside:      # outside the theorems' request domain: what remains is checked by check_cfg
        o = rng.random()
        if o < 0.2:
            e["path"] = None
        elif o < 0.35:
            e["path"] = rng.choice(["/\xff\xfe", "/caf\xe9", "/\xc3\xa9t\xc3\xa9"])
        elif o < 0.5:
            e["scheme"] = rng.choice(["coap", "h2", "x+y", ""])
        elif o < 0.7:
            e["host"] = rng.choice(["", "example.org:", "b\xfccher.example", "[::1]:8080", "[2001:db8::1]", "EXAMPLE.ORG:080",
                                    "example.org.:80", "a_b.example", "xn--bcher-kva.example:8080"])
        elif o < 0.8:
            e["port"] = rng.choice(["", "http", "0080"])
            e["host"] = None
        else:
            e["script"] = rng.choice(["/s\xe9", "/a%2fb", "/a b/c;d=e"])
    return case


def cfg_stage(ctx, seeds_only=False):
    a = mkenv(host="a.example", path="/x/y", query="q=1")
    seeds = []
    for v in ["/a\nb", "//evil.com/x", "\t//evil.com", "web+evil://evil.example/x", "a-b.c9+d://evil.example/", "/login"]:
        for how in SET_MOVE:
            seeds.append({"kind": "cfg", "app": "move", "class": "HTTPFound", "value": v, "env": a, "key": "location",
                          "cfg": {"set": how, "method": "HEAD" if how == "pos" else "GET", "accept": "application/json"}})
        for how in SET_RESPONSE:
            seeds.append({"kind": "cfg", "app": "response", "value": v, "env": a, "key": "LOCATION",
                          "cfg": {"set": how, "status": 200, "serve": "get_response"}})
        seeds.append({"kind": "cfg", "app": "conditional", "value": "/first", "env": a, "extra_locations": [["location", v]],
                      "cfg": {"exit": "304", "cond_how": "subclass"}})
        seeds.append({"kind": "cfg", "app": "move", "class": "HTTPSeeOther", "value": v, "env": a,
                      "cfg": {"set": "kw", "serve": "wsgify", "body": "explicit", "subclass": "empty_body"}})
        seeds.append({"kind": "cfg", "app": "response", "value": v, "env": dict(a, scheme="HTTP"), "cfg": {"status": "302 Go Away"}})
        seeds.append({"kind": "cfg", "app": "response", "value": v, "env": dict(a, scheme="wss"), "cfg": {"set": "headers"}})
    cases = list(seeds)
    if not seeds_only:
        rng = ctx.sub_rng("cfg")
        cases += [rand_cfg_case(rng) for _ in range(ctx.scale(2500, 40000))]
        cases += [rand_cfg_case(rng, outside=True) for _ in range(ctx.scale(1200, 15000))]
    for case in cases:
        res = check_cfg(case)
        if res:
            ctx.fail(res[0], res[1], case, True, "cfg")
    ctx.oracle_count("cfg", len(cases), len(cases))



# ============================================================================ ONE Response whose header list is edited between requests
EDIT_KEYS = ["Location", "location", "LOCATION", "LoCaTiOn", "X-Other", "Content-Location", "ETag", "Content-Length"]
BASE_HL = [("Content-Type", "text/plain"), ("Content-Length", "10"), ("ETag", '"tag"')]


def rand_pairs_hl(rng, with_base=None):
    hl = list(BASE_HL) if (rng.random() < 0.6 if with_base is None else with_base) else []
    for _ in range(rng.choice([0, 1, 1, 1, 2])):
        k = rng.choice(EDIT_KEYS[:4] * 3 + EDIT_KEYS[4:6])
        hl.insert(rng.randrange(len(hl) + 1), (k, rand_value(rng, 6) if k.lower() == "location" else "x"))
    return hl


def rand_edit_history(rng, n=10):
    ops = []
    for _ in range(rng.randrange(3, n + 1)):
        t = rng.choice(["read_headers", "read_headers", "read_headerlist", "read_location", "set_headerlist", "set_headerlist",
                        "del_headerlist", "set_headers", "h_set", "h_add", "h_update", "h_setdefault", "h_pop", "h_del",
                        "hl_append", "hl_insert", "hl_slice", "set_location", "set_location", "del_location", "set_cond",
                        "serve", "serve", "serve", "serve"])
        k = rng.choice(EDIT_KEYS[:4] * 2 + EDIT_KEYS[4:6])
        v = rand_value(rng, 6) if k.lower() == "location" else "x"
        if t == "set_headerlist":
            ops.append([t, [list(x) for x in rand_pairs_hl(rng)], rng.choice(["list", "list", "tuple", "dict", "iter"])])
        elif t == "set_headers":
            ops.append([t, [list(x) for x in rand_pairs_hl(rng)], rng.choice(["dict", "rh", "list"])])
        elif t in ("h_set", "h_add", "h_update", "h_setdefault", "hl_append", "hl_insert"):
            ops.append([t, k, v])
        elif t in ("h_pop", "h_del"):
            ops.append([t, k])
        elif t == "hl_slice":
            ops.append([t, [list(x) for x in rand_pairs_hl(rng)]])
        elif t == "set_location":
            ops.append([t, rand_value(rng, 6)])
        elif t == "set_cond":
            ops.append([t, rng.random() < 0.6])
        elif t == "serve":
            ops.append([t, rand_env(rng), rng.choice(["GET", "GET", "HEAD"]), rng.choice(list(COND_EXTRA))])
        else:
            ops.append([t])
    if not any(o[0] == "serve" for o in ops):
        ops.append(["serve", rand_env(rng), "GET", "plain"])
    return {"kind": "edit", "cond0": rng.random() < 0.3, "init": [list(x) for x in rand_pairs_hl(rng)], "ops": ops}


def _serve_response(res, e, method, cond):
    got = {}

    def start_response(status, headers, exc_info=None):
        got["status"] = status
        got["headers"] = [tuple(h) for h in headers]

    try:
        for _ in res(wsgi_environ(e, method=method, extra=COND_EXTRA[cond]), start_response):
            pass
    except Exception as ex:  # noqa
        return ["raise", type(ex).__name__]
    return [got["status"][:3], got["headers"]]


def run_edit_history(case, on_serve):
    """Drive ONE Response through the edits; on_serve(i, raw header list before, result, res, env) at every serve."""
    from webob import Response
    from webob.headers import ResponseHeaders
    res = Response(status="200 OK", headerlist=[tuple(x) for x in case["init"]], app_iter=[b"0123456789"],
                   conditional_response=bool(case.get("cond0")))
    for i, o in enumerate(case["ops"]):
        t = o[0]
        try:
            if t == "read_headers":
                list(res.headers.items())
                "Location" in res.headers
            elif t == "read_headerlist":
                list(res.headerlist)
            elif t == "read_location":
                res.location
            elif t == "set_headerlist":
                pairs = [tuple(x) for x in o[1]]
                res.headerlist = {"list": list(pairs), "tuple": tuple(pairs), "dict": dict(pairs), "iter": iter(pairs)}[o[2]]
            elif t == "del_headerlist":
                del res.headerlist
            elif t == "set_headers":
                pairs = [tuple(x) for x in o[1]]
                res.headers = {"dict": dict(pairs), "rh": ResponseHeaders(pairs), "list": list(pairs)}[o[2]]
            elif t == "h_set":
                res.headers[o[1]] = o[2]
            elif t == "h_add":
                res.headers.add(o[1], o[2])
            elif t == "h_update":
                res.headers.update({o[1]: o[2]})
            elif t == "h_setdefault":
                res.headers.setdefault(o[1], o[2])
            elif t == "h_pop":
                res.headers.pop(o[1], None)
            elif t == "h_del":
                del res.headers[o[1]]
            elif t == "hl_append":
                res.headerlist.append((o[1], o[2]))
            elif t == "hl_insert":
                res.headerlist.insert(0, (o[1], o[2]))
            elif t == "hl_slice":
                res.headerlist[:] = [tuple(x) for x in o[1]]
            elif t == "set_location":
                res.location = o[1]
            elif t == "del_location":
                del res.location
            elif t == "set_cond":
                res.conditional_response = o[1]
            elif t == "serve":
                raw = [tuple(h) for h in res.headerlist]
                r = _serve_response(res, o[1], o[2], o[3])
                msg = on_serve(i, raw, r, res, o)
                if msg:
                    return msg
        except (KeyError, ValueError):      # pop/del of a missing name, CR/LF refused by the location setter
            pass
    return None


def check_edit_history(case):
    """After any sequence of header-list edits and view reads, what is served must be the CURRENT header list with
    every Location resolved for THIS request, exactly what a brand-new Response built from that list emits, and
    serving must leave the response's own header list alone."""
    from webob import Response

    def on_serve(i, raw, r, res, o):
        e = o[1]
        where = "step %d: serve %s %s (exit %s, conditional_response=%r) with header list %r" % (
            i, o[2], "%s://%s" % (e["scheme"], e["host"] or e["name"]), o[3], res.conditional_response, raw)
        fresh = _serve_response(Response(status="200 OK", headerlist=list(raw), app_iter=[b"0123456789"],
                                         conditional_response=res.conditional_response), e, o[2], o[3])
        if r[0] == "raise":
            return ("response:edited-raises-%s" % r[1], "%s raised %s" % (where, r[1]))
        given = [v for k, v in raw if k.lower() == "location"]
        out = [v for k, v in r[1] if k.lower() == "location"]
        if len(given) != len(out):
            return ("response:location-count", "%s emitted Locations %r" % (where, out))
        for g, x in zip(given, out):
            if has_alpha_scheme(g):
                if x != g:
                    return ("response:absolute-url-rewritten", "%s: %r must be sent unchanged, got %r" % (where, g, x))
            elif whatwg_origin(x) != expected_origin(e):
                return ("response:" + classify(g), "%s: scheme-less Location %r was emitted as %r, whose origin is %r, not the "
                        "request's %r" % (where, g, x, whatwg_origin(x), expected_origin(e)))
        if r != fresh:
            return ("response:edited-differs-from-fresh", "%s emitted %r, a brand-new Response built from that list emits %r"
                    % (where, r, fresh))
        if r[0] == "200" and not res.conditional_response:
            if [k for k, _ in r[1]] != [k for k, _ in raw] or \
                    [v for k, v in r[1] if k.lower() != "location"] != [v for k, v in raw if k.lower() != "location"]:
                return ("response:edited-other-headers-changed", "%s emitted %r" % (where, r[1]))
        after = [tuple(h) for h in res.headerlist]
        if after != raw:
            return ("response:stored-location-rewritten", "%s: serving changed the response's header list to %r" % (where, after))
        return None

    return run_edit_history(case, on_serve)


def edit_seeds():
    a = mkenv(host="a.example", path="/x/y", query="q=1")
    b = mkenv(scheme="https", host="b.example:8443", script="/app", path="/z")
    out = []
    for v in ["//evil.example/x", "/\t/evil.example/", "web+evil://evil.example/x", "/login"]:
        for key in ("Location", "location"):
            for prime in (["read_headers"], ["h_set", "X-Served-By", "n1"], ["h_pop", "ETag"], ["read_location"]):
                for cond0 in (False, True):
                    out.append({"kind": "edit", "cond0": cond0, "init": [list(x) for x in BASE_HL], "ops": [
                        prime, ["set_headerlist", [list(x) for x in BASE_HL] + [[key, v]], "list"],
                        ["serve", a, "GET", "plain"], ["read_headers"], ["serve", b, "HEAD", "304"]]})
                    out.append({"kind": "edit", "cond0": cond0, "init": [list(x) for x in BASE_HL], "ops": [
                        prime, ["del_headerlist"], ["set_location", v], ["serve", a, "GET", "plain"],
                        ["hl_slice", [list(x) for x in BASE_HL] + [[key, v]]], ["serve", b, "GET", "206"]]})
    return out


def edit_stage(ctx, seeds_only=False):
    cases = edit_seeds()
    if not seeds_only:
        rng = ctx.sub_rng("edit")
        cases += [rand_edit_history(rng) for _ in range(ctx.scale(2500, 40000))]
    serves = 0
    for case in cases:
        serves += sum(1 for o in case["ops"] if o[0] == "serve")
        res = check_edit_history(case)
        if res:
            ctx.fail(res[0], res[1], case, True, "edit")
    ctx.oracle_count("edit", len(cases), serves)



# ============================================================================ implementation adaptors (correspondence)
def impl_urlsplit(url, scheme):
    from urllib.parse import urlsplit
    try:
        return list(urlsplit(url, scheme))
    except ValueError:
        return Err("ValueError")


def impl_urlparse(url, scheme):
    from urllib.parse import urlparse
    try:
        return list(urlparse(url, scheme))
    except ValueError:
        return Err("ValueError")


def impl_urljoin(base, url):
    from urllib.parse import urljoin
    try:
        return urljoin(base, url)
    except ValueError:
        return Err("ValueError")


def impl_static(e, v):
    r = emit("static", e, v)
    return r[1][0] if r[0] == "ok" else Err(r[1])


def impl_headers(path, e, hl):
    """Full header list given to start_response by Response.__call__ / conditional_response_app."""
    from webob import Response
    got = {}

    def start_response(status, headers, exc_info=None):
        got["headers"] = [[k, v] for k, v in headers]
        got["status"] = status

    app = Response(status="200 OK", headerlist=list(hl), app_iter=[b"0123456789"])
    extra = {}
    if path != "plain":
        app.conditional_response = True
        extra = {"cond-304": {"HTTP_IF_NONE_MATCH": '"tag"'}, "cond-206": {"HTTP_RANGE": "bytes=2-5"},
                 "cond-416": {"HTTP_RANGE": "bytes=50-60"}, "cond-plain": {}}[path]
    try:
        for _ in app(wsgi_environ(e, extra=extra), start_response):
            pass
    except Exception as ex:  # noqa
        return Err(type(ex).__name__)
    want = {"cond-304": "304", "cond-206": "206", "cond-416": "416"}.get(path, "200")
    if not got["status"].startswith(want):
        return Err("harness-status-" + got["status"][:3])
    return got["headers"]


BRANCH = {"plain": None, "cond-plain": "BPlain", "cond-304": "B304",
          "cond-206": "(B206 %s %s)" % (cstr("4"), cstr("bytes 2-5/10")),
          "cond-416": "(B416 %s %s)" % (cstr(str(len("Requested range not satisfiable: bytes=50-60"))), cstr("bytes */10"))}


def impl_move(cls, e, v, add_slash):
    from webob import exc
    got = {}

    def start_response(status, headers, exc_info=None):
        got["headers"] = headers

    try:
        app = getattr(exc, cls)(location=v, add_slash=add_slash)
        for _ in app(wsgi_environ(e), start_response):
            pass
    except Exception as ex:  # noqa
        return Err(type(ex).__name__)
    locs = [val for k, val in got["headers"] if k.lower() == "location"]
    return locs[0] if len(locs) == 1 else Err("location-count-%d" % len(locs))


def impl_request_uri(e):
    from webob.response import _request_uri
    try:
        return _request_uri(wsgi_environ(e))
    except Exception as ex:  # noqa
        return Err(type(ex).__name__)


def impl_path_url(e):
    from webob import Request
    try:
        return Request(wsgi_environ(e)).path_url
    except Exception as ex:  # noqa
        return Err(type(ex).__name__)


def cheaders(hl):
    return clist(cpair(cstr(k), cstr(v)) for k, v in hl)


# ============================================================================ the check
def _report_corr(ctx, name, cases, bad):
    for i in bad[:6]:
        case = cases[i][2]
        res = check_case(case["oracle"]) if case.get("oracle") else None
        if res:
            ctx.fail(res[0], res[1], case["oracle"], True, "corr")
        else:
            ctx.broken.append("correspondence %s: model and implementation disagree on %s (impl: %r)"
                              % (name, json.dumps(case), cases[i][1]))


NFKC_DELIM = [8263, 8264, 8265, 8448, 8449, 8453, 8454, 10868, 65043, 65046, 65109, 65110, 65119, 65131,
              65283, 65295, 65306, 65311, 65312]      # = Model.C14_urlsplit.nfkc_delim


def nfkc_table_problem():
    """The hard-coded table behind the model's _checknetloc must be what this interpreter's unicodedata says."""
    import sys
    import unicodedata
    cs = [c for c in range(128, sys.maxunicode + 1)
          if any(d in unicodedata.normalize("NFKC", chr(c)) for d in "/?#@:")]
    src = open(os.path.join(fw.COQ, "Model", "C14_urlsplit.v")).read()
    m = re.search(r"Definition nfkc_delim : list N :=\s*\[(.*?)\]", src, flags=re.S)
    coq = [int(x) for x in re.findall(r"\d+", m.group(1))] if m else None
    if cs != NFKC_DELIM or coq != NFKC_DELIM:
        return "nfkc_delim table out of date: unicodedata %s gives %r" % (unicodedata.unidata_version, cs)
    return None


# every implementation object the Gallina model mirrors by hand (Model/C14_urlsplit.v, Model/C14_location.v)
MODELLED = [
    # CPython urllib.parse (Model/C14_urlsplit.v; quote in Model/C14_location.v)
    "urllib.parse:urlsplit", "urllib.parse:urlparse", "urllib.parse:_splitparams", "urllib.parse:_splitnetloc",
    "urllib.parse:_checknetloc", "urllib.parse:urlunsplit", "urllib.parse:urlunparse", "urllib.parse:urljoin",
    "urllib.parse:quote", "urllib.parse:quote_from_bytes", "urllib.parse:_ALWAYS_SAFE",
    "urllib.parse:uses_relative", "urllib.parse:uses_netloc", "urllib.parse:uses_params", "urllib.parse:scheme_chars",
    "urllib.parse:_WHATWG_C0_CONTROL_OR_SPACE", "urllib.parse:_UNSAFE_URL_BYTES_TO_REMOVE",
    # webob.response
    "webob.response:_request_uri", "webob.response:Response._make_location_absolute", "webob.response:_percent_encode_match",
    "webob.response:Response._abs_headerlist", "webob.response:Response.__call__",
    "webob.response:Response.conditional_response_app", "webob.response:filter_headers", "webob.response:Response.location",
    # webob.descriptors (CR/LF refusal of the Location setter)
    "webob.descriptors:header_getter",
    # webob.exc
    "webob.exc:_HTTPMove.__init__", "webob.exc:_HTTPMove.__call__", "webob.exc:WSGIHTTPException.__call__",
    "webob.exc:WSGIHTTPException.generate_response",
    # webob.request (add_slash / missing location)
    "webob.request:BaseRequest.host_url", "webob.request:BaseRequest.application_url", "webob.request:BaseRequest.path_url",
    "webob.request:PATH_SAFE",
]
# translated into coq/Gen/C14_regexes.v by gen(ctx) on every run
REGENERATED = ["webob.descriptors:SCHEME_RE", "webob.response:_CTL_OR_SPACE_RE", "webob.response:_COLON_IN_FIRST_SEGMENT_RE"]
# exercised by the oracle only: the concrete redirect classes (modelled as _HTTPMove), IPv6-literal hosts, the
# url_encoding round trip of non-ASCII SCRIPT_NAME / PATH_INFO behind path_url
ORACLE_ONLY = ["webob.exc:" + c for c in MOVE_CLASSES if c != "_HTTPMove"] + [
    "urllib.parse:_check_bracketed_host", "webob.request:BaseRequest.encget", "webob.request:BaseRequest.script_name",
    "webob.request:BaseRequest.path_info"]


def run(ctx):
    ctx.modelled(MODELLED)
    ctx.extra["regenerated_from_source"] = REGENERATED
    ctx.extra["oracle_only"] = ORACLE_ONLY
    problems = gen(ctx)
    for p in problems:
        ctx.broken.append("translator: " + p)
    p = nfkc_table_problem()
    if p:
        ctx.broken.append(p)
    ctx.build(["Props/C14.vo"])
    seed_stage(ctx)
    port_stage(ctx)
    history_stage(ctx, seeds_only=True)
    cfg_stage(ctx, seeds_only=True)
    edit_stage(ctx, seeds_only=True)
    rng = ctx.sub_rng("corr")

    # ---- urllib.parse model vs urllib.parse
    n = ctx.scale(500, 6000)
    vals = list(strings_upto(ALPHABET, 2)) + SEEDS + ABSOLUTE
    vals += [rand_value(rng, 8) for _ in range(n)]
    vals = [v for v in dict.fromkeys(vals) if no_brackets(v)]
    cases = []
    for v in vals:
        sch = rng.choice(["", "", "http", "https", " \thttp\n", "x"])
        cases.append((cpair(cstr(v), cstr(sch)), [impl_urlsplit(v, sch), impl_urlparse(v, sch)], {"url": v, "scheme": sch}))
    bad = ctx.corr("urlsplit", IMPORTS, "(fun c => VList [urlsplit_obs (fst c) (snd c); urlparse_obs (fst c) (snd c)])",
                   cases, in_type="(str * str)")
    _report_corr(ctx, "urlsplit", cases, bad)

    bases = ["http://example.org/dir/page", "https://example.org:8443/app//evil.com/x", "http://srv.local:8080/a/b/",
             "http://example.org", "http://example.org/x;p/y;q?bq#bf", "http://h/a/b/c/d;p?q", "//h/p", "/rel/base",
             "", "mailto:x", "http://example.org//", "http:///nohost", "HTTP://UP.case/x", "http://h/..;x/./y", "ws://h/a b",
             "svn+ssh://h/a/b", "file:///etc/passwd", "http://h?bq", "http://h#bf", "x://h/p/q"]
    cases = []
    for v in list(dict.fromkeys(SEEDS + ABSOLUTE + [rand_value(rng, 8) for _ in range(n)])):
        b = rng.choice(bases)
        if no_brackets(v, b):
            cases.append((cpair(cstr(b), cstr(v)), impl_urljoin(b, v), {"base": b, "url": v}))
    dots = [".", "..", "", "a", "b;p"]
    for k in range(1, 4):
        for t in itertools.product(dots, repeat=k):
            for lead in ("", "/"):
                v = lead + "/".join(t)
                for b in ("http://h/a/b/c/d;p?q", "http://h", "http://h/x/"):
                    cases.append((cpair(cstr(b), cstr(v)), impl_urljoin(b, v), {"base": b, "url": v}))
    bad = ctx.corr("urljoin", IMPORTS, "(fun c => urljoin_obs (fst c) (snd c))", cases, in_type="(str * str)")
    _report_corr(ctx, "urljoin", cases, bad)

    # ---- _request_uri / path_url
    cases, cases2 = [], []
    for _ in range(ctx.scale(300, 3000)):
        e = rand_env(rng)
        cases.append((cenv(e), impl_request_uri(e), {"env": e}))
        e2 = rand_env(rng, ascii_paths=True, with_path=True)
        cases2.append((cenv(e2), impl_path_url(e2), {"env": e2}))
    for e in port_envs():
        cases.append((cenv(e), impl_request_uri(e), {"env": e, "oracle": {"path": "static", "env": e, "value": "/login"}}))
        cases2.append((cenv(e), impl_path_url(e), {"env": e, "oracle": {"path": "move:HTTPFound", "env": e, "value": None,
                                                                          "add_slash": True}}))
    bad = ctx.corr("request_uri", IMPORTS, "(fun e => VStr (request_uri e))", cases, in_type="environ")
    _report_corr(ctx, "request_uri", cases, bad)
    bad = ctx.corr("path_url", IMPORTS, "(fun e => VStr (path_url e))", cases2, in_type="environ")
    _report_corr(ctx, "path_url", cases2, bad)

    # ---- Response._make_location_absolute
    cases = []
    vals = list(strings_upto(ALPHABET, 2)) + SEEDS + ABSOLUTE + [rand_value(rng, 7) for _ in range(ctx.scale(500, 8000))]
    for v in dict.fromkeys(vals):
        e = rand_env(rng)
        cases.append((cpair(cenv(e), cstr(v)), impl_static(e, v),
                      {"env": e, "value": v, "oracle": {"path": "static", "env": e, "value": v}}))
    bad = ctx.corr("make_location_absolute", IMPORTS, "(fun c => join_obs (make_location_absolute (fst c) (snd c)))",
                   cases, in_type="(environ * str)")
    _report_corr(ctx, "make_location_absolute", cases, bad)

    # ---- Response.__call__ / conditional_response_app : the whole header list
    cases = []
    keys = ["Location", "location", "LOCATION", "LoCaTiOn", "X-Location", "Content-Location", "Locatio", "Location "]
    for _ in range(ctx.scale(400, 4000)):
        e = rand_env(rng)
        path = rng.choice(list(BRANCH))
        hl = [("Content-Type", "text/plain"), ("Content-Length", "10"), ("ETag", '"tag"')]
        for _k in range(rng.choice([1, 1, 1, 2, 0])):
            hl.insert(rng.randrange(len(hl) + 1), (rng.choice(keys), rand_value(rng, 6)))
        if rng.random() < 0.3:
            hl.insert(rng.randrange(len(hl) + 1), (rng.choice(["content-type", "CONTENT-LENGTH", "X-Other"]), "10"))
        out = impl_headers(path, e, hl)
        locv = [(k, v) for k, v in hl if k.lower() == "location"]
        orc = {"path": path, "env": e, "value": locv[0][1], "key": locv[0][0]} if len(locv) == 1 else None
        if path == "plain":
            cases.append(("(None, %s, %s)" % (cenv(e), cheaders(hl)), out, {"path": path, "env": e, "headers": hl, "oracle": orc}))
        else:
            cases.append(("(Some %s, %s, %s)" % (BRANCH[path], cenv(e), cheaders(hl)), out,
                          {"path": path, "env": e, "headers": hl, "oracle": orc}))
    bad = ctx.corr("response_call", IMPORTS,
                   "(fun c => match c with (Some b, e, hl) => hres_obs (cond_headerlist b e hl) "
                   "| (None, e, hl) => hres_obs (plain_headerlist e hl) end)", cases,
                   in_type="(option cond_branch * environ * list header)")
    _report_corr(ctx, "response_call", cases, bad)

    # ---- the redirect classes
    cases = []
    for i in range(ctx.scale(500, 6000)):
        e = rand_env(rng, ascii_paths=True, with_path=True)
        cls = MOVE_CLASSES[i % len(MOVE_CLASSES)]
        r = rng.random()
        if r < 0.12:
            v, a = None, True
        elif r < 0.17:
            v, a = None, False
        elif r < 0.2:
            v, a = rand_value(rng, 5), True
        else:
            v, a = rand_value(rng, 7), False
        out = impl_move(cls, e, v, a)
        orc = {"path": "move:" + cls, "env": e, "value": v, "add_slash": a} if not (v is not None and a) else None
        cases.append(("(%s, %s, %s)" % (cenv(e), copt(None if v is None else cstr(v)), cbool(a)), out,
                      {"class": cls, "env": e, "value": v, "add_slash": a, "oracle": orc}))
    bad = ctx.corr("http_move", IMPORTS, "(fun c => match c with (e, l, a) => move_obs e l a end)", cases,
                   in_type="(environ * option str * bool)")
    _report_corr(ctx, "http_move", cases, bad)

    # ---- ONE instance serving a sequence of different requests vs the (pure) model applied to each request
    cases = []
    for i in range(ctx.scale(300, 3000)):
        h = rand_history(rng)
        app, envs = h["app"], [st["env"] for st in h["steps"]]
        if app["type"] == "move":
            v, a = app.get("value"), bool(app.get("add_slash"))
            try:
                obj = build_app(app)
                out = []
                for st in h["steps"]:
                    r = serve(obj, app, dict(st, cond="plain"))
                    out.append(Err(r[1]) if r[0] == "raise" else (r[1][0] if len(r[1]) == 1 else Err("location-count")))
            except Exception as ex:  # noqa
                out = [Err(type(ex).__name__)] * len(envs)
            cases.append(("(%s, Some (%s, %s), [])" % (clist(cenv(e) for e in envs), copt(None if v is None else cstr(v)), cbool(a)),
                          out, {"history": h, "oracle_history": h}))
        else:
            hl = [("Content-Type", "text/plain"), ("Content-Length", "10"), ("ETag", '"tag"'),
                  (app.get("key") or "Location", app["value"])]
            obj = build_app({"type": "response", "value": app["value"], "key": app.get("key")})
            out = []
            for st in h["steps"]:
                r = serve(obj, {"type": "response"}, st)
                out.append(Err(r[1]) if r[0] == "raise" else (r[1][0] if len(r[1]) == 1 else Err("location-count")))
            h2 = {"kind": "history", "app": dict(app, type="response"), "steps": h["steps"]}
            cases.append(("(%s, None, %s)" % (clist(cenv(e) for e in envs), cheaders(hl)), out,
                          {"history": h2, "oracle_history": h2}))
    bad = ctx.corr("one_instance_history", IMPORTS,
                   "(fun c => match c with "
                   "| (es, Some (l, a), _) => VList (map (fun e => move_obs e l a) es) "
                   "| (es, None, hl) => VList (map (fun e => match plain_headerlist e hl with "
                   "HOk h => match locations h with [x] => VStr x | _ => VErr (A \"location-count\") end "
                   "| HValueError => e_ValueError | HUnsupported => e_unsupported end) es) end)", cases,
                   in_type="(list environ * option (option str * bool) * list header)")
    for i in bad[:6]:
        h = cases[i][2]["oracle_history"]
        res = check_history(h)
        if res:
            ctx.fail(res[0], res[1], h, True, "corr")
        else:
            ctx.broken.append("correspondence one_instance_history: model and implementation disagree on %s (impl: %r)"
                              % (json.dumps(h), cases[i][1]))

    # ---- the redirect classes under other argument shapes and configurations (the model only sees location / add_slash)
    cases = []
    for i in range(ctx.scale(400, 4000)):
        c = rand_cfg_case(rng)
        while c["app"] != "move" or c["env"]["scheme"] not in ("http", "https") \
                or not all(ord(ch) < 128 for ch in (c["env"]["path"] or "") + (c["env"]["script"] or "")):
            c = rand_cfg_case(rng)
        r = serve_cfg(c)
        out = Err(r[1]) if r[0] == "raise" else (r[2][0][1] if len(r[2]) == 1 else Err("location-count-%d" % len(r[2])))
        how, v, a = c["cfg"]["set"], c.get("value"), bool(c.get("add_slash"))
        lit = "(%s, %s, %s)" % (cenv(c["env"]), copt(None if v is None else cstr(v)), cbool(a))
        # headers= bypasses __init__'s checks: the model's __call__ alone; every other shape: __init__ then __call__
        cases.append(("(%s, %s)" % (cbool(how in ("headers", "headers_dict")), lit), out, {"cfg_case": c}))
    bad = ctx.corr("http_move_shapes", IMPORTS,
                   "(fun c => match c with (true, (e, l, a)) => join_obs (move_call e l a) "
                   "| (false, (e, l, a)) => move_obs e l a end)", cases,
                   in_type="(bool * (environ * option str * bool))")
    for i in bad[:6]:
        c = cases[i][2]["cfg_case"]
        res = check_cfg(c)
        if res:
            ctx.fail(res[0], res[1], c, True, "corr")
        else:
            ctx.broken.append("correspondence http_move_shapes: model and implementation disagree on %s (impl: %r)"
                              % (json.dumps(c), cases[i][1]))

    # ---- ONE Response edited between requests: the model's input is the CURRENT header list at each serve
    cases = []
    for i in range(ctx.scale(250, 2500)):
        h = rand_edit_history(rng)
        rec = []

        def on_serve(i_, raw, r, res, o, rec=rec):
            rec.append((raw, r, bool(res.conditional_response), o))
            return None

        run_edit_history(h, on_serve)
        for j, (raw, r, cond, o) in enumerate(rec[:3]):
            e = o[1]
            if r[0] == "raise":
                out = Err(r[1])
            elif cond:
                out = [v for k, v in r[1] if k.lower() == "location"]
            else:
                out = [[k, v] for k, v in r[1]]
            cases.append(("(%s, %s, %s)" % (cbool(not cond), cenv(e), cheaders(raw)), out,
                          {"edit": h, "serve_no": j, "raw": [list(x) for x in raw]}))
    bad = ctx.corr("edited_response_history", IMPORTS,
                   "(fun c => match c with "
                   "| (true, e, hl) => hres_obs (plain_headerlist e hl) "
                   "| (false, e, hl) => match abs_headerlist e hl with HOk h => VList (map VStr (locations h)) "
                   "| HValueError => e_ValueError | HUnsupported => e_unsupported end end)", cases,
                   in_type="(bool * environ * list header)")
    for i in bad[:6]:
        h = cases[i][2]["edit"]
        res = check_edit_history(h)
        if res:
            ctx.fail(res[0], res[1], h, True, "corr")
        else:
            ctx.broken.append("correspondence edited_response_history: model and implementation disagree on %s (impl: %r)"
                              % (json.dumps(cases[i][2]), cases[i][1]))

    history_stage(ctx)
    cfg_stage(ctx)
    edit_stage(ctx)
    oracle_sweep(ctx)
    ctx.extra["rule"] = (
        "correspondence: distinct (environ, value / header list / class) inputs, values = all strings <= 2 over "
        "{/ \\ . TAB SP \\x01 % @ : ? # a}, a seed list of known-dangerous spellings and random strings <= 8 over that "
        "alphabet extended with CR LF NUL US ; digits + - DEL NBSP e-acute [ =, with host-like suffixes; oracle: every "
        "string up to the tier's bound over the same alphabet (x suffixes x request environs) pushed through "
        "Response._make_location_absolute, and a subset through Response.__call__, the four conditional_response_app "
        "exits and all 8 redirect classes; a case is non-trivial when the value has no <alpha>+: scheme and is not empty")
    ctx.extra["exhaustive"] = False
    ctx.assume += [
        "Location values are Python strings (any code points); environ strings are latin-1 text (WSGI native strings)",
        "wsgi.url_scheme is 'http' or 'https'; the request host (HTTP_HOST or SERVER_NAME:SERVER_PORT) is printable "
        "ASCII without / ? # [ ] \\ and is not empty after removing the default port; SCRIPT_NAME and PATH_INFO are "
        "empty or start with '/' (theorems); IPv6-literal hosts are covered by the oracle only",
        "CPython 3.12 urllib.parse.urlsplit/urlparse/urljoin/quote as modelled in Model/C14_urlsplit.v (validated by "
        "correspondence, not verified); _checknetloc is modelled by a table checked against unicodedata on every run, "
        "_check_bracketed_host is outside the model",
    ]
    ctx.trusted += [
        "regex translator in harness/props/c14.py (pattern text and flags read from the live objects, classes expanded "
        "by CPython's own engine over all code points, .search/.match/.sub use sites checked textually)",
        "CPython `re` semantics of ^, classes, greedy repeats (prefix language) and of .sub with a one-character class",
        "the oracle's WHATWG-style origin splitter (harness/props/c14.py:whatwg_origin)",
    ]


def seed_stage(ctx):
    """The known-dangerous spellings first, through every serving path, so that a finding is reported with its
    plainest example."""
    paths = ["static", "plain", "cond-plain", "cond-304", "cond-206", "cond-416"] + ["move:" + c for c in MOVE_CLASSES]
    e = mkenv(host="example.org", path="/dir/page", query="x=1")
    cnt = nt = 0
    for v in SEEDS + ABSOLUTE:
        for path in paths:
            cnt += 1
            nt += 1 if (v and not has_alpha_scheme(v)) else 0
            case = {"path": path, "env": e, "value": v}
            res = check_case(case)
            if res:
                ctx.fail(res[0], res[1], case, True, "seeds")
            elif path in ("plain", "cond-304") and v in ("//evil.com/x", "/\t/evil.com"):
                for key in ("location", "LOCATION"):
                    case = {"path": path, "env": e, "value": v, "key": key}
                    res = check_case(case)
                    if res:
                        ctx.fail(res[0], res[1], case, True, "seeds")
    ctx.oracle_count("seeds", cnt, nt)


def port_stage(ctx):
    """Host text against port text: every host ending x port spelling x Host-header / SERVER_NAME+SERVER_PORT, through
    every kind of serving path; the emitted authority must be the request's (default port dropped, nothing else)."""
    envs = port_envs(v6=True) + (port_envs(script="/app", path="") if ctx.thorough else [])
    cnt = 0
    for i, e in enumerate(envs):
        for v, path in (("/login", "static"), ("//evil.com/x", "plain"), ("x", "cond-304"), ("?q", "cond-206"),
                        ("/login", "move:" + MOVE_CLASSES[i % len(MOVE_CLASSES)]), ("../up", "move:HTTPFound")):
            cnt += 1
            case = {"path": path, "env": e, "value": v}
            res = check_case(case)
            if res:
                ctx.fail(_port_key(res, case), res[1], case, True, "ports")
        for case in ({"path": "move:HTTPSeeOther", "env": e, "value": None, "add_slash": True},
                     {"path": "move:HTTPFound", "env": e, "value": None}):
            cnt += 1
            res = check_case(case)
            if res:
                ctx.fail(_port_key(res, case), res[1], case, True, "ports")
    ctx.oracle_count("ports", cnt, cnt)


def _port_key(res, case):
    """A failure that disappears when the same value is served for a plain `example.org` host is about how the
    host[:port] text of THIS request is handled, not about the value."""
    neutral = dict(case, env=dict(case["env"], host="example.org"))
    if check_case(neutral) is None:
        return res[0].split(":")[0] + ":request-host-port-mangled"
    return res[0]


def oracle_sweep(ctx):
    # 1. exhaustive small strings through the static method, several environs
    bound = ctx.scale(4, 5)
    envs = small_envs()
    sufs = ["", "evil.com", "/evil.com"] if not ctx.thorough else ["", "evil.com", "/evil.com", "@evil.com", "evil.com:80/x"]
    cnt = nt = 0
    for s in strings_upto(ALPHABET, bound):
        for suf in sufs:
            v = s + suf
            e = envs[(cnt + len(v)) % len(envs)]
            cnt += 1
            nt += 1 if (v and not has_alpha_scheme(v)) else 0
            case = {"path": "static", "env": e, "value": v}
            res = check_case(case)
            if res:
                ctx.fail(res[0], res[1], case, True, "exhaustive-static")
    if ctx.thorough:          # every string of length 6 over the alphabet as well (no suffix)
        for t in itertools.product(ALPHABET, repeat=6):
            v = "".join(t)
            e = envs[cnt % len(envs)]
            cnt += 1
            nt += 0 if has_alpha_scheme(v) else 1
            case = {"path": "static", "env": e, "value": v}
            res = check_case(case)
            if res:
                ctx.fail(res[0], res[1], case, True, "exhaustive-static")
    ctx.oracle_count("exhaustive-static", cnt, nt)

    # 2. extended alphabet (CR LF NUL digits + - ...) exhaustive to a smaller bound, static
    cnt = nt = 0
    b2 = ctx.scale(2, 3)
    for s in strings_upto(ALPHABET + EXTRA, b2):
        for suf in ("", "//evil.com", "evil.com"):
            v = s + suf
            e = envs[cnt % len(envs)]
            cnt += 1
            nt += 1 if (v and not has_alpha_scheme(v)) else 0
            case = {"path": "static", "env": e, "value": v}
            res = check_case(case)
            if res:
                ctx.fail(res[0], res[1], case, True, "exhaustive-extended")
    ctx.oracle_count("exhaustive-extended", cnt, nt)

    # 3. every serving path: plain, four conditional exits, every redirect class
    paths = ["plain", "cond-plain", "cond-304", "cond-206", "cond-416"] + ["move:" + c for c in MOVE_CLASSES]
    b3 = ctx.scale(2, 3)
    vals = list(dict.fromkeys(list(strings_upto(ALPHABET, b3)) + [s + "evil.com" for s in strings_upto(ALPHABET, b3)]
                              + SEEDS + ABSOLUTE))
    cnt = nt = 0
    spellings = ["Location", "location", "LOCATION", "LoCaTiOn"]
    for i, v in enumerate(vals):
        for j, path in enumerate(paths):
            e = envs[(i + j) % len(envs)]
            cnt += 1
            nt += 1 if (v and not has_alpha_scheme(v)) else 0
            case = {"path": path, "env": e, "value": v, "key": spellings[(i + j) % 4]}
            res = check_case(case)
            if res:
                ctx.fail(res[0], res[1], case, True, "all-paths")
    ctx.oracle_count("all-paths", cnt, nt)

    # 4. many request URLs (incl. IPv6 hosts, '//' PATH_INFO, missing SCRIPT_NAME) x dangerous seeds, add_slash, no location
    rng = ctx.sub_rng("oracle-env")
    es = all_envs()
    if not ctx.thorough:
        es = rng.sample(es, 250)
    cnt = nt = 0
    for i, e in enumerate(es):
        for v in (rng.sample(SEEDS, 6) + [rand_value(rng, 6) for _ in range(4)] + [rng.choice(ABSOLUTE)]):
            path = paths[(cnt) % len(paths)]
            cnt += 1
            nt += 1 if (v and not has_alpha_scheme(v)) else 0
            case = {"path": path, "env": e, "value": v}
            res = check_case(case)
            if res:
                ctx.fail(res[0], res[1], case, True, "request-urls")
        ascii_env = all(ord(c) < 128 for c in (e["path"] or "") + (e["script"] or ""))
        if ascii_env:
            for cls in (MOVE_CLASSES[i % len(MOVE_CLASSES)],):
                for case in ({"path": "move:" + cls, "env": e, "value": None, "add_slash": True},
                             {"path": "move:" + cls, "env": e, "value": None, "add_slash": False},
                             {"path": "move:" + cls, "env": e, "value": "", "add_slash": False}):
                    cnt += 1
                    nt += 1
                    res = check_case(case)
                    if res:
                        ctx.fail(res[0], res[1], case, True, "request-urls")
    ctx.oracle_count("request-urls", cnt, nt)

    # 5. random longer strings through random paths
    rng = ctx.sub_rng("oracle-random")
    m = ctx.scale(6000, 120000)
    nt = 0
    for _ in range(m):
        v = rand_value(rng, 10)
        e = rand_env(rng, ascii_paths=True, with_path=True)
        path = rng.choice(paths + ["static"] * 4)
        nt += 1 if (v and not has_alpha_scheme(v)) else 0
        case = {"path": path, "env": e, "value": v}
        res = check_case(case)
        if res:
            ctx.fail(res[0], res[1], case, True, "random")
    ctx.oracle_count("random", m, nt)

    # 6. CR / LF refused by every redirect class, TypeError for location + add_slash
    from webob import exc
    cnt = 0
    for cls in MOVE_CLASSES:
        for v in ["http://example.com\r\nX: y", "/a\nb", "\r", "\n", "//evil.com\r", "a\r\n", "/ok\r/x"]:
            cnt += 1
            case = {"path": "move:" + cls, "env": envs[0], "value": v}
            res = check_case(case)
            if res:
                ctx.fail(res[0], res[1], case, True, "crlf")
        try:
            getattr(exc, cls)(location="/x", add_slash=True)
            ctx.fail("move:location-and-add-slash", "%s(location=, add_slash=True) did not raise" % cls,
                     {"path": "move:" + cls, "env": envs[0], "value": "/x", "add_slash": True, "both": True}, True, "crlf")
        except TypeError:
            pass
    ctx.oracle_count("crlf", cnt, cnt)


def replay(ctx, path):
    data = json.load(open(path))
    case = data["case"]
    if not isinstance(case, dict) or ("path" not in case and case.get("kind") not in ("history", "order", "cfg", "edit")):
        print("replay: nothing executable in this file (broken obligation): %s" % data.get("what"))
        return 1
    if case.get("kind") == "history":
        res = check_history(case)
    elif case.get("kind") == "cfg":
        res = check_cfg(case)
    elif case.get("kind") == "edit":
        res = check_edit_history(case)
    elif case.get("kind") == "order":
        msg = order_check([(e, v) for e, v in case["items"]])
        res = ("response:order-dependent", msg) if msg else None
    elif case.get("both"):
        from webob import exc
        try:
            getattr(exc, case["path"][5:])(location="/x", add_slash=True)
            res = ("move:location-and-add-slash", "no TypeError")
        except TypeError:
            res = None
    else:
        res = check_case(case)
    if res:
        print("VIOLATION property=C14 replay=%s" % path)
        print("  (%s) %s" % res)
        return 1
    print("replay passes on the current tree")
    return 0
