"""C03 — Accept-* parsers accept exactly the RFC grammar and never raise (see design_notes/C03.md)."""
import itertools
import json
import os

from harness import fw, rxgen
from harness.fw import Err, catch, cstr, cval, clist, cpair, copt


def patterns():
    from webob import acceptparse as ap
    return {
        "gen_accept": ap.Accept.accept_compiled_re,
        "gen_accept_charset": ap.AcceptCharset.accept_charset_compiled_re,
        "gen_accept_encoding": ap.AcceptEncoding.accept_encoding_compiled_re,
        "gen_accept_language": ap.AcceptLanguage.accept_language_compiled_re,
        "gen_token": ap.token_compiled_re,
        "gen_media_type": ap.Accept.media_type_compiled_re,
    }


def gen(ctx):
    """Regenerate coq/Gen/C03_regexes.v from the live compiled patterns of /repo."""
    out = ["(* GENERATED from %s/src/webob/acceptparse.py by harness/props/c03.py — do not edit *)" % fw.REPO,
           "From Coq Require Import NArith List.", "Require Import Webob.Lib.Val Webob.Lib.Rx.",
           "Import ListNotations.", "Local Open Scope N_scope."]
    problems = []
    info = {}
    for name, pat in patterns().items():
        try:
            term, inf = rxgen.full_mode_loose(pat.pattern, pat.flags)
            info[name] = inf
        except Exception as e:  # fail closed
            problems.append("translator cannot express %s (%s): %r" % (name, e, pat.pattern[:80]))
            term = "Emp"
        out.append("Definition %s : rx := %s." % (name, term))
    fw.write_if_changed(os.path.join(fw.COQ, "Gen", "C03_regexes.v"), "\n".join(out) + "\n")
    ctx.extra["translator"] = info
    return problems


# =========================================================================== generators
TOKENS = ["a", "text", "html", "*", "utf-8", "iso-8859-5", "x!#$%&'*+-.^_`|~9", "q", "Q", "qq", "en", "gzip", "identity", "B", "json"]
LANGS = ["en", "en-gb", "EN-us", "*", "zh-Hant-CN", "x-y", "a-1", "abcdefgh", "de-1996", "i-klingon"]
OWS = ["", "", " ", "\t", "  ", " \t "]
QV = ["0", "1", "0.", "1.", "0.5", "0.50", "0.500", "1.0", "1.00", "1.000", "0.001", "0.999", "0.0", "0.000", "0.12"]
QD = ["a", " ", "\t", ",", ";", "=", "\\\"", "\\\\", "\\a", "\xe9", "!", "\\ ", "q", "*", "/"]


def r_ows(rng):
    return rng.choice(OWS)


def r_weight(rng):
    return r_ows(rng) + ";" + r_ows(rng) + rng.choice("qQ") + "=" + rng.choice(QV)


def r_qstr(rng):
    return '"' + "".join(rng.choice(QD) for _ in range(rng.randrange(0, 5))) + '"'


def r_value(rng):
    return rng.choice(TOKENS) if rng.random() < 0.5 else r_qstr(rng)


def r_param(rng):
    name = rng.choice([t for t in TOKENS if t not in ("q", "Q")])
    return r_ows(rng) + ";" + r_ows(rng) + name + "=" + r_value(rng)


def r_ext(rng):
    s = r_ows(rng) + ";" + r_ows(rng) + rng.choice(TOKENS)
    if rng.random() < 0.6:
        s += "=" + r_value(rng)
    return s


def r_element(family, rng):
    if family == "accept":
        s = rng.choice(TOKENS) + "/" + rng.choice(TOKENS)
        for _ in range(rng.choice([0, 0, 1, 2])):
            s += r_param(rng)
        if rng.random() < 0.6:
            s += r_weight(rng)
            for _ in range(rng.choice([0, 0, 1, 2])):
                s += r_ext(rng)
        return s
    item = rng.choice(LANGS) if family == "language" else rng.choice(TOKENS)
    if rng.random() < 0.6:
        item += r_weight(rng)
    return item


def r_header(family, rng):
    n = rng.choice([0, 1, 1, 2, 3, 4])
    one_plus = family in ("charset", "language")
    if one_plus and n == 0:
        n = 1
    if n == 0:
        return rng.choice(["", ",", ", ,", " ,"]) if rng.random() < 0.7 else ""
    s = ""
    if one_plus:
        for _ in range(rng.choice([0, 0, 1, 2])):
            s += "," + r_ows(rng)
        s += r_element(family, rng)
    else:
        s += rng.choice([",", r_element(family, rng), r_element(family, rng)])
    for _ in range(n - 1):
        s += r_ows(rng) + ","
        if rng.random() < 0.85:
            s += r_ows(rng) + r_element(family, rng)
    if rng.random() < 0.2:
        s += r_ows(rng) + ","
    return s


MUT_ALPHA = list("aq Q=;,.*/\"\\01\t-") + ["\xe9", "\x7f", "\x00", "\u0100", "5", "(", "@"]


def mutate(s, rng):
    k = rng.randrange(3)
    i = rng.randrange(len(s) + 1)
    c = rng.choice(MUT_ALPHA)
    if k == 0 or not s:
        return s[:i] + c + s[i:]
    i = min(i, len(s) - 1)
    if k == 1:
        return s[:i] + s[i + 1:]
    return s[:i] + c + s[i + 1:]


ATOMS = {
    "accept": ["a", "*", "/", ",", " ", ";", "q", "=", "0", "1", ".", "\""],
    "charset": ["a", "*", ",", " ", "\t", ";", "q", "Q", "=", "0", "1", ".", "5"],
    "encoding": ["a", "*", ",", " ", ";", "q", "=", "0", "1", ".", "5", "\x7f"],
    "language": ["a", "Z", "9", "-", "*", ",", " ", ";", "q", "=", "0", "1", "."],
}

FAMILIES = {
    "accept": ("Accept", "accept_compiled_re", "abnf_accept", "parse_accept", "v_accept", "create_accept_header", "accept",
               "HTTP_ACCEPT"),
    "charset": ("AcceptCharset", "accept_charset_compiled_re", "abnf_accept_charset", "parse_accept_charset", "v_simple",
                "create_accept_charset_header", "accept_charset", "HTTP_ACCEPT_CHARSET"),
    "encoding": ("AcceptEncoding", "accept_encoding_compiled_re", "abnf_accept_encoding", "parse_accept_encoding", "v_simple",
                 "create_accept_encoding_header", "accept_encoding", "HTTP_ACCEPT_ENCODING"),
    "language": ("AcceptLanguage", "accept_language_compiled_re", "abnf_accept_language", "parse_accept_language", "v_simple",
                 "create_accept_language_header", "accept_language", "HTTP_ACCEPT_LANGUAGE"),
}


# =========================================================================== implementation adaptors
def q1000(q):
    return int(round(q * 1000))


def impl_parse(family, value):
    from webob import acceptparse as ap
    cls = getattr(ap, FAMILIES[family][0])
    try:
        items = list(cls.parse(value))
    except ValueError:
        return Err("ValueError")
    if family == "accept":
        return [[mr, q1000(q), [list(p) for p in params], [list(e) if isinstance(e, tuple) else e for e in exts]]
                for mr, q, params, exts in items]
    return [[it, q1000(q)] for it, q in items]


def impl_accepts(family, value):
    return not isinstance(impl_parse(family, value), Err)


# =========================================================================== independent reference parser (oracle)
def ref_split_outside_quotes(s, sep):
    out, cur, inq, i = [], "", False, 0
    while i < len(s):
        c = s[i]
        if inq:
            cur += c
            if c == "\\" and i + 1 < len(s):
                cur += s[i + 1]
                i += 1
            elif c == '"':
                inq = False
        elif c == '"':
            inq = True
            cur += c
        elif c == sep:
            out.append(cur)
            cur = ""
        else:
            cur += c
        i += 1
    out.append(cur)
    return out


def ref_unquote(v):
    if len(v) >= 2 and v[0] == '"' and v[-1] == '"':
        out, i, body = "", 0, v[1:-1]
        while i < len(body):
            if body[i] == "\\" and i + 1 < len(body):
                out += body[i + 1]
                i += 2
            else:
                out += body[i]
                i += 1
        return out
    return v


def ref_requote(v):
    import re
    if v == "":
        return '""'
    e = v.replace("\\", "\\\\").replace('"', '\\"')
    return e if re.fullmatch(r"[!#$%&'*+\-.^_`|~0-9A-Za-z]+", e) else '"' + e + '"'


def ref_parse(family, value):
    """Reference reading of a VALID header (RFC 7231 5.3): elements left to right."""
    out = []
    for el in ref_split_outside_quotes(value, ","):
        el = el.strip(" \t")
        if not el:
            continue
        pieces = [p.strip(" \t") for p in ref_split_outside_quotes(el, ";")]
        item, rest = pieces[0], pieces[1:]
        if family != "accept":
            q = 1000
            if rest:
                q = q1000(float(rest[0].split("=", 1)[1]))
            out.append([item, q])
            continue
        params, exts, q, seen_q = [], [], 1000, False
        for p in rest:
            name, eq, val = p.partition("=")
            if not seen_q and name in ("q", "Q") and eq:
                seen_q = True
                q = q1000(float(val))
            elif not seen_q:
                params.append([name, ref_unquote(val)])
            else:
                exts.append([name, ref_unquote(val)] if (eq and val != "") else name)
        mr = item + "".join(";%s=%s" % (n, ref_requote(v)) for n, v in params)
        out.append([mr, q, params, exts])
    return out


OFFERS = ["text/html", "application/json", "text/*", "*/*", "bogus", "a/b;c=d", "", "text/html;q=0.5", "TEXT/Html"]


def _offer_pool():
    """Media-type offers, well-formed and not: every type x subtype over tokens that merely CONTAIN the wildcard or
    other unusual tchars, with parameter tails (quoted, spaced, a q parameter) and some malformed spellings."""
    toks = ["text", "*", "a*", "*b", "x-*", "vnd.a+json", "A", "!#$%&'+-.^_`|~9", "x*y*"]
    tails = ["", ";level=1", ';charset="a b"', "; q=0.5", ";Q=1", " ; x=y", ';a="\\""', ";b=1;a=2", ";x"]
    pool = []
    for t in toks:
        for u in toks:
            for tail in tails:
                pool.append(t + "/" + u + tail)
    pool += ["", "bogus", "a/b/c", "a/", "/b", "a /b", "a/ b", "a/b;", "a/b;c", "\u00e9/b", "a/b;c=d;", "a/b,c/d", " a/b", "a/b "]
    return pool


OFFER_POOL = _offer_pool()


def offers_for(value):
    """A deterministic sample of the pool per header value (replayable without a PRNG state)."""
    import zlib
    h = zlib.crc32(repr(value).encode("utf-8", "backslashreplace"))
    return OFFERS + [OFFER_POOL[(h + 131 * i) % len(OFFER_POOL)] for i in range(10)]


def oracle_offer_pool():
    """The whole pool once, on an invalid and on a no-header Accept object."""
    from webob import acceptparse as ap
    want = [(o, 1.0) for o in OFFER_POOL if ref_is_media_type(o)]
    for value in ("a/b;q=2", None, ""[:0] + ", ,x"):
        obj = ap.create_accept_header(value)
        if type(obj).__name__ == "AcceptValidHeader":
            continue
        try:
            got = obj.acceptable_offers(OFFER_POOL)
        except Exception as e:  # noqa
            return ("invalid-acceptable-offers", "%s.acceptable_offers(pool) raised %s" % (type(obj).__name__, type(e).__name__), value)
        if got != want:
            diff = [o for o in OFFER_POOL if ((o, 1.0) in got) != ((o, 1.0) in want)]
            return ("invalid-acceptable-offers", "%s.acceptable_offers: %r is %s but is %sa well-formed media type offer"
                    % (type(obj).__name__, diff[0] if diff else "(order)", "accepted" if diff and (diff[0], 1.0) in got else "dropped",
                       "" if diff and (diff[0], 1.0) in want else "not "), value)
    return None


def oracle_object(family, value):
    """create_*: never raises; class follows validity; invalid/no-header objects behave as the statement says."""
    from webob import acceptparse as ap
    from webob import Request
    clsname, _, _, _, _, creator, attr, key = FAMILIES[family]
    try:
        obj = getattr(ap, creator)(value)
    except Exception as e:  # noqa
        return ("create-raises", "%s(%r) raised %s" % (creator, value, type(e).__name__))
    kind = type(obj).__name__
    if value is None:
        want = clsname + "NoHeader"
    else:
        want = clsname + ("ValidHeader" if impl_accepts(family, value) else "InvalidHeader")
    if kind != want:
        return ("class", "%s(%r) is %s, expected %s" % (creator, value, kind, want))
    env = {"REQUEST_METHOD": "GET", "wsgi.url_scheme": "http", "SERVER_NAME": "h", "SERVER_PORT": "80"}
    if value is not None:
        env[key] = value
    try:
        robj = getattr(Request(env), attr)
    except Exception as e:  # noqa
        return ("request-attr-raises", "request.%s for %r raised %s" % (attr, value, type(e).__name__))
    if type(robj) is not type(obj) or robj.header_value != obj.header_value or robj.parsed != obj.parsed:
        return ("request-attr-differs", "request.%s differs from %s(%r)" % (attr, creator, value))
    if kind.endswith("ValidHeader") and not kind.endswith("InvalidHeader"):
        parsed = getattr(ap, clsname).parse(value)
        if obj.header_value != value or list(obj.parsed) != list(parsed):
            return ("valid-parsed", "valid header object for %r: parsed/header_value wrong" % (value,))
        return None
    if bool(obj) or obj.parsed is not None or obj.header_value != value:
        return ("invalid-object", "%s for %r: bool/parsed/header_value = %r/%r/%r" % (kind, value, bool(obj), obj.parsed, obj.header_value))
    if family == "accept":
        offers = offers_for(value)
        got = obj.acceptable_offers(offers)
        want_offers = [(o, 1.0) for o in offers if ref_is_media_type(o)]
        if got != want_offers:
            return ("invalid-acceptable-offers", "%s.acceptable_offers = %r, expected %r" % (kind, got, want_offers))
    elif family in ("charset", "encoding"):
        offers = ["utf-8", "identity", "gzip", "*", "Bogus Thing"]
        got = obj.acceptable_offers(offers)
        if got != [(o, 1.0) for o in offers]:
            return ("invalid-acceptable-offers", "%s.acceptable_offers = %r" % (kind, got))
    else:
        tags = ["en", "de-CH", "x"]
        if obj.basic_filtering(tags) != []:
            return ("invalid-basic-filtering", "%s.basic_filtering non-empty" % kind)
        sentinel = object()
        for kw in ({"default": sentinel}, {"default_range": "fr", "default": sentinel}, {"default_tag": "zz", "default": sentinel}):
            try:
                r = obj.lookup(tags, **kw)
            except Exception as e:  # noqa
                return ("invalid-lookup", "%s.lookup(%r) raised %s" % (kind, kw, type(e).__name__))
            want_r = "zz" if "default_tag" in kw else sentinel
            if r is not want_r and r != want_r:
                return ("invalid-lookup", "%s.lookup(%r) = %r" % (kind, list(kw), r))
        if obj.lookup(tags, default=lambda: 7) != 7:
            return ("invalid-lookup", "%s.lookup callable default not called" % kind)
        # the same calls by POSITION, in the documented order (language_tags, default_range, default_tag, default),
        # which is the order of the valid header's lookup too
        for args, want_r in (((tags, "fr", "zz", sentinel), "zz"), ((tags, "fr", None, sentinel), sentinel),
                             ((tags, None, "zz"), "zz"), ((tags, "fr", None, lambda: 7), 7), ((tags, None, None, sentinel), sentinel)):
            try:
                r = obj.lookup(*args)
            except Exception as e:  # noqa
                return ("invalid-lookup", "%s.lookup(*%r) raised %s" % (kind, [a if isinstance(a, (str, list, type(None))) else "<obj>" for a in args], type(e).__name__))
            if r is not want_r and r != want_r:
                return ("invalid-lookup", "%s.lookup called by position %r = %r" %
                        (kind, [a if isinstance(a, (str, list, type(None))) else "<obj>" for a in args], r))
        import inspect
        from webob.acceptparse import AcceptLanguageValidHeader
        if list(inspect.signature(type(obj).lookup).parameters) != list(inspect.signature(AcceptLanguageValidHeader.lookup).parameters):
            return ("invalid-lookup", "%s.lookup and AcceptLanguageValidHeader.lookup take their parameters in different orders" % kind)
    return None


def ref_is_media_type(o):
    import re
    tok = r"[!#$%&'*+\-.^_`|~0-9A-Za-z]+"
    qs = r'"(?:[\t \x21\x23-\x5b\x5d-\x7e\x80-\xff]|\\[\t \x21-\x7e\x80-\xff])*"'
    m = re.fullmatch(r"(%s)/(%s)((?:[ \t]*;[ \t]*%s=(?:%s|%s))*)" % (tok, tok, tok, tok, qs), o)
    if not m or m.group(1) == "*" or m.group(2) == "*":
        return False
    # a parameter named q is not a media type parameter
    names = re.findall(r";[ \t]*(%s)=" % tok, re.sub(qs, '""', m.group(3)))
    return not any(n in ("q", "Q") for n in names)


# =========================================================================== the check
IMPORTS = ["Webob.Lib.Rx", "Webob.Gen.C03_regexes", "Webob.Spec.C03_abnf", "Webob.Model.C03_scan"]


def strings_upto(alpha, n):
    for k in range(n + 1):
        for t in itertools.product(alpha, repeat=k):
            yield "".join(t)


MODELLED = [
    "webob.acceptparse:Accept.parse", "webob.acceptparse:AcceptCharset.parse", "webob.acceptparse:AcceptEncoding.parse",
    "webob.acceptparse:AcceptLanguage.parse", "webob.acceptparse:Accept._parse_media_type_params",
    "webob.acceptparse:Accept._process_quoted_string_token", "webob.acceptparse:Accept._form_media_range",
    "webob.acceptparse:Accept._escape_and_quote_parameter_value", "webob.acceptparse:create_accept_header",
    "webob.acceptparse:create_accept_charset_header", "webob.acceptparse:create_accept_encoding_header",
    "webob.acceptparse:create_accept_language_header",
]
REGENERATED = ["webob.acceptparse:Accept.accept_compiled_re", "webob.acceptparse:AcceptCharset.accept_charset_compiled_re",
               "webob.acceptparse:AcceptEncoding.accept_encoding_compiled_re",
               "webob.acceptparse:AcceptLanguage.accept_language_compiled_re", "webob.acceptparse:token_compiled_re",
               "webob.acceptparse:Accept.media_type_compiled_re"]


def run(ctx):
    ctx.modelled(MODELLED)
    ctx.extra["regenerated_from_source"] = REGENERATED
    problems = gen(ctx)
    ctx.broken += problems
    ctx.build(["Props/C03.vo"])
    if not ctx.build_ok:
        search_regex_witness(ctx)
    for family in FAMILIES:
        rng = ctx.sub_rng("gen-" + family)
        abnf, parse_fn, vfn = FAMILIES[family][2], FAMILIES[family][3], FAMILIES[family][4]
        # ---- grammar: implementation acceptance vs the ABNF transcription (evaluated in Coq)
        words = list(strings_upto(ATOMS[family], ctx.scale(3, 4)))
        valid = [r_header(family, rng) for _ in range(ctx.scale(300, 3000))]
        words += valid
        words += [mutate(h, rng) for h in valid for _ in range(2)]
        words = list(dict.fromkeys(w for w in words if "\n" not in w and "\r" not in w))
        cases = [(cstr(w), impl_accepts(family, w), {"family": family, "value": w}) for w in words]
        bad = ctx.corr("grammar-" + family, IMPORTS, "(fun w => VBool (rmatch %s w))" % abnf, cases, in_type="str")
        for i in bad[:10]:
            w = words[i]
            ctx.fail("grammar:%s:%s" % (family, "accepts-non-abnf" if cases[i][1] else "rejects-abnf"),
                     "%s.parse(%r): implementation %s but the RFC ABNF %s it" %
                     (FAMILIES[family][0], w, "accepts" if cases[i][1] else "rejects",
                      "rejects" if cases[i][1] else "accepts"), cases[i][2], True, "grammar-" + family)
        ctx.oracle_count("grammar-" + family, 0, 0)
        # ---- parse results: scanner model vs implementation, on valid headers and near misses
        pw = list(dict.fromkeys(valid[:ctx.scale(250, 2500)] + [mutate(h, rng) for h in valid[:ctx.scale(100, 1000)]]))
        pw = [w for w in pw if "\n" not in w and "\r" not in w]
        cases = [(cstr(w), impl_parse(family, w), {"family": family, "value": w}) for w in pw]
        bad = ctx.corr("parse-" + family, IMPORTS, "(fun w => %s (%s w))" % (vfn, parse_fn), cases, in_type="str")
        for i in bad[:10]:
            w = pw[i]
            msg = oracle_parse(family, w)
            if msg:
                ctx.fail("parse:%s" % family, msg, cases[i][2], True, "parse-" + family)
            else:
                ctx.broken.append("correspondence parse-%s: model and implementation disagree on %r (impl %r)" %
                                  (family, w, cases[i][1]))
        # ---- oracle: reference reading of valid headers + object-level behaviour for every value
        n = 0
        for w in valid + [mutate(h, rng) for h in valid] + [None, "", ",", " ", "\x00", "\u0100", "a" * 2000]:
            n += 1
            if w is not None:
                msg = oracle_parse(family, w)
                if msg:
                    ctx.fail("parse:%s" % family, msg, {"family": family, "value": w}, True, "object-" + family)
            r = oracle_object(family, w)
            if r:
                ctx.fail("object:%s:%s" % (family, r[0]), r[1], {"family": family, "value": w}, True, "object-" + family)
        if family == "accept":
            r = oracle_offer_pool()
            n += len(OFFER_POOL)
            if r:
                ctx.fail("object:%s:%s" % (family, r[0]), r[1], {"family": family, "value": r[2], "pool": True}, True, "object-" + family)
        ctx.oracle_count("object-" + family, n, n)
    ctx.extra["rule"] = ("grammar-*: every string of length <= %d over a per-family atom alphabet, grammar-derived valid headers "
                         "(random OWS, empty elements, q spellings, quoted-pairs) and one-edit mutants of them; acceptance by "
                         "webob compared with `rmatch abnf` evaluated in Coq; parse-*: element lists of the scanner model vs "
                         "webob on valid headers and near misses; object-*: create_*/request.accept* behaviour; distinct = "
                         "distinct strings" % ctx.scale(3, 4))
    ctx.assume += ["field values contain no CR/LF (the property's quantifier); `$` in the validators also matches before a "
                   "trailing LF, which is outside the quantifier",
                   "the translator's look-ahead rewrite (?![qQ]=)token= and anchor handling (trusted, validated by grammar-* "
                   "correspondence on every run)"]
    ctx.trusted += ["harness/rxgen.py: CPython re._parser tree -> Gallina rx (fail-closed subset)"]


def oracle_parse(family, w):
    got = impl_parse(family, w)
    if isinstance(got, Err):
        return None
    want = ref_parse(family, w)
    if got != want:
        return "%s.parse(%r) yields %r; reference reading of the header gives %r" % (FAMILIES[family][0], w, got, want)
    return None


def search_regex_witness(ctx):
    """A language-equality obligation broke: look for a shortest distinguishing word and try it on the real parser."""
    import re
    for family, f in FAMILIES.items():
        genname = "gen_accept" if family == "accept" else "gen_accept_" + family
        out = ctx.model_eval(["Webob.Lib.Rx", "Webob.Lib.RxEquiv", "Webob.Lib.RxDiff", "Webob.Gen.C03_regexes",
                              "Webob.Spec.C03_abnf"], "diff_report 20000 LF %s %s" % (genname, f[2]))
        m = re.search(r"Some\s*\(\[(.*?)\],\s*(true|false),\s*(true|false)\)", out, flags=re.S)
        if not m:
            continue
        w = "".join(chr(int(x)) for x in re.findall(r"\d+", m.group(1)))
        acc = impl_accepts(family, w)
        abnf_acc = m.group(3) == "true"
        if acc != abnf_acc:
            ctx.fail("grammar:%s:%s" % (family, "accepts-non-abnf" if acc else "rejects-abnf"),
                     "%s.parse(%r): implementation %s but the RFC ABNF %s it (witness from the broken equivalence proof)"
                     % (f[0], w, "accepts" if acc else "rejects", "rejects" if acc else "accepts"),
                     {"family": family, "value": w}, True, "grammar-" + family)


def replay(ctx, path):
    data = json.load(open(path))
    case = data["case"]
    if "family" not in case:
        print("replay: broken obligation, nothing executable: %s" % data.get("what"))
        return 1
    family, w = case["family"], case["value"]
    msgs = []
    if w is not None:
        ctx2 = fw.Ctx("C03", "quick", 0)
        bad = ctx2.corr("replay", IMPORTS, "(fun w => VBool (rmatch %s w))" % FAMILIES[family][2],
                        [(cstr(w), impl_accepts(family, w), case)], in_type="str")
        if bad:
            msgs.append("acceptance of %r differs from the ABNF" % (w,))
        m = oracle_parse(family, w)
        if m:
            msgs.append(m)
    r = oracle_object(family, w)
    if r:
        msgs.append(r[1])
    if case.get("pool"):
        r = oracle_offer_pool()
        if r:
            msgs.append(r[1])
    if msgs:
        print("VIOLATION property=C03 replay=%s" % path)
        for m in msgs:
            print("  " + m)
        return 1
    print("replay passes on the current tree")
    return 0
