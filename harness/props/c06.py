"""C06 — conditional (304) and range (206/416) responses of webob.Response.conditional_response_app.

Tie to the source
  * gen(): the ASTs of byterange._is_content_range_valid and Range.range_for_length are dumped into
    coq/Gen/C06_byterange.v on every run; Proofs/C06_gen.v proves that interpreting them equals the model;
  * correspondence of the Gallina models coq/Model/C06_*.v with the real code on generated inputs:
    AppIterRange (exact yield sequence), FileIter.app_iter_range, Range.parse / str(Range),
    _is_content_range_valid, Range.content_range / str(ContentRange), and the whole
    conditional_response_app (status line, header list, body) driven through req.call_application;
  * oracle: an independent RFC 7232/7233 reference evaluator (written from the property statement,
    parsing the request headers itself) compared with req.get_response(resp) for exhaustive small
    bodies x chunkings x range texts x validator combinations, for GET / HEAD / other methods, for
    list / generator / FileIter / wsgi.file_wrapper bodies and through webob.static.FileApp.
"""
import calendar
import io
import itertools
import json
import os
import re
import tempfile
import zlib
from email.utils import formatdate

from harness import fw
from harness.fw import Err, cstr, clist, cpair, copt, cZ, cnat, cbool

IMPORTS = ["Webob.Lib.PyStr", "Webob.Model.C06_ByteRange", "Webob.Model.C06_AppIterRange", "Webob.Model.C06_CondResp",
           "Webob.Model.C06_ContentRangeText"]
T0 = 784111777            # Sun, 06 Nov 1994 08:49:37 GMT


def http_date(ts):
    return formatdate(ts, usegmt=True)


# =========================================================================== implementation adaptors
def impl_air(chunks, start, stop):
    from webob.response import AppIterRange
    return [bytes(c) for c in AppIterRange(iter(chunks), start, stop)]


def impl_fileiter(data, seek, limit, bs):
    from webob.static import FileIter
    return [bytes(c) for c in FileIter(io.BytesIO(data)).app_iter_range(seek, limit, bs)]


def impl_range_parse(text):
    from webob.byterange import Range
    try:
        r = Range.parse(text)
    except Exception as e:  # noqa
        return Err(type(e).__name__)
    if r is None:
        return None
    return [r.start, r.end, str(r)]


def impl_is_valid(s, e, l, resp):
    from webob.byterange import _is_content_range_valid
    return bool(_is_content_range_valid(s, e, l, response=resp))


def impl_content_range(s, e, l):
    from webob.byterange import Range
    try:
        c = Range(s, e).content_range(l)
    except Exception as ex:  # noqa
        return Err(type(ex).__name__)
    if c is None:
        return None
    return [c.start, c.stop, c.length, str(c)]


def _show_cr(c):
    return None if c is None else [c.start, c.stop, c.length, str(c)]


def impl_cr_text(text):
    """[groups of _rx_content_range.match, [ContentRange.parse, descriptors.parse_content_range]] on one text."""
    from webob.byterange import ContentRange, _rx_content_range
    from webob.descriptors import parse_content_range
    m = _rx_content_range.match(text)
    groups = None if m is None else list(m.groups())
    try:
        a = _show_cr(ContentRange.parse(text))
    except Exception as e:  # noqa
        a = Err(type(e).__name__)
    try:
        b = _show_cr(parse_content_range(text))
    except Exception as e:  # noqa
        b = Err(type(e).__name__)
    return [groups, [a, b]]


def make_sarg(arg):
    """JSON-able argument description -> (python value for serialize_content_range, Coq literal of type sarg)."""
    from webob.byterange import ContentRange
    kind = arg[0]
    if kind in ("tuple", "list"):
        items = arg[1]
        return (tuple(items) if kind == "tuple" else list(items)), "(ASeq %s)" % clist(c_oz(x) for x in items)
    if kind == "cr":
        s, e, l = arg[1]
        return ContentRange(s, e, l), "(ACR (CR %s %s %s))" % (c_oz(s), c_oz(e), c_oz(l))
    if kind == "str":
        return arg[1], "(AStr %s)" % cstr(arg[1])
    return None, "ANoneArg"


def impl_cr_serialize(value):
    from webob.descriptors import serialize_content_range
    try:
        return serialize_content_range(value)
    except Exception as e:  # noqa
        return Err(type(e).__name__)


# =========================================================================== cases for the full app
# A case is a JSON-able dict:
#   method, status ("200 OK"), etag None|[tag, weak], lm None|ts, inm None|"*"|[[tag, weak]...],
#   ims None|ts, range None|text, ifr None|["tag", tag, weak]|["date", ts]|["raw", text],
#   clen bool, cr None|text, extra [[k, v]...], chunks [hex...], iter "list"|"gen"|"file"|"wrapper", bs int
def etag_header(e):
    tag, weak = e
    return ("W/" if weak else "") + '"%s"' % tag


def request_headers(case):
    h = {}
    inm = case.get("inm")
    if inm == "*":
        h["If-None-Match"] = "*"
    elif inm is not None:
        h["If-None-Match"] = ", ".join(etag_header(e) for e in inm)
    if case.get("ims") is not None:
        h["If-Modified-Since"] = http_date(case["ims"])
    if case.get("range") is not None:
        h["Range"] = case["range"]
    ifr = case.get("ifr")
    if ifr is not None:
        if ifr[0] == "tag":
            h["If-Range"] = etag_header(ifr[1:3])
        elif ifr[0] == "date":
            h["If-Range"] = http_date(ifr[1])
        else:
            h["If-Range"] = ifr[1]
    return h


def response_headers(case):
    body_len = sum(len(bytes.fromhex(c)) for c in case["chunks"])
    hl = [(case.get("ctname") or "Content-Type", "text/plain; charset=UTF-8")]
    if case.get("clraw") is not None:
        hl.append((case.get("clname") or "Content-Length", case["clraw"]))
    elif case.get("clen", True):
        hl.append((case.get("clname") or "Content-Length", str(body_len)))
    for k, v in case.get("extra") or []:
        hl.append((k, v))
    if case.get("etag") is not None:
        hl.append(("ETag", etag_header(case["etag"])))
    if case.get("lmraw") is not None:
        hl.append(("Last-Modified", case["lmraw"]))
    elif case.get("lm") is not None:
        hl.append(("Last-Modified", http_date(case["lm"])))
    if case.get("cr") is not None:
        hl.append((case.get("crname") or "Content-Range", case["cr"]))
    if case.get("cr2") is not None:
        hl.append(("Content-Range", case["cr2"]))
    return hl


class _Wrapper:
    """A wsgi.file_wrapper-like iterable: no app_iter_range, so webob wraps it in AppIterRange."""

    def __init__(self, f, bs):
        self.f, self.bs, self.closed = f, bs, False

    def __iter__(self):
        return self

    def __next__(self):
        d = self.f.read(self.bs)
        if not d:
            raise StopIteration
        return d

    def close(self):
        self.closed = True
        self.f.close()


class _ReIter:
    """A re-iterable body that is not a list: every iter() starts over; no close, no app_iter_range."""

    def __init__(self, chunks):
        self.chunks = tuple(chunks)

    def __iter__(self):
        return iter(self.chunks)


class _Custom:
    """An app_iter with its own app_iter_range: honours it (one chunk) or declines (returns None)."""

    def __init__(self, chunks, honour):
        self.chunks, self.honour = tuple(chunks), honour

    def __iter__(self):
        return iter(self.chunks)

    def app_iter_range(self, start, stop):
        return [b"".join(self.chunks)[start:stop]] if self.honour else None


STD_REASON = {200: "200 OK", 201: "201 Created", 206: "206 Partial Content", 404: "404 Not Found"}


def make_app_iter(case):
    chunks = [bytes.fromhex(c) for c in case["chunks"]]
    kind = case.get("iter", "list")
    if kind == "list":
        return list(chunks)
    if kind == "gen":
        return (c for c in chunks)
    if kind == "reiter":
        return _ReIter(chunks)
    if kind == "tuple":
        return tuple(chunks)
    if kind == "custom":
        return _Custom(chunks, True)
    if kind == "custom-none":
        return _Custom(chunks, False)
    from webob.static import FileIter
    data = b"".join(chunks)
    if kind == "file":
        return FileIter(io.BytesIO(data))
    return _Wrapper(io.BytesIO(data), max(1, case.get("bs", 3)))


def build(case):
    """-> (request, response, the WSGI app to call).  Besides the facts, a case says HOW they are supplied:
    cond_via  kw | attr | subclass | cra (resp.conditional_response_app used as the app) | off
    status_form text | int | code | status_code | ctor
    hdr_via   list | attrs (ETag / Last-Modified / Content-Length re-assigned through the typed attributes)
    req_via   headers | kw | attrs | environ
    iter      list | tuple | gen | reiter | body | file | wrapper | custom | custom-none"""
    from datetime import datetime
    from webob import Request, Response
    from webob.byterange import Range
    cond = case.get("cond_via", "kw")
    cls = Response
    if cond == "subclass":
        cls = type("CondResponse", (Response,), {"default_conditional_response": True})
    kw = {"conditional_response": True} if cond == "kw" else {}
    code = int(case["status"].split()[0])
    form = case.get("status_form", "text")
    if form == "ctor":
        kw["status"] = case["status"]
    resp = cls(**kw)
    if cond == "attr":
        resp.conditional_response = True
    if case.get("iter") == "body":
        resp.body = b"".join(bytes.fromhex(c) for c in case["chunks"])
    else:
        resp.app_iter = make_app_iter(case)
    resp.headerlist = response_headers(case)
    if form == "text":
        resp.status = case["status"]
    elif form == "int":
        resp.status = code
    elif form == "code":
        resp.status = str(code)
    elif form == "status_code":
        resp.status_code = code
    if case.get("hdr_via") == "attrs":
        if case.get("etag") is not None:
            resp.etag = (case["etag"][0], not case["etag"][1])
        if case.get("lm") is not None:
            resp.last_modified = case["lm"] if case["lm"] % 2 else datetime.utcfromtimestamp(case["lm"])
        if case.get("clen", True) and case.get("clraw") is None:
            resp.content_length = sum(len(bytes.fromhex(c)) for c in case["chunks"])
    hs = request_headers(case)
    hs.update(case.get("req_extra") or {})
    via = case.get("req_via", "headers")
    method = case["method"]
    if via == "headers":
        req = Request.blank("/", method=method, headers=hs)
    elif via == "environ":
        req = Request.blank("/", method=method)
        for k, v in hs.items():
            req.environ["HTTP_" + k.upper().replace("-", "_")] = v
    else:
        attrs = {k.lower().replace("-", "_"): v for k, v in hs.items()}
        if "range" in attrs and attrs["range"]:
            m = STRICT_RANGE.match(attrs["range"])
            pick = zlib.crc32(attrs["range"].encode()) % 3
            if m and pick and attrs["range"].startswith("bytes="):      # the same range as a tuple / Range object
                if m.group(3) is not None:
                    t = (-int(m.group(3)), None) if int(m.group(3)) else None
                elif m.group(2) == "":
                    t = (int(m.group(1)), None)
                else:
                    t = (int(m.group(1)), int(m.group(2)) + 1) if int(m.group(1)) <= int(m.group(2)) else None
                if t is not None:
                    attrs["range"] = t if pick == 1 else Range(*t)
        if case.get("ims") is not None and case["ims"] % 2 == 0:
            attrs["if_modified_since"] = datetime.utcfromtimestamp(case["ims"])
        if via == "kw":
            req = Request.blank("/", method=method, **attrs)
        else:
            req = Request.blank("/", method=method)
            for k, v in attrs.items():
                setattr(req, k, v)
    app = resp.conditional_response_app if cond == "cra" else resp
    return req, resp, app


def with_block_size(case, f):
    """FileIter reads webob.static.BLOCK_SIZE bytes at a time; use the case's block size."""
    import webob.static as st
    old = st.BLOCK_SIZE
    if case.get("iter") == "file":
        st.BLOCK_SIZE = max(1, case.get("bs", 3))
    try:
        return f()
    finally:
        st.BLOCK_SIZE = old


def impl_call(case):
    """(status line, header list, body) as a WSGI server would see them (req.call_application)."""
    def go():
        req, resp, app = build(case)
        status, headers, app_iter = req.call_application(app)
        try:
            body = b"".join(app_iter)
        finally:
            if hasattr(app_iter, "close"):
                app_iter.close()
        return [status, [[k, v] for k, v in headers], body]
    try:
        return with_block_size(case, go)
    except Exception as e:  # noqa
        return Err(type(e).__name__)


def impl_get_response(case):
    def go():
        req, resp, app = build(case)
        res = req.send(app) if case.get("call_via") == "send" else req.get_response(app)
        return [res.status, [[k, v] for k, v in res.headerlist], res.body]
    try:
        return with_block_size(case, go)
    except Exception as e:  # noqa
        return Err(type(e).__name__)


def impl_wsgi(case):
    """The application called directly with (environ, start_response), as a server does."""
    def go():
        req, resp, app = build(case)
        seen = []

        def start_response(status, headers, exc_info=None):
            seen.append((status, headers))
            return lambda data: None
        it = app(req.environ, start_response)
        try:
            body = b"".join(it)
        finally:
            if hasattr(it, "close"):
                it.close()
        if len(seen) != 1:
            return Err("start_response called %d times" % len(seen))
        return [seen[0][0], [[k, v] for k, v in seen[0][1]], body]
    try:
        return with_block_size(case, go)
    except Exception as e:  # noqa
        return Err(type(e).__name__)


def built_headers(case):
    """The header list of the freshly built response (what 'the response's headers' are for this case)."""
    return [list(h) for h in build(case)[1].headerlist]


def ts_of(dt):
    return None if dt is None else calendar.timegm(dt.utctimetuple())


def facts(case):
    """The facts the model takes, read through webob's own accessors (Coq literal of type cin)."""
    from webob.etag import AnyETag, NoETag, IfRangeDate
    req, resp, _ = build(case)
    m = req.if_none_match
    if m is NoETag:
        inm = "InmAbsent"
    elif m is AnyETag:
        inm = "InmStar"
    else:
        inm = "(InmTags %s)" % clist(cstr(t) for t in m.etags)
    ir = req.if_range
    if isinstance(ir, IfRangeDate):
        ifr = "(IfrDate %s)" % copt(None if ir.date is None else cZ(ts_of(ir.date)))
    elif ir.etag is AnyETag:
        ifr = "IfrStar" if req.environ.get("HTTP_IF_RANGE") else "IfrAbsent"
    else:
        ifr = "(IfrTags %s)" % clist(cstr(t) for t in ir.etag.etags)
    et = resp.etag
    etag = None if et is None else cpair(cstr(et), cbool(resp.etag_strong is None))
    rng = req.environ.get("HTTP_RANGE")
    data = b"".join(bytes.fromhex(c) for c in case["chunks"])
    if case.get("iter") == "file":
        app = "(AFile %s %s)" % (cstr(data), cnat(max(1, case.get("bs", 3))))
    elif case.get("iter") == "custom-none":
        app = "(ANoRange %s)" % clist(cstr(bytes.fromhex(c)) for c in case["chunks"])
    elif case.get("iter") == "wrapper":
        bs = max(1, case.get("bs", 3))
        app = "(AList %s)" % clist(cstr(data[i:i + bs]) for i in range(0, len(data), bs))
    else:
        app = "(AList %s)" % clist(cstr(bytes.fromhex(c)) for c in case["chunks"])
    cl = resp.content_length
    return "(mkIn %s %s %s %s %s %s %s %s %s %s %s %s %s)" % (
        cstr(req.method), inm, copt(None if req.if_modified_since is None else cZ(ts_of(req.if_modified_since))),
        copt(None if rng is None else cstr(rng)), ifr, cstr(resp.status), cZ(resp.status_code), copt(etag),
        copt(None if resp.last_modified is None else cZ(ts_of(resp.last_modified))),
        copt(None if cl is None else cZ(cl)), cbool("Content-Range" in resp.headers),
        clist(cpair(cstr(k), cstr(v)) for k, v in resp.headerlist), app)


# =========================================================================== reference evaluator
STRICT_RANGE = re.compile(r"bytes=(?:([0-9]+)-([0-9]*)|-([0-9]+))\Z", re.I)


def ref_parse_range(text):
    """-> (form, strict).  form: None (not a single byte range) | ("fl", f, l) | ("f", f) | ("s", n).
    strict=False: the text is a single range only after removing blanks around '=' / '-' / at the end
    (a leniency webob documents in its tests; either reading is accepted for those)."""
    def strict(t):
        m = STRICT_RANGE.match(t)
        if not m:
            return None
        if m.group(3) is not None:
            return ("s", int(m.group(3)))
        f = int(m.group(1))
        if m.group(2) == "":
            return ("f", f)
        l = int(m.group(2))
        if l < f:
            return None         # RFC 7233 2.1: invalid byte-range-spec, to be ignored
        return ("fl", f, l)
    if any(ord(c) > 127 for c in text):
        return None, True
    form = strict(text)
    if form is not None:
        return form, True
    lenient = re.sub(r" *([=-]) *", r"\1", text).rstrip(" ")
    if lenient != text and lenient.lower().startswith("bytes="):
        form = strict(lenient)
        if form is not None:
            return form, False
    return None, True


def ref_select(form, L):
    """RFC 7233 2.1: (first, last) inclusive, or None when the range is not satisfiable."""
    if form[0] == "fl":
        return (form[1], min(form[2], L - 1)) if form[1] < L else None
    if form[0] == "f":
        return (form[1], L - 1) if form[1] < L else None
    n = form[1]
    if n == 0 or L == 0:
        return None
    return (L - min(n, L), L - 1)


def ref_eval(case):
    """List of acceptable outcomes [(kind, detail)], first = the expected one.
    kind: "304" | "206" (first, last) | "416" | "full"."""
    method = case["method"]
    if case.get("cond_via") == "off":              # conditional responses not enabled: nothing is conditional
        return [("full", None)]
    safe = method in ("GET", "HEAD")
    etag, lm = case.get("etag"), case.get("lm")
    inm, ims = case.get("inm"), case.get("ims")
    L = sum(len(bytes.fromhex(c)) for c in case["chunks"])
    if safe:
        if inm == "*":
            m304 = True
        elif inm is not None and etag is not None:
            m304 = etag[0] in [t for t, _ in inm]            # weak comparison (RFC 7232 3.2)
        else:
            m304 = lm is not None and ims is not None and lm <= ims
        if m304:
            return [("304", None)]
    if case.get("range") is None:
        return [("full", None)]
    form, strict = ref_parse_range(case["range"])
    ifr = case.get("ifr")
    if ifr is None:
        ifr_ok = True
    elif ifr[0] == "tag":                                    # strong comparison (RFC 7233 3.2)
        ifr_ok = (not ifr[2]) and etag is not None and not etag[1] and etag[0] == ifr[1]
    elif ifr[0] == "date":
        ifr_ok = lm is not None and lm <= ifr[1]
    else:
        ifr_ok = False
    code = int(case["status"].split()[0])
    applicable = safe and code == 200 and case.get("clen", True) and case.get("cr") is None and case.get("cr2") is None and ifr_ok
    if form is None or not applicable:
        return [("full", None)]
    sel = ref_select(form, L)
    if sel is not None and case.get("iter") == "custom-none":
        return [("full", None)]                     # the body object declines to serve ranges
    out = [("206", sel)] if sel is not None else [("416", None)]
    if sel is None and form == ("s", 0):
        out.append(("full", None))      # "-0": unsatisfiable, but not "starting at or beyond the end" either
    if not strict:
        out.append(("full", None))
    return out


def expected_status(case):
    if case.get("status_form", "text") in ("text", "ctor"):
        return case["status"]
    return STD_REASON[int(case["status"].split()[0])]


def lower_in(k, names):
    return k.lower() in names


def check_outcome(case, want, got, base=None):
    """None if `got` = [status, headers, body] is the outcome `want`, else a description.
    `base`: the header list of the unconditional response (default: the one built from the case)."""
    kind, detail = want
    status, headers, body = got
    base = [list(h) for h in (response_headers(case) if base is None else base)]
    whole = b"".join(bytes.fromhex(c) for c in case["chunks"])
    L = len(whole)
    head = case["method"] == "HEAD"
    code = status.split(" ", 1)[0]
    hd = {}
    for k, v in headers:
        hd.setdefault(k.lower(), []).append(v)
    if kind == "304":
        if code != "304":
            return "expected 304, got %s" % status
        if body != b"":
            return "304 with a body %r" % body
        keep = [h for h in base if not lower_in(h[0], ("content-length", "content-type"))]
        if headers != keep:
            return "304 headers %r, expected the response's other headers %r" % (headers, keep)
        return None
    if kind == "full":
        if status != expected_status(case):
            return "expected the unmodified response (%s), got %s" % (expected_status(case), status)
        if headers != base:
            return "full response but headers %r differ from the response's %r" % (headers, base)
        if body != (b"" if head else whole):
            return "full response but body %r, expected %r" % (body, b"" if head else whole)
        return None
    if kind == "206":
        first, last = detail
        if code != "206":
            return "expected 206 for bytes %d-%d/%d, got %s" % (first, last, L, status)
        if hd.get("content-range") != ["bytes %d-%d/%d" % (first, last, L)]:
            return "206 Content-Range %r, expected 'bytes %d-%d/%d'" % (hd.get("content-range"), first, last, L)
        if hd.get("content-length") != [str(last - first + 1)]:
            return "206 Content-Length %r, expected %d" % (hd.get("content-length"), last - first + 1)
        if body != (b"" if head else whole[first:last + 1]):
            return "206 payload %r, expected body[%d:%d] = %r" % (body, first, last + 1, whole[first:last + 1])
        keep = [h for h in base if not lower_in(h[0], ("content-length",))]
        rest = [h for h in headers if not lower_in(h[0], ("content-length", "content-range"))]
        if rest != keep:
            return "206 headers %r, expected the response's other headers %r" % (rest, keep)
        return None
    if kind == "416":
        if code != "416":
            return "expected 416 (Content-Range: bytes */%d), got %s" % (L, status)
        if hd.get("content-range") != ["bytes */%d" % L]:
            return "416 Content-Range %r, expected 'bytes */%d'" % (hd.get("content-range"), L)
        if head and body != b"":
            return "416 to HEAD with a body"
        if not head and hd.get("content-length") != [str(len(body))]:
            return "416 Content-Length %r but body has %d bytes" % (hd.get("content-length"), len(body))
        keep = [h for h in base if not lower_in(h[0], ("content-length", "content-type"))]
        rest = [h for h in headers if not lower_in(h[0], ("content-length", "content-range", "content-type"))]
        if rest != keep:
            return "416 headers %r, expected the response's other headers %r" % (rest, keep)
        return None
    raise ValueError(kind)


def classify(case, wants, got, msg):
    """A specific key for a failure (known findings are matched by key)."""
    want = wants[0][0]
    rng = case.get("range")
    form = ref_parse_range(rng)[0] if rng is not None else None
    L = sum(len(bytes.fromhex(c)) for c in case["chunks"])
    if isinstance(got, Err):
        m = re.match(r"bytes *= *(\d*) *- *(\d*)", rng or "", re.I)
        if m and not m.group(1) and not m.group(2) and got.name == "ValueError":
            return "range:bare-dash-raises"
        ifr = case.get("ifr")
        if ifr is not None and ifr[0] == "raw" and got.name == "TypeError":
            return "if-range:bad-date-raises"
        return "raises:" + got.name
    code = got[0].split(" ", 1)[0]
    # the one recorded departure (theorem carve-out `suffix_within`): a suffix longer than a NON-EMPTY body, on a request
    # whose range would otherwise be served, is answered 416 — whatever the stage / configuration / body object
    if code == "416" and form is not None and form[0] == "s" and form[1] > L > 0 \
            and ref_eval(dict(case, iter="list"))[0][0] == "206":
        return "range:suffix-longer-than-body-416"
    if want == "304":
        if code != "304":
            if case.get("inm") == "*":
                return "inm:star-not-304"
            if case.get("etag") is not None and case["etag"][0] == "":
                return "inm:empty-opaque-tag-ignored"
            return "304:missed"
        return "304:headers-or-body"
    if code == "304":
        if case.get("etag") is not None and case["etag"][0] == "" and case.get("inm") not in (None, "*"):
            return "inm:empty-opaque-tag-ignored"
        return "304:spurious"
    if want == "206":
        if code == "416" and form is not None and form[0] == "s" and form[1] > L > 0:
            return "range:suffix-longer-than-body-416"
        if code != "206":
            return "206:missed"
        if "payload" in msg:
            return "206:payload"
        return "206:headers"
    if want == "416":
        if code == "206" and form == ("s", 0):
            return "range:zero-suffix-206"
        if code != "416":
            return "416:missed"
        return "416:headers"
    # want == full
    if code in ("206", "416"):
        if case.get("cr") is not None or case.get("cr2") is not None:
            return "range:existing-content-range-ignored"
        if rng is not None and form is None and re.match(r"bytes *= *\d* *- *\d*", rng, re.I):
            m = re.match(r"bytes *= *(\d*) *- *(\d*)", rng, re.I)
            if rng[m.end():].strip(" ") != "" and (m.group(1) or m.group(2)):
                return "range:trailing-text-honoured"
        return "range:spurious-%s" % code
    return "full:modified"


def oracle_case(case):
    """None if the implementation's answer is acceptable, else (key, message)."""
    wants = ref_eval(case)
    got = impl_get_response(case)
    raw = impl_call(case)
    if isinstance(got, Err) or isinstance(raw, Err):
        g = got if isinstance(got, Err) else raw
        return classify(case, wants, g, ""), "%s raised for %s (expected %s)" % (g.name, describe(case), wants[0][0])
    if raw != got:
        return "get_response-differs", "req.get_response shows %r but the application sent %r" % (got, raw)
    if case.get("call_via") == "wsgi":
        w = impl_wsgi(case)
        if w != raw:
            return "wsgi-call-differs", "called as app(environ, start_response): %r, through call_application: %r" % (w, raw)
    base = None
    if case.get("hdr_via") == "attrs" or case.get("iter") == "body":
        base = built_headers(case)                  # same headers, possibly re-ordered by the typed setters
        if sorted(base) != sorted([list(h) for h in response_headers(case)]):
            return "setup:headers", "typed setters produced headers %r for %s" % (base, describe(case))
    msgs = []
    for w in wants:
        m = check_outcome(case, w, got, base)
        if m is None:
            return None
        msgs.append(m)
    return classify(case, wants, got, msgs[0]), "%s: %s" % (describe(case), msgs[0])


def describe(case):
    hs = dict(request_headers(case))
    cfg = " ".join("%s=%r" % (k, case[k]) for k in ("cr2", "crname", "cond_via", "status_form", "hdr_via", "req_via", "call_via", "clraw", "lmraw")
                   if case.get(k) is not None)
    return "%s %r on %s ETag=%r LM=%r CL=%s CR=%r body=%r iter=%s %s" % (
        case["method"], hs, case["status"], case.get("etag"), case.get("lm"), case.get("clen", True), case.get("cr"),
        [c for c in case["chunks"]], case.get("iter", "list"), cfg)


def nontrivial(case):
    return ref_eval(case)[0][0] != "full" or case.get("range") is not None or case.get("inm") is not None


# =========================================================================== generators
def chunkings(data, with_empty=True):
    """All ways to cut `data` into consecutive chunks, optionally with one empty chunk inserted anywhere."""
    n = len(data)
    out = []
    for mask in range(1 << max(0, n - 1)):
        cs, cur = [], data[:1]
        for i in range(1, n):
            if mask >> (i - 1) & 1:
                cs.append(cur)
                cur = b""
            cur += data[i:i + 1]
        if n:
            cs.append(cur)
        out.append(cs)
        if with_empty:
            for j in range(len(cs) + 1):
                out.append(cs[:j] + [b""] + cs[j:])
    return out


def rand_chunks(rng, maxlen=12):
    n = rng.randrange(0, maxlen + 1)
    data = bytes(rng.randrange(256) for _ in range(n))
    cs, i = [], 0
    while i < n:
        k = rng.choice([0, 1, 1, 2, 3, 5])
        cs.append(data[i:i + k])
        i += k
    if rng.random() < 0.2:
        cs.append(b"")
    return cs


def range_texts(L):
    """Structured Range headers around a body of L bytes."""
    out = []
    for f in range(0, L + 3):
        out.append("bytes=%d-" % f)
        for l in range(f, L + 3):
            out.append("bytes=%d-%d" % (f, l))
    for n in range(0, L + 3):
        out.append("bytes=-%d" % n)
    return out


MALFORMED = ["", "bytes", "bytes=", "bytes=-", "bytes=--1", "bytes=1", "bytes=a-b", "bytes=2-1", "bytes 0-1", "items=0-1",
             "bytes=0-1,2-3", "bytes=0-0,-1", "bytes=1-,0-0", "bytes=-1,-2", "bytes=0-1,", "bytes=0-1x", "bytes=0-1 x",
             "bytes=0-1;q=1", " bytes=0-1", "bytes=0x1-2", "bytes=+1-2", "bytes=1-+2", "bytes=1.0-2", "bytes=1--2",
             "bytes=0-1\t", "bytes=1_0-2_0", "xbytes=0-1", "bytes==0-1", "bytes=0-1-2", "bytes= - ", "bytes=\xb2-3"]
LENIENT = ["BYTES=0-1", "Bytes=1-", "bytes = 0-1", "bytes=0 - 1", "bytes= 1-2", "bytes=1- 2", "bytes=-1 ", "bytes=0-1  ",
           "bytes  =  -2", "bYtEs=0-0"]


def rand_range_text(rng, L):
    r = rng.random()
    if r < 0.55:
        return rng.choice(range_texts(min(L, 6)) + ["bytes=%d-%d" % (rng.randrange(L + 2), rng.randrange(L + 30))])
    if r < 0.75:
        return rng.choice(MALFORMED)
    if r < 0.85:
        return rng.choice(LENIENT)
    alpha = "0123456789-=, "
    return "bytes" + "".join(rng.choice(alpha) for _ in range(rng.randrange(0, 8)))


TAGS = ["a", "b", "a b", "\xe9", "x,y"]


def rand_case(rng, maxlen=10, iters=("list", "gen", "file", "wrapper")):
    cs = rand_chunks(rng, maxlen)
    L = sum(map(len, cs))
    case = {"method": rng.choice(["GET", "GET", "GET", "HEAD", "HEAD", "POST", "PUT", "OPTIONS"]),
            "status": rng.choice(["200 OK"] * 6 + ["404 Not Found", "206 Partial Content", "201 Created", "200 Fine"]),
            "chunks": [c.hex() for c in cs], "iter": rng.choice(iters), "bs": rng.choice([1, 2, 3, 4, 7])}
    if rng.random() < 0.6:
        case["etag"] = [rng.choice(TAGS), rng.random() < 0.3]
    if rng.random() < 0.6:
        case["lm"] = T0 + rng.choice([-86400, -1, 0, 1, 3600])
    r = rng.random()
    if r < 0.15:
        case["inm"] = "*"
    elif r < 0.55:
        case["inm"] = [[rng.choice(TAGS), rng.random() < 0.3] for _ in range(rng.randrange(1, 4))]
    if rng.random() < 0.5:
        case["ims"] = T0 + rng.choice([-86400, -1, 0, 1, 3600])
    if rng.random() < 0.75:
        case["range"] = rand_range_text(rng, L)
    r = rng.random()
    if r < 0.2:
        case["ifr"] = ["tag", rng.choice(TAGS), rng.random() < 0.3]
    elif r < 0.4:
        case["ifr"] = ["date", T0 + rng.choice([-86400, -1, 0, 1, 3600])]
    elif r < 0.45:
        case["ifr"] = ["raw", rng.choice(["yesterday GMT", "foo", "Sun, 06 Nov 1994 08:49:37", "W/", "32 Foo 1994 GMT"])]
    if rng.random() < 0.12:
        case["clen"] = False
    if rng.random() < 0.1:
        case["cr"] = rng.choice(["bytes 0-0/1", "bytes */5", "bytes 1-2/*", "bytes 7-2/10", "garbage", "", "bytes 0-50/10"])
        if rng.random() < 0.3:
            case["cr2"] = rng.choice(["bytes 0-0/1", "garbage"])
        if rng.random() < 0.3:
            case["crname"] = "content-RANGE"
    if rng.random() < 0.5:
        case["extra"] = rng.sample([["X-Extra", "1"], ["Cache-Control", "max-age=3"], ["Vary", "Accept"],
                                    ["X-Content-Type", "y"], ["content-disposition", "inline"]], rng.randrange(1, 3))
    if rng.random() < 0.15:
        case["ctname"] = rng.choice(["content-type", "CONTENT-TYPE"])
    if rng.random() < 0.15:
        case["clname"] = rng.choice(["content-length", "CONTENT-LENGTH"])
    # how the same facts are supplied (configuration / argument shapes)
    case["status"] = rng.choice(["200 OK"] * 4 + ["200 Okay", "200 ok", "200 Fine", "404 Not Found", "206 Partial Content",
                                                   "201 Created"])
    r = rng.random()
    if r < 0.45:
        case["status_form"] = rng.choice(["int", "code", "status_code"])
        case["status"] = STD_REASON[int(case["status"].split()[0])]
    elif r < 0.55:
        case["status_form"] = "ctor"
    case["cond_via"] = rng.choice(["kw", "kw", "attr", "subclass", "cra", "off"])
    if rng.random() < 0.35 and "ctname" not in case and "clname" not in case:
        case["hdr_via"] = "attrs"
    case["req_via"] = rng.choice(["headers", "headers", "kw", "attrs", "environ"])
    case["call_via"] = rng.choice(["get_response", "send", "wsgi"])
    if case["iter"] == "list" and rng.random() < 0.5:
        case["iter"] = rng.choice(["tuple", "body", "custom", "custom-none", "reiter"])
    return case


# =========================================================================== structured sweeps
# (1) every body up to a small length x every chunking (one empty chunk anywhere) x structured ranges x GET/HEAD
def gen_slices(ctx):
    maxlen = ctx.scale(4, 7)
    for L in range(0, maxlen + 1):
        data = bytes(range(65, 65 + L))
        cks = chunkings(data, with_empty=(L <= 4))
        texts_ = range_texts(L)
        for cs in cks:
            for t in texts_:
                for method in ("GET", "HEAD"):
                    yield {"method": method, "status": "200 OK", "chunks": [c.hex() for c in cs], "range": t}
        for kind in ("gen", "file", "wrapper"):
            for bs in (1, 2, 3):
                for t in texts_:
                    yield {"method": "GET", "status": "200 OK", "chunks": [data.hex()], "range": t, "iter": kind, "bs": bs}

# (2) every Range text "bytes"+w, w over a small alphabet, on 1- and 4-byte bodies
def gen_texts(ctx):
    alpha_ = "019-=, "
    maxw = ctx.scale(5, 7)
    for n_ in range(0, maxw + 1):
        for w in itertools.product(alpha_, repeat=n_):
            t = "bytes" + "".join(w)
            # only texts that get as far as "bytes=" modulo blanks can be honoured by anybody;
            # the others are sampled 1 in 8
            if "=" not in t and (zlib.crc32(t.encode()) & 7):
                continue
            yield {"method": "GET", "status": "200 OK", "chunks": ["4142", "4344"], "range": t}
    for t in MALFORMED + LENIENT:
        for method in ("GET", "HEAD"):
            for cs in (["41"], ["4142", "", "43"]):
                yield {"method": method, "status": "200 OK", "chunks": cs, "range": t}

# (3) validator combinations: method x status x ETag x Last-Modified x If-None-Match x If-Modified-Since
def gen_validators():
    etags = [None, ["a", False], ["a", True], ["b", False]]
    inms = [None, "*", [["a", False]], [["a", True]], [["b", False]], [["b", True], ["a", False]], [["c", False], ["d", True]]]
    dates = [None, T0 - 10, T0, T0 + 10]
    for method in ("GET", "HEAD", "POST", "PUT"):
        for status in ("200 OK", "404 Not Found"):
            for etag in etags:
                for inm in inms:
                    for lm in (None, T0):
                        for ims in dates:
                            c = {"method": method, "status": status, "chunks": ["6162", "63"], "etag": etag, "lm": lm,
                                 "inm": inm, "ims": ims, "extra": [["X-Extra", "1"], ["Vary", "Accept"]]}
                            yield c
                            if method in ("GET", "HEAD") and status == "200 OK":
                                yield dict(c, range="bytes=1-1")

# (4) Range x If-Range x ETag x Last-Modified x status x Content-Length x Content-Range x method
def gen_ifrange():
    etags = [None, ["a", False], ["a", True], ["b", False]]
    ifrs = [None, ["tag", "a", False], ["tag", "a", True], ["tag", "b", False], ["date", T0 - 10], ["date", T0], ["date", T0 + 10],
            ["raw", "yesterday GMT"], ["raw", "Sun, 06 Nov 1994 08:49:37"]]
    for method in ("GET", "HEAD", "POST"):
        for status in ("200 OK", "206 Partial Content", "404 Not Found"):
            for etag in etags:
                for lm in (None, T0):
                    for ifr in ifrs:
                        for clen, cr in ((True, None), (False, None), (True, "bytes 0-1/3"), (True, "bytes 2-1/3")):
                            for t in ("bytes=1-", "bytes=5-", "bytes=-2", "bytes=x"):
                                yield {"method": method, "status": status, "chunks": ["61", "6263"], "etag": etag, "lm": lm,
                                       "ifr": ifr, "clen": clen, "cr": cr, "range": t, "extra": [["X-Extra", "1"]]}

# (5) empty opaque tag, odd header-name spellings
def gen_corner():
    for method in ("GET", "HEAD"):
        for t in ("bytes=0-0", "bytes=5-", "bytes=-1"):
            for cr, cr2 in (("bytes */2", None), ("bytes 7-2/10", None), ("garbage", None), ("", None), (" ", None),
                            ("garbage", "bytes 0-0/2"), ("bytes 0-0/2", "garbage"), ("garbage", "junk")):
                yield {"method": method, "status": "200 OK", "chunks": ["6162"], "range": t, "cr": cr, "cr2": cr2}
                yield {"method": method, "status": "200 OK", "chunks": ["6162"], "range": t, "cr": cr, "cr2": cr2,
                       "crname": "content-range"}
        yield {"method": method, "status": "200 OK", "chunks": ["61"], "etag": ["", False], "inm": [["", False]]}
        yield {"method": method, "status": "200 OK", "chunks": ["61"], "etag": ["", False], "inm": [["a", False]], "lm": T0, "ims": T0}
        yield {"method": method, "status": "200 OK", "chunks": ["6162"], "ctname": "content-TYPE", "clname": "CONTENT-length",
               "range": "bytes=1-1", "extra": [["X-Content-Length", "9"]]}
        yield {"method": method, "status": "200 OK", "chunks": ["6162"], "ctname": "content-TYPE", "clname": "CONTENT-length",
               "inm": "*", "extra": [["X-Content-Length", "9"]]}
        yield {"method": method, "status": "200 OK", "chunks": ["6162"], "ctname": "content-TYPE", "clname": "CONTENT-length",
               "range": "bytes=7-", "extra": [["X-Content-Type", "9"]]}



# =========================================================================== FileApp (static.py)
def oracle_fileapp(tmpdir, data, method, rng_text, wrapper, bs, ims_delta=None, ifr_delta=None):
    """FileApp serves file `data`; the expected answer is derived from its own unconditional GET."""
    import webob.static as st
    from webob import Request
    path = os.path.join(tmpdir, "f%d.bin" % len(data))
    with open(path, "wb") as f:
        f.write(data)
    os.utime(path, (T0, T0))
    old = st.BLOCK_SIZE
    st.BLOCK_SIZE = bs
    try:
        app = st.FileApp(path)

        def call(m, headers):
            req = Request.blank("/", method=m, headers=headers)
            if wrapper:
                req.environ["wsgi.file_wrapper"] = _Wrapper
            res = req.get_response(app)
            return [res.status, [[k, v] for k, v in res.headerlist], res.body]
        base = call("GET", {})
        hs = {}
        if rng_text is not None:
            hs["Range"] = rng_text
        if ims_delta is not None:
            hs["If-Modified-Since"] = http_date(T0 + ims_delta)
        if ifr_delta is not None:
            hs["If-Range"] = http_date(T0 + ifr_delta)
        got = call(method, hs)
    except Exception as e:  # noqa
        return "fileapp:raises:" + type(e).__name__, "FileApp raised %r for %s %r" % (e, method, rng_text)
    finally:
        st.BLOCK_SIZE = old
    if base[0] != "200 OK" or base[2] != data:
        return "fileapp:plain-get", "FileApp plain GET gave %r" % (base,)
    hd = {k.lower(): v for k, v in base[1]}
    if hd.get("content-length") != str(len(data)) or hd.get("last-modified") != http_date(T0):
        return "fileapp:plain-get", "FileApp plain GET headers %r" % (base[1],)
    # re-express as a constructed case whose response headers are FileApp's own
    case = {"method": method, "status": "200 OK", "lm": T0, "chunks": [data.hex()], "range": rng_text,
            "ims": None if ims_delta is None else T0 + ims_delta, "ifr": None if ifr_delta is None else ["date", T0 + ifr_delta]}
    wants = ref_eval(case)
    msgs = []
    for w in wants:
        m = check_outcome(case, w, got, base[1])
        if m is None:
            return None
        msgs.append(m)
    return classify(case, wants, got, msgs[0]), "FileApp(%d bytes, block %d, wrapper=%s) %s %r: %s" % (
        len(data), bs, wrapper, method, hs, msgs[0])


# =========================================================================== histories: one long-lived object
REQ_FIELDS = ("method", "inm", "ims", "range", "ifr")


def merge(base, step):
    case = {k: v for k, v in base.items() if k not in REQ_FIELDS}
    case.update({k: step[k] for k in REQ_FIELDS if k in step})
    case.setdefault("method", "GET")
    return case


def resp_state(resp):
    return [resp.status, [list(h) for h in resp.headerlist], [bytes(c) for c in resp.app_iter], bool(resp.conditional_response)]


def oracle_history(hist):
    """ONE Response (conditional_response=True, re-iterable body) answers hist["steps"] in sequence.
    Every answer must be what a brand-new identically built Response gives for that request (and what the
    reference evaluator says), and the Response's own status / headerlist / body must be as before."""
    from webob import Request
    base, steps = hist["base"], hist["steps"]
    if base.get("iter", "list") not in ("list", "reiter", "tuple", "body", "custom", "custom-none"):
        return "history:bad-case", "history needs a re-iterable body"
    try:
        _, shared, shared_app = build(merge(base, {}))
        before = resp_state(shared)
    except Exception as e:  # noqa
        return "history:raises:" + type(e).__name__, "building the shared response raised %r" % (e,)
    for n, step in enumerate(steps):
        case = merge(base, step)
        r = oracle_case(case)                      # the fresh object against the reference
        if r:
            return r
        fresh = impl_get_response(case)
        try:
            req = build(case)[0]
            if step.get("via") == "call_application":
                st, hl, it = req.call_application(shared_app)
                got = [st, [[k, v] for k, v in hl], b"".join(it)]
            else:
                res = req.get_response(shared_app)
                got = [res.status, [[k, v] for k, v in res.headerlist], res.body]
            after = resp_state(shared)
        except Exception as e:  # noqa
            return "history:raises:" + type(e).__name__, "step %d of %s raised %r on the long-lived response" % (
                n, json.dumps(hist), e)
        if got != fresh:
            return "history:differs-from-fresh", (
                "step %d (%s) on a Response that already served %d requests: got %r, a brand-new identical Response "
                "gives %r; earlier requests: %s" % (n, describe(case), n, got, fresh,
                                                    [request_headers(merge(base, s_)) for s_ in steps[:n]]))
        if after != before:
            return "history:response-mutated", (
                "after step %d (%s) the Response object itself changed: status/headerlist/body/conditional_response "
                "%r, before %r" % (n, describe(case), after, before))
    return None


def fileapp_history(tmpdir, hist):
    """ONE FileApp instance answers a sequence of requests; each answer = a brand-new FileApp's answer."""
    import webob.static as st
    from webob import Request
    data = bytes((7 * i + 3) % 256 for i in range(hist["size"]))
    path = os.path.join(tmpdir, "h%d.bin" % len(data))
    with open(path, "wb") as f:
        f.write(data)
    os.utime(path, (T0, T0))
    old = st.BLOCK_SIZE
    st.BLOCK_SIZE = 4
    try:
        shared = st.FileApp(path)
        kw_before = dict(shared.kw)

        def call(app, step):
            hs = {}
            if step.get("range") is not None:
                hs["Range"] = step["range"]
            if step.get("ims") is not None:
                hs["If-Modified-Since"] = http_date(T0 + step["ims"])
            if step.get("ifr") is not None:
                hs["If-Range"] = http_date(T0 + step["ifr"])
            if step.get("inm") is not None:
                hs["If-None-Match"] = step["inm"]
            req = Request.blank("/", method=step.get("method", "GET"), headers=hs)
            if step.get("wrapper"):
                req.environ["wsgi.file_wrapper"] = _Wrapper
            res = req.get_response(app)
            return [res.status, [[k, v] for k, v in res.headerlist], res.body]
        for n, step in enumerate(hist["steps"]):
            got = call(shared, step)
            fresh = call(st.FileApp(path), step)
            if got != fresh:
                return "history:fileapp-differs-from-fresh", (
                    "FileApp instance that already served %d requests answers %r with %r, a brand-new FileApp with %r"
                    % (n, step, got, fresh))
            if dict(shared.kw) != kw_before or shared.filename != path:
                return "history:fileapp-mutated", "FileApp.kw changed from %r to %r after %r" % (kw_before, shared.kw, step)
    except Exception as e:  # noqa
        return "history:raises:" + type(e).__name__, "FileApp history %s raised %r" % (json.dumps(hist), e)
    finally:
        st.BLOCK_SIZE = old
    return None


def step_universe(L):
    """Requests that between them produce 304 / 206 / 416 / full for GET, HEAD and POST."""
    return [
        {"method": "GET"}, {"method": "HEAD"}, {"method": "POST", "inm": "*"},
        {"method": "GET", "range": "bytes=1-2"}, {"method": "HEAD", "range": "bytes=0-0"},
        {"method": "GET", "range": "bytes=-1", "via": "call_application"}, {"method": "GET", "range": "bytes=%d-" % L},
        {"method": "GET", "range": "bytes=1-2,3-3"}, {"method": "GET", "inm": [["a", False]]},
        {"method": "GET", "inm": "*", "range": "bytes=1-2"}, {"method": "GET", "inm": [["zz", False]], "ims": T0 + 5},
        {"method": "HEAD", "ims": T0 + 5}, {"method": "GET", "ims": T0 - 5, "range": "bytes=2-"},
        {"method": "GET", "range": "bytes=0-1", "ifr": ["tag", "a", False]},
        {"method": "GET", "range": "bytes=0-1", "ifr": ["tag", "b", False], "via": "call_application"},
        {"method": "GET", "range": "bytes=0-1", "ifr": ["date", T0 - 5]},
    ]


def gen_histories(ctx):
    bases = [{"status": "200 OK", "chunks": ["6162", "", "636465"], "etag": ["a", False], "lm": T0, "iter": "list",
              "extra": [["X-Extra", "1"]]},
             {"status": "200 OK", "chunks": ["61", "62636465"], "etag": ["a", True], "lm": T0, "iter": "reiter",
              "ctname": "content-TYPE", "clname": "CONTENT-length"}]
    U = step_universe(5)
    for base in bases:
        for a in U:
            for b in U:
                if a is not b:
                    yield {"kind": "history", "base": base, "steps": [a, b, a]}
    rng = ctx.sub_rng("oracle-history")
    for _ in range(ctx.scale(400, 6000)):
        c = rand_case(rng, 12, iters=("list", "reiter"))
        base = {k: v for k, v in c.items() if k not in REQ_FIELDS}
        L = sum(len(bytes.fromhex(x)) for x in base["chunks"])
        steps = []
        for _ in range(rng.randrange(2, 9)):
            if rng.random() < 0.5:
                steps.append(dict(rng.choice(step_universe(L))))
            else:
                r = rand_case(rng, 1)
                st_ = {k: r[k] for k in REQ_FIELDS if k in r}
                if "range" in st_ and rng.random() < 0.6:
                    st_["range"] = rng.choice(range_texts(min(L, 6)))
                if rng.random() < 0.3:
                    st_["via"] = "call_application"
                steps.append(st_)
        yield {"kind": "history", "base": base, "steps": steps}
        if rng.random() < 0.3:                      # the same requests in the opposite order
            yield {"kind": "history", "base": base, "steps": steps[::-1]}


def gen_fileapp_histories(ctx):
    rng = ctx.sub_rng("oracle-fileapp-history")
    U = [{"method": "GET"}, {"method": "HEAD"}, {"method": "POST"}, {"range": "bytes=1-2"}, {"range": "bytes=-3", "wrapper": True},
         {"range": "bytes=99-"}, {"range": "bytes=0-0", "method": "HEAD"}, {"ims": 5}, {"ims": -5, "range": "bytes=2-"},
         {"range": "bytes=0-1", "ifr": 5}, {"range": "bytes=0-1", "ifr": -5, "wrapper": True}, {"inm": "*"},
         {"range": "bytes=x"}, {"range": "bytes=4-7", "wrapper": True}]
    for size in (0, 5, 9):
        for a in U:
            for b in U:
                if a is not b:
                    yield {"kind": "fileapp-history", "size": size, "steps": [a, b, a]}
    for _ in range(ctx.scale(60, 1500)):
        yield {"kind": "fileapp-history", "size": rng.choice([1, 4, 5, 8, 13]),
               "steps": [dict(rng.choice(U)) for _ in range(rng.randrange(2, 9))]}


# =========================================================================== outside the model's domain
def gen_outside(ctx):
    """Inputs the theorems exclude by hypothesis (untruthful / malformed Content-Length, text beyond latin-1, If-Range: *,
    unparsable existing Content-Range, unparsable dates, lower-case methods): visited on the real code."""
    body = ["6162", "63646566"]
    for method in ("GET", "HEAD"):
        for t in ("bytes=1-2", "bytes=4-", "bytes=-2", "bytes=9-", "bytes=2-50"):
            for clraw in ("3", "60", "0", "-5", "abc", "", "6 ", "+6", "0x6", "6.0"):
                yield {"method": method, "status": "200 OK", "chunks": body, "range": t, "clraw": clraw, "what": "content-length"}
            yield {"method": method, "status": "200 OK", "chunks": body, "range": t, "etag": ["a", False], "ifr": ["raw", "*"],
                   "what": "if-range-star"}
            yield {"method": method, "status": "200 OK", "chunks": body, "range": t, "lmraw": "garbage", "ifr": ["date", T0],
                   "what": "dates"}
        for t in ("bytes=1-\u0663", "bytes=\u0661-", "bytes=-\uff12", "bytes=1\u2013 2", "bytes=1-2\u00a0", "\u212aytes=1-2",
                  "byte\u017f=1-2", "bytes=1-2\x85", "bytes=\xb9-"):
            yield {"method": method, "status": "200 OK", "chunks": body, "range": t, "req_via": "environ", "what": "range-text"}
        for raw in ("garbage", "Sun, 06 Nov 1994 08:49:37", "0", "784111777", "Sun, 06 Nov 1994 08:49:37 +0100"):
            yield {"method": method, "status": "200 OK", "chunks": body, "lm": T0, "req_extra": {"If-Modified-Since": raw},
                   "what": "dates"}
            yield {"method": method, "status": "200 OK", "chunks": body, "lmraw": raw, "ims": T0 + 5, "what": "dates"}
    for m in ("get", "head", "Get"):
        yield {"method": m, "status": "200 OK", "chunks": body, "range": "bytes=1-2", "inm": "*", "what": "method-case"}


def oracle_outside(case):
    """What remains meaningful outside the domain: no exception (ValueError allowed only for a negative Content-Length),
    an answer that is one of 304 / 206 / 416 / unmodified, and a 206 whose payload is the slice its own Content-Range names."""
    got = impl_call(case)               # raw WSGI view: Response.body of a lying Content-Length asserts in the observer
    whole = b"".join(bytes.fromhex(c) for c in case["chunks"])
    head = case["method"] == "HEAD"
    clraw = case.get("clraw")

    def numeric(t):
        try:
            int(t)
            return True
        except ValueError:
            return False
    if isinstance(got, Err):
        if got.name == "ValueError" and clraw is not None and re.fullmatch(r"\s*-\d+\s*", clraw):
            return None                 # application-supplied negative Content-Length: refused by ContentRange()
        return "outside:raises:" + got.name, "%s raised for %s" % (got.name, describe(case))
    status, headers, payload = got
    code = status.split(" ", 1)[0]
    base = built_headers(case)
    hd = {}
    for k, v in headers:
        hd.setdefault(k.lower(), []).append(v)
    if code == "206":
        m = re.fullmatch(r"bytes (\d+)-(\d+)/(\d+)", (hd.get("content-range") or [""])[0])
        if not m:
            return "outside:206-content-range", "206 with Content-Range %r for %s" % (hd.get("content-range"), describe(case))
        f, l = int(m.group(1)), int(m.group(2))
        if payload != (b"" if head else whole[f:l + 1]) or hd.get("content-length") != [str(l - f + 1)] or f > l:
            return "outside:206-payload", "206 %r with payload %r / Content-Length %r, body[%d:%d] is %r (%s)" % (
                hd.get("content-range"), payload, hd.get("content-length"), f, l + 1, whole[f:l + 1], describe(case))
        if clraw is not None and not numeric(clraw):
            return "outside:206-unknown-length", "206 although Content-Length %r is no number (%s)" % (clraw, describe(case))
        if case["method"] not in ("GET", "HEAD"):
            return "outside:206-method", "206 for method %r" % case["method"]
    elif code == "416":
        if clraw is not None and not numeric(clraw):
            return "outside:416-unknown-length", "416 although Content-Length %r is no number (%s)" % (clraw, describe(case))
    elif code == "304":
        if payload != b"" or case["method"] not in ("GET", "HEAD"):
            return "outside:304", "304 with payload or for method %r (%s)" % (case["method"], describe(case))
        if case.get("what") == "dates" and case.get("inm") is None:
            lm_ok = case.get("lmraw") is None or parsable_date(case["lmraw"])
            ims_raw = (case.get("req_extra") or {}).get("If-Modified-Since")
            ims_ok = ims_raw is None or parsable_date(ims_raw)
            if not (lm_ok and ims_ok):
                return "outside:304-unparsable-date", "304 from a date that does not parse (%s)" % describe(case)
    else:
        if status != case["status"] or headers != base or payload != (b"" if head else whole):
            return "outside:modified", "neither 304/206/416 nor the unmodified response: %r (%s)" % (got, describe(case))
    return None


def parsable_date(text):
    from email.utils import parsedate_tz
    return parsedate_tz(text) is not None


def oracle_iter_shapes(rng):
    """Argument shapes of the two iterator classes that conditional_response_app itself never uses."""
    from webob.response import AppIterRange
    from webob.static import FileIter
    cs = rand_chunks(rng, 10)
    whole = b"".join(cs)
    start = rng.randrange(0, len(whole) + 2)
    for name, it in (("list", list(cs)), ("tuple", tuple(cs)), ("gen", (c for c in cs)), ("reiter", _ReIter(cs))):
        try:
            got = b"".join(AppIterRange(it, start, None))
        except Exception as e:  # noqa
            return "air:raises", "AppIterRange(%s, %d, None) raised %r" % (name, start, e)
        if got != whole[start:]:
            return "air:open-stop", "AppIterRange(%s %r, %d, None) yields %r, expected %r" % (name, cs, start, got, whole[start:])
    bs = rng.choice([1, 2, 3, 5, 64])
    seek = rng.randrange(0, len(whole) + 2)
    limit = rng.randrange(seek, len(whole) + 3)
    shapes = [((), {}, whole), ((None, None, None), {}, whole), ((), {"block_size": bs}, whole),
              ((seek,), {"block_size": bs}, whole[seek:]), ((), {"seek": seek, "limit": limit, "block_size": bs}, whole[seek:limit]),
              ((None, limit, bs), {}, whole[:limit]), ((0, limit), {}, whole[:limit]), ((seek, None, bs), {}, whole[seek:])]
    for args, kw, want in shapes:
        try:
            got = b"".join(FileIter(io.BytesIO(whole)).app_iter_range(*args, **kw))
        except Exception as e:  # noqa
            return "fileiter:raises", "FileIter.app_iter_range(*%r, **%r) raised %r" % (args, kw, e)
        if got != want:
            return "fileiter:shape", "FileIter(%r).app_iter_range(*%r, **%r) yields %r, expected %r" % (whole, args, kw, got, want)
    f = FileIter(io.BytesIO(whole))
    if b"".join(iter(f)) != whole:
        return "fileiter:iter", "iter(FileIter) does not yield the file"
    return None


# =========================================================================== Coq literals
def c_chunks(cs):
    return clist(cstr(c) for c in cs)


def c_oz(v):
    return copt(None if v is None else cZ(v))


# =========================================================================== the check
def corr_simple(ctx, name, fn, in_type, cases, judge):
    """cases: (literal, impl output, json).  judge(json) -> (key, msg) if the property fails on it."""
    bad = ctx.corr(name, IMPORTS, fn, cases, in_type=in_type)
    for i in bad[:8]:
        case = cases[i][2]
        r = judge(case)
        if r:
            ctx.fail(r[0], r[1], case, True, "corr")
        else:
            ctx.broken.append("correspondence %s: model and implementation disagree on %s (impl: %r)" % (
                name, json.dumps(case), fw.jsonable(cases[i][1])))
    return bad


def judge_air(c):
    chunks = [bytes.fromhex(x) for x in c["chunks"]]
    try:
        got = b"".join(impl_air(chunks, c["start"], c["stop"]))
    except Exception as e:  # noqa
        return "air:raises", "AppIterRange raised %r on %r" % (e, c)
    want = b"".join(chunks)[c["start"]:c["stop"]]
    if got != want:
        return "air:slice", "AppIterRange(%r, %d, %d) yields %r, body[start:stop] is %r" % (chunks, c["start"], c["stop"], got, want)
    return None


def judge_fileiter(c):
    data = bytes.fromhex(c["data"])
    try:
        got = b"".join(impl_fileiter(data, c["seek"], c["limit"], c["bs"]))
    except Exception as e:  # noqa
        return "fileiter:raises", "FileIter.app_iter_range raised %r on %r" % (e, c)
    want = data[c["seek"]:c["limit"]]
    if got != want:
        return "fileiter:slice", "FileIter(%r).app_iter_range(%r, %r, %r) yields %r, expected %r" % (
            data, c["seek"], c["limit"], c["bs"], got, want)
    return None


def judge_range_text(c):
    """Push a Range text through the whole app on a 4-byte body."""
    for method in ("GET", "HEAD"):
        for L in (4, 1):
            case = {"method": method, "status": "200 OK", "chunks": [b"wxyz"[:L].hex()], "range": c["text"]}
            r = oracle_case(case)
            if r:
                return r
    return None


def judge_arith(c):
    """Range(start, end) against a body of `length` bytes, through the app when expressible as a header."""
    s, e, l = c["start"], c["end"], c["length"]
    if l is None or l < 0 or l > 64:
        return None
    if e is None:
        text = "bytes=%d-" % s if s >= 0 else "bytes=-%d" % (-s)
    elif 0 <= s < e:
        text = "bytes=%d-%d" % (s, e - 1)
    else:
        return None
    for method in ("GET", "HEAD"):
        r = oracle_case({"method": method, "status": "200 OK", "chunks": [(b"q" * l).hex()], "range": text})
        if r:
            return r
    return None


def cr_tuple_ok(s, e, l):
    """(start, stop, length) as a 206/416 Content-Range may carry it (written from RFC 7233 §4.2, not from the code)."""
    if s is None or e is None:
        return s is None and e is None and (l is None or l >= 0)
    return 0 <= s < e and (l is None or e <= l)


def judge_cr_text(c):
    """Does the IMPLEMENTATION break the Content-Range text contract on this text?"""
    from webob.byterange import ContentRange
    from webob.descriptors import parse_content_range
    text = c["text"]
    try:
        got = parse_content_range(text)
    except Exception as e:  # noqa
        return "content-range-text:parse-raises", "parse_content_range(%r) raised %r" % (text, e)
    if got is None:
        return None
    t = (got.start, got.stop, got.length)
    if not cr_tuple_ok(*t):
        return "content-range-text:invalid-parse", "parse_content_range(%r) = %r is not a valid content range" % (text, t)
    back = ContentRange.parse(str(got))
    if back is None or (back.start, back.stop, back.length) != t:
        return "content-range-text:roundtrip", "%r parses to %r, printed %r, which reads back as %r" % (text, t, str(got), back and tuple(back))
    return None


def judge_cr_serialize(c):
    value, _ = make_sarg(c["arg"])
    out = impl_cr_serialize(value)
    kind = c["arg"][0]
    if kind in ("tuple", "list"):
        items = c["arg"][1]
        full = (list(items) + [None])[:3] if len(items) in (2, 3) else None
        ok = full is not None and all(x is None or isinstance(x, int) for x in full) and (
            cr_ctor_ok(*full))
        if ok:
            s_, e_, l_ = full
            want = "bytes %s/%s" % ("*" if s_ is None else "%d-%d" % (s_, e_ - 1), "*" if l_ is None else l_)
            if out != want:
                return "content-range-text:serialize", "serialize_content_range(%r) = %r, expected %r" % (value, out, want)
        elif not isinstance(out, Err):
            return "content-range-text:serialize-accepts-invalid", "serialize_content_range(%r) = %r" % (value, out)
    if kind == "str" and isinstance(out, str) and out != c["arg"][1].strip(" \t"):
        return "content-range-text:serialize-text", "serialize_content_range(%r) = %r" % (value, out)
    return None


def cr_ctor_ok(s, e, l):
    """what ContentRange.__init__ documents: both None (length None or >= 0) or 0 <= start < stop, start < length"""
    if s is None or e is None:
        return s is None and e is None and (l is None or l >= 0)
    return 0 <= s < e and (l is None or s < l)


CR_MALFORMED = [
    "", " ", "\t", "\n", "\r\n", " \t\n", "\xa0", "\x85", "\x1c\x1d", "\x0b\x0c", "bytes", "bytes ", "bytes */", "bytes */*", "bytes */*x",
    "bytes 0-4/10\n", "bytes 0-4/10\r\n", "bytes 0-4/10\r", "\nbytes 0-4/10", "\rbytes */5", " bytes 0-4/10", "\tbytes 0-4/10",
    "bytes  0-4/10", "Bytes 0-4/10", "BYTES */5", "bytes 0-4/10 ", "bytes 0-4/10\t", "bytes 0-4 /10", "bytes 0 -4/10", "bytes 0- 4/10",
    "bytes 0-4/ 10", "bytes 4-0/10", "bytes 0-0/0", "bytes 0-0/1", "bytes 0-9/10", "bytes 0-10/10", "bytes 5-5/10", "bytes 5-4/10",
    "bytes -4/10", "bytes 0-/10", "bytes 0-4/", "bytes 0-4", "bytes *-4/10", "bytes 0-*/10", "bytes */-1", "bytes */0", "bytes 00-04/010",
    "bytes 0-4/10garbage", "bytes 0-4/10/3", "bytes 0-4/1 0", "bytes 0-4/10, bytes 5-9/10", "bytes=0-4", "bytes=0-4/10", "items 0-4/10",
    "bytes\t0-4/10", "bytes\n0-4/10", "bytes 0-4/*", "bytes 0-4/**", "bytes **/5", "bytes */5, bytes */6", "bytes 0\n-4/10", "bytes 0-4\n/10",
    "bytes 0-4/\n10", "bytes \xb2-\xb3/\xb9", "bytes 0-4/1\xb2", "bytes +0-4/10", "bytes 0-+4/10", "bytes 0-4/+10", "bytes 0_0-4/10", "bytes 0-4/1_0",
    "bytes 0x0-4/10", "bytes 0-4/1e1", "bytes 0.0-4/10", "xbytes 0-4/10", "bytes 0-4/10\x00", "\x00bytes 0-4/10", "bytes 0\x00-4/10", "bytes */*\n",
    "bytes 12345678901234567890-12345678901234567899/12345678901234567900", "bytes 0-99999999999999999999999/*",
    "bytes 18446744073709551615-18446744073709551616/18446744073709551617", "bytes 9223372036854775807-9223372036854775807/9223372036854775808",
    "bytes 0-4/" + "9" * 4300, "bytes 0-4/" + "9" * 4301, "bytes 0-" + "0" * 4301 + "/5", "bytes " + "0" * 4300 + "-4/5",
    "bytes " + "1" * 4301 + "-2/3", "bytes */" + "0" * 4301, "bytes */" + "0" * 4299 + "7",
]


def gen_cr_texts(ctx):
    rng = ctx.sub_rng("corr-cr-text")
    texts = list(CR_MALFORMED)
    vals = [None, 0, 1, 4, 5, 9, 10]
    for s_, e_, l_ in itertools.product(vals, repeat=3):
        if s_ is None or e_ is None:
            texts.append("bytes */%s" % ("*" if l_ is None else l_))
        else:
            texts.append("bytes %d-%d/%s" % (s_, e_, "*" if l_ is None else l_))
    small = []
    for n in range(0, 5):
        for w in itertools.product("09-/*", repeat=n):
            small.append("bytes " + "".join(w))
    head, rest = small[:156], small[156:]
    rng.shuffle(rest)
    texts += head + rest[:ctx.scale(250, len(rest))]
    pool = []
    for _ in range(ctx.scale(250, 1500)):
        L = rng.choice([rng.randrange(0, 12), rng.randrange(0, 10 ** rng.randrange(1, 25))])
        a = rng.randrange(0, L + 3)
        b = rng.randrange(0, L + 3)
        t = "bytes %s/%s" % (rng.choice(["%d-%d" % (a, b), "%d-%d" % (min(a, b), max(a, b)), "*"]), rng.choice([str(L), str(L), "*"]))
        if rng.random() < 0.35:          # one edit: insert / delete / replace a character
            i = rng.randrange(0, len(t) + 1)
            ch = rng.choice(" \t\r\n-/*0=bB,x\xa0")
            t = rng.choice([t[:i] + ch + t[i:], t[:i] + t[i + 1:], t[:i] + ch + t[i + 1:]])
        pool.append(t)
    pool += ["".join(rng.choice("bytes */-0159 \n\r\t") for _ in range(rng.randrange(0, 14))) for _ in range(ctx.scale(100, 600))]
    texts += pool
    return list(dict.fromkeys(texts))


def gen_cr_args(ctx):
    rng = ctx.sub_rng("corr-cr-serialize")
    args = [["none"]]
    vals = [None, -1, 0, 1, 2, 3, 7]
    for n in (0, 1, 4):
        # a TUPLE of length 0 or >= 4 makes the error message's own `%r` formatting raise TypeError (reported as a
        # side observation); the model's ASeq covers lists of any length and tuples of length 1-3
        args.append(["list" if n != 1 else "tuple", [0] * n])
        args.append(["list", [None] * n])
    for s_, e_ in itertools.product(vals, repeat=2):
        args.append([rng.choice(["tuple", "list"]), [s_, e_]])
        for l_ in vals:
            args.append([rng.choice(["tuple", "list"]), [s_, e_, l_]])
            if impl_is_valid(s_, e_, l_, False):
                args.append(["cr", [s_, e_, l_]])
    for _ in range(60):
        l_ = rng.choice([None, rng.randrange(0, 10 ** rng.randrange(1, 30))])
        s_ = rng.randrange(0, 10 ** rng.randrange(1, 30))
        e_ = s_ + rng.randrange(-2, 10 ** rng.randrange(1, 30))
        args.append([rng.choice(["tuple", "list"]), [s_, e_, l_]])
    for t in CR_MALFORMED[:80] + ["None", " None ", "\t bytes */5 \t", " \t ", "\x0bbytes */5\x0c", "bytes */5 \n", "\n bytes */5",
                                  " \r", "\xa0bytes */5\xa0", "a b", " a\tb "]:
        args.append(["str", t])
    seen = set()
    out = []
    for a in args:
        k = json.dumps(a)
        if k not in seen:
            seen.add(k)
            out.append(a)
    return out


def oracle_cr_text(s_, e_, l_):
    """Public API: Response.content_range set from a tuple, the header it writes, and reading it back."""
    from webob import Response
    from webob.byterange import ContentRange
    ctor = cr_ctor_ok(s_, e_, l_)
    try:
        cr = ContentRange(s_, e_, l_)
    except ValueError:
        cr = None
    if (cr is not None) != ctor:
        return "content-range-text:ctor", "ContentRange(%r, %r, %r) %s" % (s_, e_, l_, "accepted" if cr is not None else "refused")
    if cr is None:
        return None
    want = "bytes %s/%s" % ("*" if s_ is None else "%d-%d" % (s_, e_ - 1), "*" if l_ is None else l_)
    r = Response()
    r.content_range = (s_, e_, l_)
    if r.headers.get("Content-Range") != want:
        return "content-range-text:header", "content_range = %r writes %r, expected %r" % ((s_, e_, l_), r.headers.get("Content-Range"), want)
    back = r.content_range
    if cr_tuple_ok(s_, e_, l_):
        if back is None or (back.start, back.stop, back.length) != (s_, e_, l_):
            return "content-range-text:roundtrip", "Content-Range %r reads back as %r, expected %r" % (want, back and tuple(back), (s_, e_, l_))
    elif back is not None:          # stop > length: not a valid response header, must not be read as one
        return "content-range-text:invalid-parse", "Content-Range %r reads back as %r" % (want, tuple(back))
    return None


def oracle_cr_ctl(text):
    """A text with CR / LF must never end up in (or silently remove) the Content-Range header."""
    from webob import Response
    r = Response()
    r.content_range = (0, 5, 10)
    try:
        r.content_range = text
    except ValueError:
        return None if r.headers.get("Content-Range") == "bytes 0-4/10" else (
            "content-range-text:refused-assignment-changes-header", "refused content_range = %r left %r" % (text, r.headers.get("Content-Range")))
    return "content-range-text:crlf-accepted", "content_range = %r accepted; header now %r" % (text, r.headers.get("Content-Range"))


def oracle_cr_206(L, text, chunked):
    """The Content-Range of the real 206 / 416, read back with the real parser, names the slice that was served."""
    from webob import Request, Response
    from webob.descriptors import parse_content_range
    data = bytes((11 * i + 5) % 256 for i in range(L))
    resp = Response(conditional_response=True)
    resp.app_iter = [data[i:i + 2] for i in range(0, L, 2)] if chunked else [data]
    resp.content_length = L
    req = Request.blank("/", headers={"Range": text})
    res = req.get_response(resp)
    hdr = res.headers.get("Content-Range")
    if res.status_code == 206:
        cr = parse_content_range(hdr)
        if cr is None or not cr_tuple_ok(cr.start, cr.stop, cr.length) or cr.length != L:
            return "content-range-text:206-unreadable", "Range %r on %d bytes: 206 with Content-Range %r read back as %r" % (
                text, L, hdr, cr and tuple(cr))
        if res.body != data[cr.start:cr.stop] or res.content_length != cr.stop - cr.start:
            return "content-range-text:206-slice", "Range %r on %d bytes: Content-Range %r reads (%r, %r) but the payload is %r" % (
                text, L, hdr, cr.start, cr.stop, res.body)
    elif res.status_code == 416:
        cr = parse_content_range(hdr)
        if cr is None or (cr.start, cr.stop, cr.length) != (None, None, L):
            return "content-range-text:416-unreadable", "Range %r on %d bytes: 416 with Content-Range %r read back as %r" % (
                text, L, hdr, cr and tuple(cr))
    elif hdr is not None:
        return "content-range-text:stray-header", "Range %r on %d bytes: status %d carries Content-Range %r" % (text, L, res.status_code, hdr)
    return None


CR_CTL_TEXTS = ["bytes 0-4/10\n", "bytes 0-4/10\r\n", "\nbytes 0-4/10", "bytes 0-4\n/10", "\n", "\r", "\r\n", " \n ", "bytes */5\r",
                "bytes 0-4/10\nX-Injected: 1", "\t\n"]


# what the Gallina models mirror by hand (coq/Model/C06_*.v), what gen() dumps into coq/Gen, what only the oracle runs
MODELLED = [
    # Model/C06_AppIterRange.v
    "webob.response:AppIterRange.__init__", "webob.response:AppIterRange._skip_start", "webob.response:AppIterRange.next",
    "webob.static:FileIter.app_iter_range",
    # Model/C06_ByteRange.v
    "webob.byterange:_rx_range", "webob.byterange:Range.parse", "webob.byterange:Range.range_for_length",
    "webob.byterange:Range.content_range", "webob.byterange:Range.__str__", "webob.byterange:ContentRange.__init__",
    "webob.byterange:ContentRange.__str__", "webob.byterange:_is_content_range_valid", "webob.descriptors:parse_range",
    # Model/C06_ContentRangeText.v
    "webob.byterange:_rx_content_range", "webob.byterange:ContentRange.parse", "webob.descriptors:parse_content_range",
    "webob.descriptors:serialize_content_range",
    # Model/C06_CondResp.v
    "webob.response:Response.conditional_response_app", "webob.response:Response._safe_methods",
    "webob.response:Response.app_iter_range", "webob.response:Response.etag_strong", "webob.response:filter_headers",
    "webob.response:EmptyResponse", "webob.etag:IfRange.__contains__", "webob.etag:IfRangeDate.__contains__",
    "webob.etag:_AnyETag.__contains__", "webob.etag:_NoETag.__bool__", "webob.etag:ETagMatcher.__contains__",
]
REGENERATED = ["webob.byterange:_is_content_range_valid", "webob.byterange:Range.range_for_length",
               "webob.byterange:_rx_content_range"]
ORACLE_ONLY = [
    # fact extraction feeding the decision model, and the glue around it
    "webob.etag:etag_property", "webob.etag:ETagMatcher.parse", "webob.etag:IfRange.parse", "webob.descriptors:_rx_etag",
    "webob.descriptors:parse_etag_response", "webob.descriptors:parse_int", "webob.datetime_utils:parse_date",
    "webob.datetime_utils:serialize_date", "webob.descriptors:header_getter", "webob.descriptors:converter",
    "webob.response:Response._abs_headerlist", "webob.response:Response.__call__", "webob.response:iter_close",
    "webob.request:BaseRequest.call_application", "webob.request:BaseRequest.send", "webob.static:FileApp",
    "webob.static:FileIter.__init__", "webob.static:BLOCK_SIZE",
    # configuration / argument shapes varied by the generators
    "webob.response:Response.__init__", "webob.response:Response._status__set", "webob.response:Response._status_code__set",
    "webob.descriptors:serialize_range", "webob.descriptors:serialize_etag_response", "webob.descriptors:serialize_if_range",
]


def run(ctx):
    ctx.modelled(MODELLED)
    ctx.extra["regenerated_from_source"] = REGENERATED
    ctx.extra["oracle_only"] = ORACLE_ONLY
    gen(ctx)                      # coq/Gen/C06_byterange.v from the source tree under test
    ctx.build(["Props/C06.vo"])
    quick = not ctx.thorough

    # ------------------------------------------------------------------ correspondence
    rng = ctx.sub_rng("corr-air")
    cases = []
    seen = set()
    for data in (b"", b"a", b"ab", b"abc", b"abcd"):
        for cs in chunkings(data):
            for start in range(0, len(data) + 2):
                for stop in range(start, len(data) + 3):
                    cases.append((cs, start, stop))
    rng.shuffle(cases)
    cases = cases[:ctx.scale(350, 3000)]
    for _ in range(ctx.scale(350, 3000)):
        cs = rand_chunks(rng, 14)
        L = sum(map(len, cs))
        start = rng.randrange(0, L + 2)
        cases.append((cs, start, rng.randrange(start, L + 4)))
    lit = []
    for cs, start, stop in cases:
        key = (tuple(cs), start, stop)
        if key in seen:
            continue
        seen.add(key)
        lit.append((cpair(c_chunks(cs), cpair(cnat(start), cnat(stop))), fw.catch(impl_air, cs, start, stop),
                    {"kind": "air", "chunks": [c.hex() for c in cs], "start": start, "stop": stop}))
    corr_simple(ctx, "air", "corr_air", "(list str * (nat * nat))", lit, judge_air)

    rng = ctx.sub_rng("corr-fileiter")
    lit = []
    for _ in range(ctx.scale(500, 4000)):
        n = rng.randrange(0, 14)
        data = bytes(rng.randrange(256) for _ in range(n))
        seek = rng.randrange(0, n + 3)
        limit = None if rng.random() < 0.15 else rng.randrange(seek, n + 5)
        bs = rng.choice([0, 1, 1, 2, 3, 4, 5, 8, 100])
        lit.append((cpair(cstr(data), cpair(cnat(seek), cpair(copt(None if limit is None else cnat(limit)), cnat(bs)))),
                    fw.catch(impl_fileiter, data, seek, limit, bs),
                    {"kind": "fileiter", "data": data.hex(), "seek": seek, "limit": limit, "bs": bs}))
    corr_simple(ctx, "fileiter", "corr_fileiter", "(str * (nat * (option nat * nat)))", lit, judge_fileiter)

    rng = ctx.sub_rng("corr-parse")
    texts = list(MALFORMED) + list(LENIENT) + range_texts(3) + ["bytes=00-007", "bytes=12345678901234567890-", "bytes=-00",
                                                                 "bytes=0-1\n", "bytes=0-1\n\n", "bytes=0-1 \n", "bytes=-5\n"]
    alpha = "0159-=, "
    for n in range(0, 4):
        for w in itertools.product(alpha, repeat=n):
            texts.append("bytes" + "".join(w))
    pool = ["bytes" + "".join(rng.choice("0123456789-=, bB\n") for _ in range(rng.randrange(4, 12))) for _ in range(400)]
    pool += [rand_range_text(rng, rng.randrange(0, 12)) for _ in range(400)]
    pool += ["".join(rng.choice("bytesBYTES=- 019,") for _ in range(rng.randrange(0, 10))) for _ in range(200)]
    texts += pool[:ctx.scale(500, 1000)]
    texts = list(dict.fromkeys(texts))
    lit = [(cstr(t), impl_range_parse(t), {"kind": "range-text", "text": t}) for t in texts]
    corr_simple(ctx, "range-parse", "corr_range_parse", "str", lit, judge_range_text)

    vals = [None, -1, 0, 1, 2, 3, 4]
    lit = []
    for s, e, l in itertools.product(vals, repeat=3):
        for resp in (False, True):
            lit.append((cpair(cpair(c_oz(s), c_oz(e)), cpair(c_oz(l), cbool(resp))), impl_is_valid(s, e, l, resp),
                        {"kind": "is-valid", "start": s, "stop": e, "length": l, "response": resp}))
    corr_simple(ctx, "is-valid", "corr_is_valid", "((option Z * option Z) * (option Z * bool))", lit, lambda c: None)

    lit = []
    for s in range(-6, 7):
        for e in [None] + list(range(0, 8)):
            for l in [None] + list(range(0, 7)):
                lit.append((cpair(cpair(cZ(s), c_oz(e)), c_oz(l)), impl_content_range(s, e, l),
                            {"kind": "arith", "start": s, "end": e, "length": l}))
    rng = ctx.sub_rng("corr-arith")
    for _ in range(200):
        l = rng.choice([None, rng.randrange(0, 10 ** rng.randrange(1, 12))])
        s = rng.randrange(-10 ** 6, 10 ** rng.randrange(1, 12))
        e = rng.choice([None, rng.randrange(0, 10 ** rng.randrange(1, 12))])
        lit.append((cpair(cpair(cZ(s), c_oz(e)), c_oz(l)), impl_content_range(s, e, l),
                    {"kind": "arith", "start": s, "end": e, "length": l}))
    corr_simple(ctx, "content-range", "corr_content_range", "((Z * option Z) * option Z)", lit, judge_arith)

    texts = gen_cr_texts(ctx)
    lit = [(cstr(t), impl_cr_text(t), {"kind": "cr-text", "text": t}) for t in texts]
    ctx.extra["cr_text_cases"] = len(lit)
    corr_simple(ctx, "cr-text", "corr_cr_text", "str", lit, judge_cr_text)

    lit = []
    for a in gen_cr_args(ctx):
        value, term = make_sarg(a)
        lit.append((term, impl_cr_serialize(value), {"kind": "cr-serialize", "arg": a}))
    ctx.extra["cr_serialize_cases"] = len(lit)
    corr_simple(ctx, "cr-serialize", "corr_cr_serialize", "sarg", lit, judge_cr_serialize)

    rng = ctx.sub_rng("corr-cond")
    lit = []
    n_cond = ctx.scale(700, 6000)
    structured = list(gen_validators()) + list(gen_ifrange()) + list(gen_corner())
    rng.shuffle(structured)
    pending = structured[:ctx.scale(400, 3000)]
    n_cond += len(pending)
    while len(lit) < n_cond:
        case = pending.pop() if pending else rand_case(rng, 9)
        if case.get("cond_via") == "off":          # the model is of conditional_response_app
            case = dict(case, cond_via="attr")
        out = impl_call(case)
        if isinstance(out, Err):
            r = oracle_case(case)
            if r:
                ctx.fail(r[0], r[1], case, True, "corr")
            continue
        try:
            lit.append((facts(case), out, case))
        except Exception as e:  # noqa  (an accessor raising where the app did not)
            ctx.broken.append("facts() raised %r on %s" % (e, json.dumps(case)))
            break
    corr_simple(ctx, "cond", "corr_cond", "cin", lit, oracle_case)

    # ------------------------------------------------------------------ oracle sweeps
    def sweep(name, gen):
        n = nt = 0
        for case in gen:
            n += 1
            nt += 1 if nontrivial(case) else 0
            r = oracle_case(case)
            if r:
                ctx.fail(r[0], r[1], case, True, name)
        ctx.oracle_count(name, n, nt)

    sweep("slices", gen_slices(ctx))
    sweep("range-texts", gen_texts(ctx))
    sweep("validators", gen_validators())
    sweep("if-range", gen_ifrange())
    sweep("corner", gen_corner())

    # (5b) Content-Range text layer through the public API
    n = nt = 0
    vals = [None, -1, 0, 1, 2, 3, 4, 5, 6, 10 ** 12, 10 ** 30]
    for s_, e_, l_ in itertools.product(vals, repeat=3):
        n += 1
        nt += 1 if cr_ctor_ok(s_, e_, l_) else 0
        r = oracle_cr_text(s_, e_, l_)
        if r:
            ctx.fail(r[0], r[1], {"kind": "cr-tuple", "tuple": [s_, e_, l_]}, True, "cr-text")
    for t in CR_CTL_TEXTS:
        n += 1
        nt += 1
        r = oracle_cr_ctl(t)
        if r:
            ctx.fail(r[0], r[1], {"kind": "cr-ctl", "text": t}, True, "cr-text")
    for L in range(0, 7):
        for t in range_texts(L) + LENIENT:
            for chunked in (False, True):
                n += 1
                nt += 1
                r = oracle_cr_206(L, t, chunked)
                if r:
                    ctx.fail(r[0], r[1], {"kind": "cr-206", "L": L, "range": t, "chunked": chunked}, True, "cr-text")
    for t in gen_cr_texts(ctx):
        n += 1
        r = judge_cr_text({"text": t})
        nt += 1 if impl_cr_text(t)[0] is not None else 0
        if r:
            ctx.fail(r[0], r[1], {"kind": "cr-text", "text": t}, True, "cr-text")
    ctx.oracle_count("cr-text", n, nt)

    # (6) random larger cases
    rng = ctx.sub_rng("oracle-random")
    sweep("random", (rand_case(rng, 40) for _ in range(ctx.scale(8000, 300000))))

    # (7) FileApp: real files around the block size, FileIter and wsgi.file_wrapper
    n = nt = 0
    with tempfile.TemporaryDirectory(prefix="c06-") as tmp:
        rng = ctx.sub_rng("oracle-fileapp")
        sizes = [0, 1, 3, 4, 5, 8, 9]
        for size in sizes:
            data = bytes((7 * i + 3) % 256 for i in range(size))
            tx = range_texts(size) if size <= 5 else [rand_range_text(rng, size) for _ in range(40)]
            tx += [None, "bytes=x", "bytes=0-1,2-3"]
            for t in tx:
                for wrapper in (False, True):
                    for method in ("GET", "HEAD"):
                        if quick and (zlib.crc32(repr((t, wrapper, method)).encode()) & 1):
                            continue
                        n += 1
                        nt += 1
                        d1, d2 = rng.choice([None, None, -5, 0, 5]), rng.choice([None, None, -5, 0, 5])
                        r = oracle_fileapp(tmp, data, method, t, wrapper, 4, d1, d2)
                        if r:
                            ctx.fail(r[0], r[1], {"kind": "fileapp", "size": size, "method": method, "range": t,
                                                  "wrapper": wrapper, "ims": d1, "ifr": d2}, True, "fileapp")
    ctx.oracle_count("fileapp", n, nt)

    # (7b) outside the model's domain; argument shapes of AppIterRange / FileIter
    n = 0
    for case in gen_outside(ctx):
        n += 1
        r = oracle_outside(case)
        if r:
            ctx.fail(r[0], r[1], dict(case, kind="outside"), True, "outside-domain")
    ctx.oracle_count("outside-domain", n, n)
    rng = ctx.sub_rng("oracle-iter-shapes")
    n = ctx.scale(300, 5000)
    for k in range(n):
        st_ = rng.getstate()
        r = oracle_iter_shapes(rng)
        if r:
            ctx.fail(r[0], r[1], {"kind": "iter-shapes", "seed": ctx.seed, "index": k}, True, "iter-shapes")
    ctx.oracle_count("iter-shapes", n, n)

    # (8) histories: ONE Response / ONE FileApp answering several different requests in sequence
    n = 0
    for hist in gen_histories(ctx):
        n += 1
        r = oracle_history(hist)
        if r:
            ctx.fail(r[0], r[1], hist, True, "history")
    ctx.oracle_count("history", n, n)
    n = 0
    with tempfile.TemporaryDirectory(prefix="c06-") as tmp:
        for hist in gen_fileapp_histories(ctx):
            n += 1
            r = fileapp_history(tmp, hist)
            if r:
                ctx.fail(r[0], r[1], hist, True, "fileapp-history")
    ctx.oracle_count("fileapp-history", n, n)

    ctx.extra["rule"] = (
        "correspondence: distinct generated inputs per model function (AppIterRange: all chunkings of bodies <= 4 bytes x all "
        "start<=stop plus random chunkings <= 14 bytes, compared on the exact yield sequence; FileIter: random data/seek/limit/"
        "block size; Range.parse: every text 'bytes'+w, |w|<=3 over {0,1,5,9,-,=,',',SP} plus malformed / lenient / random "
        "texts; _is_content_range_valid: all of {None,-1..4}^3 x response; content_range: start -6..6 x end None,0..7 x "
        "length None,0..6 plus large random; conditional_response_app: random requests/responses, compared on status line, "
        "header list and body).  oracle: a case counts as non-trivial when it carries a Range or If-None-Match header or "
        "the reference outcome is not the full response; sweeps = exhaustive bodies x chunkings x structured ranges x "
        "GET/HEAD x iterator kinds, all Range texts over a 7-symbol alphabet up to a length bound, full products of "
        "validator combinations, random larger cases, FileApp on real files; histories = one long-lived Response "
        "(list / re-iterable body) and one FileApp instance answering 3-8 different requests in sequence (all ordered "
        "pairs a,b,a over a 16-request universe + random, some replayed in reverse order), each answer compared with a "
        "brand-new identical object's and the Response's status/headerlist/body compared with before"
        ".  Content-Range text layer: correspondence of [groups of _rx_content_range.match, ContentRange.parse, "
        "parse_content_range] on every 'bytes '+w, |w|<=3 over {0,9,-,/,*} (+ a sample of |w|=4), a 7^3 product of "
        "printed tuples, ~90 malformed texts (CR/LF/TAB/NBSP, signs, underscores, superscript digits, trailing text, "
        "4300/4301-digit numbers) and single-edit mutations of valid texts; of serialize_content_range on tuples/lists of "
        "length 0-4 over {None,-1,0,1,2,3,7}, ContentRange objects, texts and None; oracle cr-text: 11^3 tuples through "
        "Response.content_range (set, header text, read back), CR/LF texts refused, and the Content-Range of real 206/416 "
        "answers read back with parse_content_range and compared with the payload")
    ctx.extra["exhaustive"] = False
    ctx.assume += [
        "an If-Range date matches when Last-Modified is not later than it (the same comparison the statement uses for "
        "If-Modified-Since); 304 is decided without looking at the response status (as the statement says)",
        "Content-Length, when present, is the true body length (C02); header text is latin-1 (WSGI native strings)",
        "Range texts that are a single range only after removing blanks around '=' and '-' (a leniency pinned by webob's own "
        "tests) may be honoured or ignored; 'bytes=-0' may be answered 416 or with the full response",
        "`If-Range: *` and an existing but unparsable Content-Range are outside the statement's quantifier and not generated",
        "Content-Range text model: code points < 256 (so `\\d` is [0-9]; CPython's own `re` is asked on every run); int(text) "
        "refuses more than sys.get_int_max_str_digits() = 4300 digits (the theorems' `fits` hypothesis); tuple/list items are "
        "ints or None",
    ]
    ctx.trusted += [
        "facts handed to the decision-tree model (parsed ETag lists, dates as POSIX seconds, Content-Length) are read through "
        "webob's own accessors; their parsing is covered end to end only by the oracle (and by C11/C12)",
        "regular binary files: read(n) returns min(n, remaining) bytes (model of the abstract file in C06_AppIterRange.v)",
    ]


# =========================================================================== replay
def replay(ctx, path):
    data = json.load(open(path))
    case = data["case"]
    kind = case.get("kind") if isinstance(case, dict) else None
    if not isinstance(case, dict) or "broken" in case:
        print("replay: nothing executable in this file (broken obligation): %s" % data.get("what"))
        return 1
    if kind == "air":
        r = judge_air(case)
    elif kind == "fileiter":
        r = judge_fileiter(case)
    elif kind == "range-text":
        r = judge_range_text(case)
    elif kind == "arith":
        r = judge_arith(case)
    elif kind == "is-valid":
        r = None
    elif kind == "cr-text":
        r = judge_cr_text(case)
    elif kind == "cr-serialize":
        r = judge_cr_serialize(case)
    elif kind == "cr-tuple":
        r = oracle_cr_text(*case["tuple"])
    elif kind == "cr-ctl":
        r = oracle_cr_ctl(case["text"])
    elif kind == "cr-206":
        r = oracle_cr_206(case["L"], case["range"], case["chunked"])
    elif kind == "fileapp":
        with tempfile.TemporaryDirectory(prefix="c06-") as tmp:
            size = case["size"]
            r = oracle_fileapp(tmp, bytes((7 * i + 3) % 256 for i in range(size)), case["method"], case["range"],
                               case["wrapper"], 4, case.get("ims"), case.get("ifr"))
    elif kind == "outside":
        r = oracle_outside(case)
    elif kind == "iter-shapes":
        rng = fw.Ctx("C06", "quick", case["seed"]).sub_rng("oracle-iter-shapes")
        r = None
        for _ in range(case["index"] + 1):
            r = oracle_iter_shapes(rng)
    elif kind == "history":
        r = oracle_history(case)
    elif kind == "fileapp-history":
        with tempfile.TemporaryDirectory(prefix="c06-") as tmp:
            r = fileapp_history(tmp, case)
    else:
        r = oracle_case(case)
    if r and ("C06", r[0]) in ctx.known:
        print("KNOWN-FINDING: property=C06 %s [%s]" % (ctx.known[("C06", r[0])], r[0]))
        print("  %s" % r[1])
        return 0
    if r:
        print("VIOLATION property=C06 replay=%s" % path)
        print("  (%s) %s" % r)
        return 1
    print("replay passes on the current tree")
    return 0


# =========================================================================== gen: source -> coq/Gen/C06_byterange.v
class Untranslatable(Exception):
    pass


def _pure(n):
    import ast
    return isinstance(n, (ast.Name, ast.Constant)) or (isinstance(n, ast.Attribute) and isinstance(n.value, ast.Name))


def _expr(n):
    """Python expression AST -> Coq term of type MiniPy.expr (fail-closed)."""
    import ast
    if isinstance(n, ast.Name):
        return '(EVar "%s")' % n.id
    if isinstance(n, ast.Attribute) and isinstance(n.value, ast.Name) and n.value.id == "self":
        return '(EVar "self.%s")' % n.attr
    if isinstance(n, ast.Constant):
        if n.value is None:
            return "ENone"
        if n.value is True or n.value is False:
            return "(EBool %s)" % cbool(n.value)
        if isinstance(n.value, int):
            return "(EInt (%d))" % n.value
        raise Untranslatable("constant %r" % (n.value,))
    if isinstance(n, ast.UnaryOp) and isinstance(n.op, ast.Not):
        return "(ENot %s)" % _expr(n.operand)
    if isinstance(n, ast.UnaryOp) and isinstance(n.op, ast.USub) and isinstance(n.operand, ast.Constant) \
            and isinstance(n.operand.value, int):
        return "(EInt (%d))" % -n.operand.value
    if isinstance(n, ast.BoolOp):
        op = "EAnd" if isinstance(n.op, ast.And) else "EOr"
        out = _expr(n.values[-1])
        for v in reversed(n.values[:-1]):
            out = "(%s %s %s)" % (op, _expr(v), out)
        return out
    if isinstance(n, ast.BinOp) and isinstance(n.op, (ast.Add, ast.Sub)):
        return "(%s %s %s)" % ("EAdd" if isinstance(n.op, ast.Add) else "ESub", _expr(n.left), _expr(n.right))
    if isinstance(n, ast.Compare):
        parts = []
        left = n.left
        for op, right in zip(n.ops, n.comparators):
            if isinstance(op, (ast.Is, ast.IsNot)):
                if not (isinstance(right, ast.Constant) and right.value is None):
                    raise Untranslatable("`is` against something else than None")
                parts.append("(%s %s)" % ("EIsNone" if isinstance(op, ast.Is) else "EIsNotNone", _expr(left)))
            else:
                names = {ast.Lt: "CLt", ast.LtE: "CLe", ast.Gt: "CGt", ast.GtE: "CGe", ast.Eq: "CEq", ast.NotEq: "CNe"}
                if type(op) not in names:
                    raise Untranslatable("comparison %s" % type(op).__name__)
                parts.append("(ECmp %s %s %s)" % (names[type(op)], _expr(left), _expr(right)))
            left = right
        if len(parts) > 1 and not all(_pure(c) for c in n.comparators[:-1]):
            raise Untranslatable("chained comparison over an impure middle operand")
        out = parts[-1]
        for p_ in reversed(parts[:-1]):
            out = "(EAnd %s %s)" % (p_, out)
        return out
    if isinstance(n, ast.Tuple) and len(n.elts) == 2:
        return "(EPair %s %s)" % (_expr(n.elts[0]), _expr(n.elts[1]))
    if isinstance(n, ast.Call) and isinstance(n.func, ast.Name) and not n.keywords:
        if n.func.id == "min" and len(n.args) == 2:
            return "(EMin %s %s)" % (_expr(n.args[0]), _expr(n.args[1]))
        return '(ECall "%s" %s)' % (n.func.id, clist(_expr(a) for a in n.args))
    raise Untranslatable("expression %s" % type(n).__name__)


def _block(stmts):
    import ast
    out = "SSkip"
    for st in reversed(stmts):
        if isinstance(st, ast.Expr) and isinstance(st.value, ast.Constant) and isinstance(st.value.value, str):
            continue                                            # docstring
        if isinstance(st, ast.Return):
            t = "(SReturn %s)" % ("ENone" if st.value is None else _expr(st.value))
        elif isinstance(st, ast.If):
            t = "(SIf %s %s %s)" % (_expr(st.test), _block(st.body), _block(st.orelse))
        elif isinstance(st, ast.Assign) and len(st.targets) == 1 and isinstance(st.targets[0], ast.Name):
            t = '(SAssign "%s" %s)' % (st.targets[0].id, _expr(st.value))
        elif isinstance(st, ast.Assign) and len(st.targets) == 1 and isinstance(st.targets[0], ast.Tuple) \
                and isinstance(st.value, ast.Tuple) and len(st.value.elts) == len(st.targets[0].elts) \
                and all(isinstance(x, ast.Name) for x in st.targets[0].elts) and all(_pure(v) for v in st.value.elts) \
                and not ({x.id for x in st.targets[0].elts} & {v.id for v in st.value.elts if isinstance(v, ast.Name)}):
            t = "SSkip"
            for x, v in reversed(list(zip(st.targets[0].elts, st.value.elts))):
                t = '(SSeq (SAssign "%s" %s) %s)' % (x.id, _expr(v), t)
        elif isinstance(st, ast.AugAssign) and isinstance(st.op, ast.Add) and isinstance(st.target, ast.Name):
            t = '(SAugAdd "%s" %s)' % (st.target.id, _expr(st.value))
        else:
            raise Untranslatable("statement %s" % type(st).__name__)
        out = t if out == "SSkip" else "(SSeq %s %s)" % (t, out)
    return out


def translate_byterange(path):
    import ast
    tree = ast.parse(open(path).read())
    fns = {}
    for node in tree.body:
        if isinstance(node, ast.FunctionDef):
            fns[node.name] = node
        if isinstance(node, ast.ClassDef):
            for sub in node.body:
                if isinstance(sub, ast.FunctionDef):
                    fns["%s.%s" % (node.name, sub.name)] = sub
    out = ["(* REGENERATED by harness/props/c06.py:gen from %s — do not edit. *)" % os.path.basename(path),
           "From Coq Require Import ZArith List String.", "Require Import Webob.Lib.C06_MiniPy.",
           "Import ListNotations.", "Local Open Scope string_scope.", "Local Open Scope Z_scope.", ""]
    for name, cname in (("_is_content_range_valid", "valid"), ("Range.range_for_length", "rfl")):
        f = fns.get(name)
        if f is None:
            raise Untranslatable("function %s not found" % name)
        a = f.args
        if a.vararg or a.kwarg or a.kwonlyargs or a.posonlyargs:
            raise Untranslatable("signature of %s" % name)
        params = [x.arg for x in a.args]
        defaults = [_expr(d) for d in a.defaults]
        out.append("Definition src_%s_params : list string := %s." % (cname, clist('"%s"' % p_ for p_ in params)))
        out.append("Definition src_%s_defaults : list expr := %s." % (cname, clist(defaults)))
        out.append("Definition src_%s_body : stmt :=\n  %s." % (cname, _block(f.body)))
        out.append("")
    return "\n".join(out) + "\n"


# =========================================================================== _rx_content_range -> Gallina rx
def _rx_plain(items, digit_ranges):
    """re._parser tree -> plain (op, arg) lists understood by harness/rxgen.Tr; `\\d` is replaced by the ranges CPython's
    own `re` gives it on code points < 256 (the domain of the model).  Fail-closed on anything else."""
    import re._constants as sc
    out = []
    for op, a in items:
        if op == sc.IN:
            its = []
            for o2, a2 in a:
                if o2 == sc.CATEGORY and a2 == sc.CATEGORY_DIGIT:
                    its += [(sc.RANGE, r) for r in digit_ranges]
                elif o2 in (sc.LITERAL, sc.RANGE, sc.NEGATE):
                    its.append((o2, a2))
                else:
                    raise Untranslatable("class item %s %s" % (o2, a2))
            out.append((op, its))
        elif op in (sc.MAX_REPEAT, sc.MIN_REPEAT):
            out.append((op, (a[0], a[1], _rx_plain(a[2], digit_ranges))))
        elif op == sc.SUBPATTERN:
            out.append((op, (a[0], a[1], a[2], _rx_plain(a[3], digit_ranges))))
        elif op == sc.BRANCH:
            out.append((op, (a[0], [_rx_plain(x, digit_ranges) for x in a[1]])))
        elif op == sc.LITERAL:
            out.append((op, a))
        else:
            raise Untranslatable("construct %s (anchors, look-around, back-references are outside the modelled shape)" % op)
    return out


def translate_content_range_rx():
    """The live webob.byterange._rx_content_range as a Gallina rx (language of the prefixes `.match` accepts)."""
    import re._parser as sp
    from harness import rxgen
    from webob import byterange
    pat = byterange._rx_content_range
    if pat.flags & ~re.UNICODE:
        raise Untranslatable("flags %r on _rx_content_range" % pat.flags)
    d = re.compile(r"\d")
    digit_ranges = rxgen.rngs([c for c in range(256) if d.fullmatch(chr(c))])
    tree = _rx_plain(list(sp.parse(pat.pattern, pat.flags)), digit_ranges)
    try:
        term = rxgen.Tr(pat.flags).seq(tree)
    except rxgen.Untranslatable as e:
        raise Untranslatable(str(e))
    return pat.pattern, pat.groups, term


def gen_crx(ctx):
    target = os.path.join(fw.COQ, "Gen", "C06_crx.v")
    head = ("From Coq Require Import NArith List Bool.\nRequire Import Webob.Lib.Val Webob.Lib.Rx.\nImport ListNotations.\n"
            "Local Open Scope N_scope.\n")
    try:
        pattern, groups, term = translate_content_range_rx()
        txt = ("(* REGENERATED by harness/props/c06.py:gen_crx from the live webob.byterange._rx_content_range — do not edit.\n"
               "   pattern: %s *)\n%sDefinition cr_rx : rx := %s.\nDefinition cr_rx_groups : N := %d.\n"
               % (pattern.replace("*)", "* )").replace("(*", "( *"), head, term, groups))
    except Exception as e:  # noqa  fail-closed
        ctx.broken.append("translator: _rx_content_range stepped outside the translated regex subset: %s" % e)
        txt = "(* translator failed: %s *)\n%sDefinition cr_rx : rx := Emp.\nDefinition cr_rx_groups : N := 0.\n" % (
            str(e).replace("*)", "* )").replace("(*", "( *"), head)
    fw.write_if_changed(target, txt)


def gen(ctx):
    gen_crx(ctx)                  # coq/Gen/C06_crx.v from the live pattern object
    path = os.path.join(fw.REPO, "src", "webob", "byterange.py")
    target = os.path.join(fw.COQ, "Gen", "C06_byterange.v")
    try:
        txt = translate_byterange(path)
    except Exception as e:  # noqa  fail-closed: the obligation cannot be re-stated, so it is broken
        ctx.broken.append("translator: byterange.py stepped outside the translated Python subset: %s" % e)
        txt = ("(* translator failed: %s *)\nFrom Coq Require Import ZArith List String.\nRequire Import Webob.Lib.C06_MiniPy.\n"
               "Import ListNotations.\nDefinition src_valid_params : list string := [].\nDefinition src_valid_defaults : list expr := [].\n"
               "Definition src_valid_body : stmt := SSkip.\nDefinition src_rfl_params : list string := [].\n"
               "Definition src_rfl_defaults : list expr := [].\nDefinition src_rfl_body : stmt := SSkip.\n" % str(e).replace("*)", "* )"))
    fw.write_if_changed(target, txt)
