"""C05 — Accept-Language basic filtering and lookup implement RFC 4647.

Tie to the source: correspondence of coq/Model/C05_AcceptLang.v (basic_filtering, lookup, lookup_nohdr)
with the real AcceptLanguageValidHeader / AcceptLanguageNoHeader / AcceptLanguageInvalidHeader methods on
generated headers, tag lists and default arguments; plus an independent Python transcription of the
statement (RFC 4647 3.3.1 matching, 3.4 truncation) run against the public API over exhaustive small
universes and random cases, including the request glue (`Request.accept_language`) and a direct
observation of the truncation sequence through spy tag objects.
"""
import itertools
import json
import warnings

from harness import fw
from harness.fw import Err, cstr, clist, cpair, copt, cN, cbool

IMPORTS = ["Webob.Lib.PyStr", "Webob.Model.C05_AcceptLang"]
SENTINEL = "\x00default-object"


# =============================================================================== reference (the statement)
def single(s):
    """RFC 4647 3.4: a single letter or digit subtag."""
    return len(s) == 1 and (s.isalpha() or s.isdigit())


def truncations(r):
    """RFC 4647 3.4 progressive truncation of the range r (already lower-cased): r itself, then
    repeatedly without its last subtag; a single-character subtag that would become last goes with it."""
    subs = r.split("-")
    out = []
    while subs:
        out.append("-".join(subs))
        subs = subs[:-1]
        if subs and single(subs[-1]):
            subs = subs[:-1]
    return out


def matches_331(rng, tag):
    """RFC 4647 3.3.1: case-insensitive equality, or range is a prefix of the tag followed by '-'."""
    rng, tag = rng.lower(), tag.lower()
    return tag == rng or tag[:len(rng) + 1] == rng + "-"


def ref_basic_filtering(parsed, tags):
    """parsed: [(range, q_thousandths)].  A range repeated in the header counts once, with the quality and
    position of its first occurrence (webob's documented reading; the RFCs are silent)."""
    eff = {}
    for pos, (r, q) in enumerate(parsed):
        eff.setdefault(r.lower(), (q, pos))
    rows = []
    for i, t in enumerate(tags):
        hits = [(q, pos) for r, (q, pos) in eff.items() if r != "*" and matches_331(r, t)]
        if any(q == 0 for q, _ in hits):
            continue
        if hits:
            q, pos = min(hits, key=lambda h: (-h[0], h[1]))
        elif "*" in eff and eff["*"][0] != 0:
            q, pos = eff["*"]
        else:
            continue
        rows.append((-q, pos, i, t))
    rows.sort(key=lambda x: x[:3])
    return [[t, -nq] for nq, _, _, t in rows]


def ref_lookup(parsed, tags, default_range, default_tag, default_is_none):
    """Returns a str, 0 for `default`, or Err."""
    if default_tag is None and default_is_none:
        return Err("TypeError")
    if default_range == "*":
        return Err("ValueError")
    zero = {r.lower() for r, q in parsed if r != "*" and q == 0}
    star0 = any(r == "*" and q == 0 for r, q in parsed)
    prio = [r for _, _, r in sorted((-q, pos, r.lower()) for pos, (r, q) in enumerate(parsed) if r != "*" and q != 0)]

    def first_hit(cands):
        for c in cands:
            for t in tags:
                if t.lower() == c and t.lower() not in zero:
                    return t
        return None

    t = first_hit([c for r in prio for c in truncations(r)])
    if t is not None:
        return t
    if not star0:
        if default_range is not None:
            t = first_hit(truncations(default_range.lower()))
            if t is not None:
                return t
        if default_tag is not None and default_tag.lower() not in zero:
            return default_tag
    return 0


def ref_lookup_nohdr(default_tag, default_is_none):
    if default_tag is None and default_is_none:
        return Err("TypeError")
    return default_tag if default_tag is not None else 0


# =============================================================================== implementation adaptors
def header_text(elems):
    return ", ".join(r if qs is None else "%s%s" % (r, qs) for r, qs in elems)


def q_thousandths(qs):
    """';q=0.5' -> 500, independent of webob's parser."""
    if qs is None:
        return 1000
    v = qs.split("=", 1)[1].strip()
    whole, _, frac = v.partition(".")
    return int(whole) * 1000 + int((frac + "000")[:3])


def parsed_of(elems):
    return [(r, q_thousandths(qs)) for r, qs in elems]


def make_header(text, via="class"):
    from webob.acceptparse import create_accept_language_header
    if via == "request":
        from webob import Request
        if text is None:
            return Request.blank("/").accept_language
        return Request.blank("/", headers={"Accept-Language": text}).accept_language
    return create_accept_language_header(text)


def canon_q(q):
    t = round(q * 1000)
    if abs(q * 1000 - t) > 1e-6:
        return repr(q)
    return t


def impl_parsed(h):
    return [(r, canon_q(q)) for r, q in h.parsed]


def impl_bf(h, tags):
    try:
        out = h.basic_filtering(language_tags=list(tags))
        return [[t, canon_q(q)] for t, q in out]
    except Exception as e:  # noqa
        return Err(type(e).__name__)


def mk_default(kind):
    if kind == "none":
        return None
    if kind == "value":
        return SENTINEL
    if kind == "callable":
        return lambda: SENTINEL
    raise ValueError(kind)


def impl_lookup(h, tags, dr, dt, dkind, nohdr=False):
    try:
        with warnings.catch_warnings():
            warnings.simplefilter("ignore")
            r = h.lookup(language_tags=list(tags), default_range=dr, default_tag=dt, default=mk_default(dkind))
    except Exception as e:  # noqa
        return Err(type(e).__name__)
    if r is SENTINEL or (r == SENTINEL and isinstance(r, str)):
        return 0
    if r is None and dkind == "none":
        return 0
    if isinstance(r, str):
        return r
    return "unexpected:%r" % (r,)


# =============================================================================== generators
FIRST = ["en", "de", "zh", "a", "b", "x", "i", "sr"]
LATER = ["gb", "us", "a", "b", "x", "1", "9", "hant", "cn", "private", "u", "co", "latn", "en"]
QS = [None, None, None, ";q=0", ";q=0.0", ";q=0.000", ";q=0.5", ";q=0.50", "; q=0.500", ";q=0.3", " ;q=0.8", ";q=1",
      ";q=1.0", ";Q=0.001", ";q=0.999", ";q=0.5", ";q=0.3"]


def rand_case(rng, s):
    m = rng.randrange(4)
    if m == 0:
        return s
    if m == 1:
        return s.upper()
    if m == 2:
        return s.title()
    return "".join(c.upper() if rng.random() < 0.5 else c.lower() for c in s)


def rand_range(rng, maxsub=5):
    n = rng.choice([1, 1, 2, 2, 2, 3, 3, 4, maxsub])
    return "-".join([rng.choice(FIRST)] + [rng.choice(LATER) for _ in range(n - 1)])


def derive(rng, r):
    """A tag / range related to r: itself, a truncation, an extension, a near miss, another case."""
    subs = r.split("-")
    m = rng.randrange(9)
    if m == 0:
        out = r
    elif m == 1 and len(subs) > 1:
        out = "-".join(subs[:rng.randrange(1, len(subs))])
    elif m == 2:
        out = r + "-" + rng.choice(LATER)
    elif m == 3:
        out = r + rng.choice(["x", "1", "-", ""])
    elif m == 4 and len(subs) > 1:
        out = "-".join(subs[:-1]) + subs[-1]
    elif m == 5:
        out = r + "-" + rng.choice(LATER) + "-" + rng.choice(LATER)
    elif m == 6 and len(subs) > 2:
        k = rng.randrange(1, len(subs))
        out = "-".join(subs[:k] + subs[k + 1:])
    else:
        out = r
    return rand_case(rng, out)


ODD_RANGES = ["", "-", "a-", "-a", "en--gb", "en-_-x", "en-\xe9-x", "en-\xb2-x", "\xc9n-gb", "en-gb-", "x", "x-y", "x-y-z",
              "en-x", "*", "*", "*-a", "en-*", "1-2", "a-b-c-d-e-f"]


def rand_case_inputs(rng, allow_empty_tag=True):
    pool = [rand_range(rng) for _ in range(rng.randrange(1, 5))]
    elems = []
    for _ in range(rng.choice([1, 1, 2, 2, 3, 3, 4, 5, 6])):
        if rng.random() < 0.15:
            r = "*"
        elif rng.random() < 0.8:
            r = rand_case(rng, rng.choice(pool))
        else:
            r = derive(rng, rng.choice(pool)).rstrip("-") or "en"
            if not is_range(r):
                r = rng.choice(pool)
        elems.append((r, rng.choice(QS)))
    tags = []
    for _ in range(rng.choice([0, 1, 2, 2, 3, 3, 4, 5, 6])):
        x = rng.random()
        if x < 0.7:
            tags.append(derive(rng, rng.choice(pool)))
        elif x < 0.9:
            tags.append(rand_case(rng, rand_range(rng, 3)))
        elif x < 0.95 and allow_empty_tag:
            tags.append("")
        else:
            tags.append(rng.choice(["en_US", "\xe9n", "en-", "-en", "x"]))
    x = rng.random()
    if x < 0.4:
        dr = None
    elif x < 0.85:
        dr = derive(rng, rng.choice(pool + tags) or "en")
    else:
        dr = rng.choice(ODD_RANGES)
    x = rng.random()
    if x < 0.35:
        dt = None
    elif x < 0.8:
        dt = derive(rng, rng.choice(pool))
    else:
        dt = rng.choice(tags + ["fallback", ""])
    dkind = rng.choice(["none", "value", "value", "callable"])
    return elems, tags, dr, dt, dkind


def is_range(r):
    import re
    return re.fullmatch(r"\*|[A-Za-z]{1,8}(?:-[A-Za-z0-9]{1,8})*", r) is not None


INVALID_HEADERS = ["", "en;q=2", "en_US", ", ,", "\xe9", "en;q=0.1234", "en-toolongsubtag", "en;q=", "en gb", "*-a", "1a",
                   "en;q=1.001", "en,,de;", "-en"]


# =============================================================================== Coq literals
def cparsed(parsed):
    return clist(cpair(cstr(r), cN(q)) for r, q in parsed)


def cstrs(l):
    return clist(cstr(t) for t in l)


def cost(s):
    return copt(None if s is None else cstr(s))


def clookup_args(parsed, tags, dr, dt, dkind):
    return "(%s, %s, %s, %s, %s)" % (cparsed(parsed), cstrs(tags), cost(dr), cost(dt), cbool(dkind == "none"))


# =============================================================================== oracle
def classify_bf(got, want):
    if isinstance(got, Err):
        return "basic_filtering:raises-" + got.name
    gt, wt = sorted(t for t, _ in got), sorted(t for t, _ in want)
    if gt != wt:
        extra = [t for t in gt if t not in wt]
        return "basic_filtering:returns-unmatched-or-excluded-tag" if extra else "basic_filtering:drops-matched-tag"
    if sorted(map(tuple, got)) != sorted(map(tuple, want)):
        return "basic_filtering:wrong-quality"
    return "basic_filtering:wrong-order"


def classify_lookup(case, got, want):
    if isinstance(got, Err) or isinstance(want, Err):
        return "lookup:argument-errors"
    if got == "" and "" in case["tags"] and want != "" and case.get("_agrees_without_empty_tags"):
        return "lookup:empty-tag-matched-after-range-truncated-away"
    if want == 0:
        return "lookup:returns-tag-instead-of-default"
    if got == 0:
        return "lookup:misses-match"
    return "lookup:wrong-tag"


def oracle_case(case):
    """Evaluate the statement on the implementation for one case dict.  Returns (key, message) or None."""
    kind = case["kind"]
    if kind == "valid":
        elems = [tuple(e) for e in case["elems"]]
        text = header_text(elems)
        parsed = parsed_of(elems)
        h = make_header(text, case.get("via", "class"))
        if type(h).__name__ != "AcceptLanguageValidHeader":
            return ("glue:valid-header-not-recognised", "header %r gives %s" % (text, type(h).__name__))
        if impl_parsed(h) != parsed:
            return ("glue:parsed-differs", "header %r parsed as %r, expected %r" % (text, impl_parsed(h), parsed))
        tags = case["tags"]
        if case["op"] == "bf":
            got, want = impl_bf(h, tags), ref_basic_filtering(parsed, tags)
            if got != want:
                return (classify_bf(got, want),
                        "AcceptLanguageValidHeader(%r).basic_filtering(%r) = %r, RFC 4647 3.3.1 reading gives %r"
                        % (text, tags, got, want))
            return None
        dr, dt, dk = case["default_range"], case["default_tag"], case["default"]
        got, want = impl_lookup(h, tags, dr, dt, dk), ref_lookup(parsed, tags, dr, dt, dk == "none")
        if got != want:
            if got == "" and "" in tags:
                # the specific defect "an offered '' is returned once a range has been truncated away": without the
                # empty offers the implementation agrees with the statement
                t2 = [t for t in tags if t != ""]
                case = dict(case, _agrees_without_empty_tags=(impl_lookup(h, t2, dr, dt, dk) ==
                                                              ref_lookup(parsed, t2, dr, dt, dk == "none")))
            return (classify_lookup(case, got, want),
                    "AcceptLanguageValidHeader(%r).lookup(%r, default_range=%r, default_tag=%r, default=<%s>) = %r, "
                    "RFC 4647 3.4 reading gives %r (0 = the default object)" % (text, tags, dr, dt, dk, got, want))
        return None
    if kind == "nohdr":
        text = case["header"]
        h = make_header(text, case.get("via", "class"))
        cls = type(h).__name__
        want_cls = "AcceptLanguageNoHeader" if text is None else "AcceptLanguageInvalidHeader"
        if cls != want_cls:
            return ("glue:invalid-header-class", "header %r gives %s, expected %s" % (text, cls, want_cls))
        tags = case["tags"]
        got = impl_bf(h, tags)
        if got != []:
            return ("nohdr:basic_filtering-not-empty", "%s(%r).basic_filtering(%r) = %r, expected []" % (cls, text, tags, got))
        dr, dt, dk = case["default_range"], case["default_tag"], case["default"]
        got, want = impl_lookup(h, tags, dr, dt, dk), ref_lookup_nohdr(dt, dk == "none")
        if got != want:
            return ("nohdr:lookup-cascade", "%s(%r).lookup(%r, %r, %r, <%s>) = %r, expected %r" % (cls, text, tags, dr, dt, dk, got, want))
        return None
    if kind == "trunc":
        got, want = observe_truncations(case["range"], case.get("via_default_range", False)), truncations(case["range"].lower())
        if got != want:
            if isinstance(got, list) and got == want + [""]:
                # same defect as an offered '' being returned: the loop goes on comparing after the range is used up
                return ("lookup:empty-tag-matched-after-range-truncated-away",
                        "lookup compares the offered tags against %r while truncating %r, i.e. also against the empty "
                        "string left when the range is truncated away; RFC 4647 3.4 gives %r" % (got, case["range"], want))
            return ("lookup:truncation-sequence",
                    "lookup compares the offered tags against %r while truncating %r; RFC 4647 3.4 gives %r"
                    % (got, case["range"], want))
        return None
    raise ValueError(kind)


class _SpyLow:
    def __init__(self, log):
        self.log = log

    def __eq__(self, other):
        self.log.append(other)
        return False

    def __hash__(self):
        return 0


class _SpyTag:
    def __init__(self, log):
        self.log = log

    def lower(self):
        return _SpyLow(self.log)


def observe_truncations(rng_text, via_default_range=False):
    """The sequence of strings lookup compares an offered tag with while processing one range, observed on
    the real code through a tag object whose lower-cased form records every == it takes part in."""
    from webob.acceptparse import AcceptLanguageValidHeader
    log = []
    try:
        if via_default_range:
            h = AcceptLanguageValidHeader("zz-zz")
            h.lookup([_SpyTag(log)], default_range=rng_text, default=0)
            log = log[2:]          # 'zz-zz', 'zz' from the header's own range
        else:
            h = AcceptLanguageValidHeader(rng_text)
            h.lookup([_SpyTag(log)], default=0)
    except Exception as e:  # noqa
        return Err(type(e).__name__)
    return log


def run_oracle(ctx, name, case, nontrivial=True):
    r = oracle_case(case)
    if r:
        ctx.fail(r[0], r[1], case, True, name)
    return r


def exhaustive_cases(depth_hdr, depth_tags, rich):
    ranges = ["a", "a-b", "a-b-c", "ab", "a-x-c", "*"]
    qs = [None, ";q=0", ";q=0.5"]
    elem_u = [(r, q) for r in ranges for q in qs]
    tag_u = ["a", "A-b", "a-b-c", "a-x", "ab", "a-x-c", ""]
    tag_lists = [[]]
    for d in range(1, depth_tags + 1):
        tag_lists += [list(t) for t in itertools.product(tag_u, repeat=d)]
    defaults = [(None, None, "value"), ("a-b-c", None, "value"), ("A-x-c", "a", "value"), (None, "A-B", "value"),
                ("a-b", "ab", "none")]
    if rich:
        defaults += [("ab-x-y", "a-b-c", "callable"), (None, None, "none"), ("*", "a", "value"), (None, "a", "none")]
    for d in range(1, depth_hdr + 1):
        for elems in itertools.product(elem_u, repeat=d):
            for tags in tag_lists:
                yield {"kind": "valid", "op": "bf", "elems": [list(e) for e in elems], "tags": tags}
                for dr, dt, dk in defaults:
                    yield {"kind": "valid", "op": "lookup", "elems": [list(e) for e in elems], "tags": tags,
                           "default_range": dr, "default_tag": dt, "default": dk}


def trunc_cases(maxlen):
    subs = ["en", "a", "1", "xy"]
    for n in range(1, maxlen + 1):
        for first in ["en", "a"]:
            for rest in itertools.product(subs, repeat=n - 1):
                yield {"kind": "trunc", "range": "-".join((first,) + rest)}
    for r in ODD_RANGES:
        if r != "*":
            yield {"kind": "trunc", "range": r, "via_default_range": True}
    for n in range(1, maxlen):
        for parts in itertools.product(["en", "a", "", "_", "\xe9", "\xb2", "E"], repeat=n):
            yield {"kind": "trunc", "range": "-".join(parts), "via_default_range": True}


# =============================================================================== the check
def run(ctx):
    ctx.build(["Props/C05.vo"])
    warnings.simplefilter("ignore")

    # ---------------------------------------------------------------- correspondence
    rng = ctx.sub_rng("corr")
    n = ctx.scale(1500, 8000)
    bf_cases, lk_cases = [], []
    for i in range(n):
        elems, tags, dr, dt, dk = rand_case_inputs(rng)
        text = header_text(elems)
        h = make_header(text)
        if type(h).__name__ != "AcceptLanguageValidHeader":
            ctx.fail("glue:valid-header-not-recognised", "header %r gives %s" % (text, type(h).__name__),
                     {"kind": "valid", "op": "bf", "elems": [list(e) for e in elems], "tags": tags}, True, "corr")
            continue
        parsed = impl_parsed(h)
        if any(not isinstance(q, int) for _, q in parsed):
            ctx.broken.append("qvalue of %r is not a multiple of 0.001: %r" % (text, parsed))
            continue
        base = {"kind": "valid", "elems": [list(e) for e in elems], "tags": tags}
        bf_cases.append((cpair(cparsed(parsed), cstrs(tags)), impl_bf(h, tags), dict(base, op="bf")))
        lk_cases.append((clookup_args(parsed, tags, dr, dt, dk), impl_lookup(h, tags, dr, dt, dk),
                         dict(base, op="lookup", default_range=dr, default_tag=dt, default=dk)))
    for name, fn, cases, ty in (("basic_filtering", "(fun c => bf_val (fst c) (snd c))", bf_cases, "(parsed * list str)"),
                                ("lookup", "lookup_val", lk_cases, "lookup_args")):
        bad = ctx.corr(name, IMPORTS, fn, cases, in_type=ty)
        for i in bad[:8]:
            case = cases[i][2]
            r = oracle_case(case)
            if r:
                ctx.fail(r[0], r[1], case, True, "corr")
            else:
                ctx.broken.append("correspondence %s: model and implementation disagree on %s (impl gives %r)"
                                  % (name, json.dumps(case), cases[i][1]))
    nh_cases = []
    for i in range(ctx.scale(60, 300)):
        text = rng.choice(INVALID_HEADERS + [None, None])
        _, tags, dr, dt, dk = rand_case_inputs(rng)
        h = make_header(text)
        nh_cases.append((cpair(cost(dt), cbool(dk == "none")), impl_lookup(h, tags, dr, dt, dk),
                         {"kind": "nohdr", "header": text, "tags": tags, "default_range": dr, "default_tag": dt, "default": dk}))
    bad = ctx.corr("lookup-nohdr", IMPORTS, "lookup_nohdr_val", nh_cases, in_type="(option str * bool)")
    for i in bad[:8]:
        case = nh_cases[i][2]
        r = oracle_case(case)
        if r:
            ctx.fail(r[0], r[1], case, True, "corr")
        else:
            ctx.broken.append("correspondence lookup-nohdr: model and implementation disagree on %s" % json.dumps(case))

    # the sequence of range texts the real loop compares offers with (observed through spy tags) against the
    # specification function `truncations` itself (Spec/C05_Rfc4647.v), which C05_best_match_truncations relates to the model
    tr_cases = []
    seen = set()
    for case in itertools.chain(trunc_cases(ctx.scale(4, 5)),
                                ({"kind": "trunc", "range": rand_case(rng, rand_range(rng, 6)), "via_default_range": bool(i % 2)}
                                 for i in range(ctx.scale(150, 1500)))):
        key = (case["range"], case.get("via_default_range", False))
        if key in seen:
            continue
        seen.add(key)
        tr_cases.append((cstr(case["range"]), observe_truncations(case["range"], case.get("via_default_range", False)), case))
    bad = ctx.corr("truncations", IMPORTS + ["Webob.Spec.C05_Rfc4647"],
                   "(fun r => VList (map VStr (truncations (lower r))))", tr_cases, in_type="str")
    for i in bad[:8]:
        case = tr_cases[i][2]
        r = oracle_case(case)
        if r:
            ctx.fail(r[0], r[1], case, True, "corr")
        else:
            ctx.broken.append("correspondence truncations: specification and implementation disagree on %s" % json.dumps(case))

    # ---------------------------------------------------------------- oracle: exhaustive small universes
    cnt = nt = 0
    for case in exhaustive_cases(ctx.scale(2, 3), ctx.scale(2, 2), ctx.thorough):
        cnt += 1
        run_oracle(ctx, "exhaustive", case)
    ctx.oracle_count("exhaustive", cnt, cnt)
    cnt = 0
    for case in trunc_cases(ctx.scale(5, 7)):
        cnt += 1
        run_oracle(ctx, "truncation", case)
    ctx.oracle_count("truncation", cnt, cnt)

    # ---------------------------------------------------------------- oracle: random, both entry points
    r2 = ctx.sub_rng("oracle")
    m = ctx.scale(40000, 500000)
    nontriv = 0
    for i in range(m):
        elems, tags, dr, dt, dk = rand_case_inputs(r2)
        via = "request" if i % 10 == 0 else "class"
        base = {"kind": "valid", "elems": [list(e) for e in elems], "tags": tags, "via": via}
        run_oracle(ctx, "random", dict(base, op="bf"))
        run_oracle(ctx, "random", dict(base, op="lookup", default_range=dr, default_tag=dt, default=dk))
        if tags:
            nontriv += 2
    ctx.oracle_count("random", 2 * m, nontriv)
    m2 = ctx.scale(1500, 20000)
    for i in range(m2):
        text = r2.choice(INVALID_HEADERS + [None, None, None])
        _, tags, dr, dt, dk = rand_case_inputs(r2)
        run_oracle(ctx, "nohdr", {"kind": "nohdr", "header": text, "tags": tags, "default_range": dr, "default_tag": dt,
                                  "default": dk, "via": "request" if i % 5 == 0 else "class"})
    ctx.oracle_count("nohdr", m2, m2)

    ctx.extra["rule"] = (
        "correspondence: random valid headers (1-6 elements drawn from a per-case pool of 1-5-subtag ranges incl. single-"
        "letter/digit subtags, repeated ranges, '*', q in {absent,0,0.0,0.001,0.3,0.5,0.8,0.999,1}, mixed case), 0-6 tags "
        "derived from the ranges (equal, truncated, extended, near-miss, other case, ''), default_range/default_tag derived "
        "likewise or odd strings, default None/value/callable; compared on basic_filtering and lookup return values; "
        "oracle: every header of <=%d elements over 6 ranges x 3 qualities x every tag list of <=2 over 7 tags x %d default "
        "combinations, the truncation sequence of every range of <=%d subtags over {en,a,1,xy} observed through spy tags, "
        "and random cases through both AcceptLanguageValidHeader and Request.accept_language; non-trivial = non-empty "
        "tag list" % (ctx.scale(2, 3), ctx.scale(5, 9), ctx.scale(5, 7)))
    ctx.assume += [
        "language_tags is a list of str (generators/sets, which webob indexes with [index], are outside the statement)",
        "ranges, tags and default arguments use code points < 256 (str.lower/isalpha/isdigit are modelled there)",
        "a range repeated in the header counts once in basic_filtering, with the quality and position of its first "
        "occurrence (documented webob reading, pinned by its test-suite; RFC 4647/7231 do not define repeats)",
        "`default` is a value or a zero-argument callable that does not itself raise TypeError",
        "header parsing (text -> .parsed) is property C03's subject; here the model starts from .parsed and the oracle "
        "re-derives the expected .parsed from the generated elements independently",
    ]
    ctx.trusted += [
        "float qvalues with <= 3 decimals compare and sort like their thousandths (N) in the model",
        "Spec/C05_Rfc4647.v (matching, truncations, first-occurrence table) is trusted to say what RFC 4647 3.3.1/3.4 "
        "and the statement say",
    ]


def replay(ctx, path):
    data = json.load(open(path))
    case = data["case"]
    if not isinstance(case, dict) or "kind" not in case:
        print("replay: nothing executable in this file (broken obligation): %s" % data.get("what"))
        return 1
    warnings.simplefilter("ignore")
    r = oracle_case(case)
    if r:
        print("VIOLATION property=C05 replay=%s" % path)
        print("  (%s) %s" % r)
        return 1
    print("replay passes on the current tree")
    return 0
